---------------------------- MODULE MC_PathContain ----------------------------
(* Stage (A) for C11.  Four kinds of runs (see the .cfg files):                                     *)
(*   MC_PathContain            as coded, posix, every name of <= 4 components, one entry per run:   *)
(*                             the escaping (name, option) pairs are EXACTLY EscapesAsCoded         *)
(*   MC_PathContain_guarded    intended guard, same space: written is always below out             *)
(*   MC_PathContain_multi      as coded, two entries of <= 2 components sharing one file system    *)
(*                             (file-vs-directory conflicts, aborts): escapes only by characterised *)
(*   MC_PathContain_multi_guarded, MC_PathContain_win, MC_PathContain_win_guarded                   *)
EXTENDS PathContain
CONSTANTS MaxComps, MaxEntries, MCForms

Opts == [preserve : BOOLEAN, explicit : BOOLEAN, chain : {FALSE}, form : MCForms, preout : BOOLEAN]

Init == \E k \in 1..MaxEntries : \E names \in [1..k -> CompSeqs(MaxComps)] : \E opt \in Opts : InitWith(names, opt)

\* the list TLC is asked for: which names escape under which option, as coded
EscapingPreserve == {cs \in CompSeqs(MaxComps) : EscapesAsCoded(cs, TRUE, TRUE)}
EscapingFlatten  == {cs \in CompSeqs(MaxComps) : EscapesAsCoded(cs, FALSE, TRUE)}
ASSUME PrintT(<<"ESCAPING", Cardinality(EscapingPreserve), "of", Cardinality(CompSeqs(MaxComps)),
                "with preserve;", Cardinality(EscapingFlatten), "without">>)
\* the informal rule of DESIGN.md: preserve /\ (leading separator \/ a `..`) is necessary ...
ASSUME \A cs \in EscapingPreserve : BadForGuard(cs)
\* ... but not sufficient (e.g. `a\..` or `..` alone touch nothing outside): the exact set is smaller
ASSUME \E cs \in CompSeqs(MaxComps) : BadForGuard(cs) /\ cs \notin EscapingPreserve
=============================================================================
