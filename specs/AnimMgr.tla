------------------------------ MODULE AnimMgr ------------------------------
(* X04 -- wow_m2::animation::AnimationManager as a state machine over integer milliseconds.                    *)
(*                                                                                                              *)
(* One record `vam` holds what the Rust struct holds: the sequence table (id, duration, flags, frequency,       *)
(* replay_min/max, blend_time, variation_next, alias_next), the global sequence durations and timers, the       *)
(* current and the next AnimationState (index | NONE, repeat_times, animation_time, main_variation_index), the  *)
(* blend factor (a fraction <<num, den>>: the code computes time_left / blend_time), and a program counter:     *)
(* update(dt) is split into the steps the code takes                                                            *)
(*    UpdateBegin (animation_time += dt) -> StepGlobals (timers += dt, modulo their duration when > 0)          *)
(*    -> StepSelect{Variation,Repeat,None} (update_animation_transitions, first if/else: select_next_variation  *)
(*       walks variation_next by accumulated frequency against an LCG probability; or clone current, repeat-1)  *)
(*    -> StepBlend{Window,Full,NoNext} (time_left < blend_time of the next sequence: next time, blend factor)   *)
(*    -> Complete{Swap,Loop,Zero,Not} (time >= duration: swap to the alias-resolved next | modulo | nothing).   *)
(* The LCG is not modelled bit by bit: a call of calculate_repeats yields any value of replay_min..replay_max   *)
(* (next_f32 = u16 / 65535 reaches 1.0, so replay_max is included), select_next_variation draws a probability   *)
(* in 0..32767 (Probs = the breakpoints of the accumulated-frequency walk for the frequency domain used).       *)
(* f64 NaN is the value NAN (x % 0.0); comparisons with it are false, arithmetic keeps it.                      *)
(*                                                                                                              *)
(* Dev = set of named deviations.  {} is the intended machine.  The code today is AsCoded:                      *)
(*    RepeatNoRewind  the repeat clone keeps the current time: after the swap time >= duration, every further   *)
(*                    update consumes one repeat at once (TimeBound)                                            *)
(*    ZeroDurNaN      (blend_time - time_left) % 0 for a zero-duration next sequence: NaN time (NoNaN)          *)
(*    VarCycleHang    select_next_variation never leaves a variation_next cycle whose frequencies are 0         *)
(* other deviations (GlobalNoMod, LoopSubtract, AliasOneHop, AliasNoLimit) exist only to be refuted.            *)
EXTENDS Integers, Sequences, FiniteSets

CONSTANT Dev
VARIABLE vam

NONE == -1
NAN  == -7
HANG == -9
AsCoded == {"RepeatNoRewind", "ZeroDurNaN", "VarCycleHang"}
Has(d) == d \in Dev
Min2(a, b) == IF a < b THEN a ELSE b
Max2(a, b) == IF a > b THEN a ELSE b

SeqRec(id, dur, flags, freq, rmin, rmax, blend, vnext, alias) ==
  [id |-> id, dur |-> dur, flags |-> flags, freq |-> freq, rmin |-> rmin, rmax |-> rmax, blend |-> blend, vnext |-> vnext, alias |-> alias]
IsAlias(q) == (q.flags \div 64) % 2 = 1 /\ (q.flags \div 32) % 2 = 0       \* (flags & 0x40) != 0 && (flags & 0x20) == 0
At(tab, i) == tab[i + 1]                                                    \* the code's indices are 0-based
NoneSt == [idx |-> NONE, rep |-> 0, time |-> 0, main |-> 0]
FreshSt(i, r) == [idx |-> i, rep |-> r, time |-> 0, main |-> i]
Position(tab, id) ==                                                        \* iter().position(|s| s.id == id)
  IF \E i \in 1..Len(tab) : tab[i].id = id
  THEN (CHOOSE i \in 1..Len(tab) : tab[i].id = id /\ \A j \in 1..(i - 1) : tab[j].id # id) - 1 ELSE NONE
Repeats(q) == IF q.rmax <= q.rmin THEN {q.rmin} ELSE q.rmin..q.rmax        \* calculate_repeats
Probs == {0, 1, 8192, 8193, 16384, 16385, 24576, 24577, 32767}
Dec(r) == Max2(r - 1, -1)               \* repeat_times only matters through `> 0` / `<= 0`: clamp keeps the model finite

\* f64 with NaN
TAdd(t, d) == IF t = NAN THEN NAN ELSE t + d
TGe(t, d)  == t # NAN /\ t >= d
TLeft(d, t) == IF t = NAN THEN NAN ELSE d - t
TLt(l, b)  == l # NAN /\ l < b
TMod(x, d) == IF d = 0 THEN (IF Has("ZeroDurNaN") THEN NAN ELSE 0) ELSE x % d

\* resolve_alias: follow alias_next while the sequence is an alias; 100 iterations at most, out of range / limit -> the argument
RECURSIVE ResolveFrom(_, _, _, _)
ResolveFrom(tab, orig, c, fuel) ==
  IF fuel = 0 THEN (IF Has("AliasNoLimit") THEN HANG ELSE orig)
  ELSE IF c >= Len(tab) THEN orig
  ELSE IF ~IsAlias(At(tab, c)) THEN c
  ELSE IF Has("AliasOneHop") THEN (IF At(tab, c).alias < Len(tab) THEN At(tab, c).alias ELSE orig)
  ELSE ResolveFrom(tab, orig, At(tab, c).alias, fuel - 1)
Resolve(tab, i) == ResolveFrom(tab, i, i, Len(tab) + 1)     \* Len(tab) < 100: a chain that has not ended after Len hops is cyclic
RECURSIVE ChainEnds(_, _, _)
ChainEnds(tab, c, fuel) == IF fuel = 0 \/ c >= Len(tab) THEN FALSE ELSE IF ~IsAlias(At(tab, c)) THEN TRUE ELSE ChainEnds(tab, At(tab, c).alias, fuel - 1)

\* select_next_variation's loop: accumulated (saturating u16) frequency against the probability
RECURSIVE WalkFrom(_, _, _, _, _)
WalkFrom(tab, i, calc, p, fuel) ==
  LET q == At(tab, i)  c2 == Min2(calc + q.freq, 65535) IN
  IF c2 >= p \/ q.vnext < 0 \/ q.vnext >= Len(tab) THEN i
  ELSE IF fuel = 0 THEN (IF Has("VarCycleHang") THEN HANG ELSE i)
  ELSE WalkFrom(tab, q.vnext, c2, p, fuel - 1)
\* intended: a variation list visits every sequence at most once (Len - 1 moves); as coded: unbounded -- for frequencies in
\* {0} \cup 8192.. a walk still running after 6 Len + 2 moves is in a cycle that adds nothing and never ends
Walk(tab, main, p) == WalkFrom(tab, main, 0, p, IF Has("VarCycleHang") THEN 6 * Len(tab) + 2 ELSE Len(tab) - 1)

\* ---- constructors ----------------------------------------------------------------------------------------
Mk(tab, gd, cur) == [seqs |-> tab, gd |-> gd, cur |-> cur, nxt |-> NoneSt, bl |-> <<1, 1>>, gt |-> [i \in 1..Len(gd) |-> 0], pc |-> "idle", dt |-> 0]
NewAll(tab, gd) == LET st == Position(tab, 0) IN
  IF st = NONE THEN {Mk(tab, gd, NoneSt)} ELSE {Mk(tab, gd, FreshSt(st, r)) : r \in Repeats(At(tab, st))}
EmptyM == Mk(<<>>, <<>>, NoneSt)
StartAll(S, i) == {[S EXCEPT !.cur = FreshSt(i, r), !.nxt = NoneSt, !.bl = <<1, 1>>] : r \in Repeats(At(S.seqs, i))}
SetIdAll(S, id) == LET i == Position(S.seqs, id) IN IF i = NONE THEN {S} ELSE StartAll(S, i)
SetIndexAll(S, i) == IF i >= 0 /\ i < Len(S.seqs) THEN StartAll(S, i) ELSE {S}

\* ---- update(dt), step by step (pure operators; the actions below and the trace specification use them) ------
Begin(S, dt) == [S EXCEPT !.cur.time = TAdd(@, dt), !.dt = dt, !.pc = "globals"]
GStep(t, d, dt) == IF d > 0 /\ ~Has("GlobalNoMod") THEN (t + dt) % d ELSE t + dt
Globals(S) == [S EXCEPT !.gt = [i \in 1..Len(S.gd) |-> GStep(S.gt[i], S.gd[i], S.dt)],
                        !.pc = IF S.cur.idx = NONE THEN "idle" ELSE "select", !.dt = IF S.cur.idx = NONE THEN 0 ELSE @]
SelKind(S) == LET mv == At(S.seqs, S.cur.main) IN
  IF S.nxt.idx = NONE /\ mv.vnext > -1 /\ S.cur.rep <= 0 THEN "variation" ELSE IF S.cur.rep > 0 THEN "repeat" ELSE "none"
SelectAll(S) ==
  CASE SelKind(S) = "variation" ->
         UNION {LET w == Walk(S.seqs, S.cur.main, p) IN
                IF w = HANG THEN {[S EXCEPT !.pc = "hung"]}
                ELSE {[S EXCEPT !.nxt = [idx |-> w, rep |-> r, time |-> 0, main |-> S.cur.main], !.pc = "blend"] : r \in Repeats(At(S.seqs, w))}
                : p \in Probs}
    [] SelKind(S) = "repeat" ->
         {[S EXCEPT !.nxt = [S.cur EXCEPT !.rep = @ - 1, !.time = IF Has("RepeatNoRewind") THEN @ ELSE 0], !.pc = "blend"]}
    [] OTHER -> {[S EXCEPT !.pc = "blend"]}
BlendKind(S) ==
  IF S.nxt.idx = NONE THEN "nonext"
  ELSE LET ns == At(S.seqs, S.nxt.idx)  left == TLeft(At(S.seqs, S.cur.idx).dur, S.cur.time) IN
       IF ns.blend > 0 /\ TLt(left, ns.blend) THEN "window" ELSE "full"
Blend(S) ==
  LET left == TLeft(At(S.seqs, S.cur.idx).dur, S.cur.time) IN
  CASE BlendKind(S) = "window" -> LET ns == At(S.seqs, S.nxt.idx) IN
         [S EXCEPT !.nxt.time = TMod(ns.blend - left, ns.dur), !.bl = <<left, ns.blend>>, !.pc = "complete"]
    [] BlendKind(S) = "full" -> [S EXCEPT !.bl = <<1, 1>>, !.pc = "complete"]
    [] OTHER -> [S EXCEPT !.pc = "complete"]
CompleteKind(S) == LET cs == At(S.seqs, S.cur.idx) IN
  IF ~TGe(S.cur.time, cs.dur) THEN "not" ELSE IF S.nxt.idx # NONE THEN "swap" ELSE IF cs.dur > 0 THEN "loop" ELSE "zero"
Complete(S) ==
  LET cs == At(S.seqs, S.cur.idx)  T == [S EXCEPT !.pc = "idle", !.dt = 0] IN
  CASE CompleteKind(S) = "swap" -> LET r == Resolve(S.seqs, S.nxt.idx) IN
         IF r = HANG THEN [S EXCEPT !.pc = "hung"]
         ELSE [T EXCEPT !.cur = [S.nxt EXCEPT !.idx = r], !.nxt = NoneSt, !.bl = <<1, 1>>]
    [] CompleteKind(S) = "loop" -> [T EXCEPT !.cur.rep = Dec(@), !.cur.time = IF Has("LoopSubtract") THEN @ - cs.dur ELSE @ % cs.dur]
    [] CompleteKind(S) = "zero" -> [T EXCEPT !.cur.rep = Dec(@)]
    [] OTHER -> T
\* all final states of one update(dt) call
Finish(S) == IF S.pc = "hung" THEN S ELSE Complete(Blend(S))
UpdateAll(S, dt) == LET G == Globals(Begin(S, dt)) IN IF G.pc = "idle" THEN {G} ELSE {Finish(X) : X \in SelectAll(G)}
\* the class without random choice and without chaining: plain looping
NoChain(S) == S.pc = "idle" /\ S.cur.idx # NONE /\ S.nxt.idx = NONE /\ S.cur.rep <= 0 /\ At(S.seqs, S.cur.main).vnext < 0
Pub(S) == <<S.cur.idx, S.cur.time, S.gt, S.bl>>
UpdateDet(S, dt) == CHOOSE X \in UpdateAll(S, dt) : TRUE

\* ---- actions ---------------------------------------------------------------------------------------------------
Idle == vam.pc = "idle"
New(tab, gd)      == vam' \in NewAll(tab, gd)
Empty             == vam' = EmptyM
SetIdFound(id)    == Idle /\ Position(vam.seqs, id) # NONE /\ vam' \in SetIdAll(vam, id)
SetIdUnknown(id)  == Idle /\ Position(vam.seqs, id) = NONE /\ vam' \in SetIdAll(vam, id)
SetIndexValid(i)  == Idle /\ i < Len(vam.seqs) /\ vam' \in SetIndexAll(vam, i)
SetIndexInvalid(i) == Idle /\ i >= Len(vam.seqs) /\ vam' \in SetIndexAll(vam, i)
UpdateBegin(dt)   == Idle /\ vam' = Begin(vam, dt)
StepGlobals       == vam.pc = "globals" /\ vam' = Globals(vam)
StepSelectVariation == vam.pc = "select" /\ SelKind(vam) = "variation" /\ vam' \in SelectAll(vam)
StepSelectRepeat  == vam.pc = "select" /\ SelKind(vam) = "repeat" /\ vam' \in SelectAll(vam)
StepSelectNone    == vam.pc = "select" /\ SelKind(vam) = "none" /\ vam' \in SelectAll(vam)
StepBlendWindow   == vam.pc = "blend" /\ BlendKind(vam) = "window" /\ vam' = Blend(vam)
StepBlendFull     == vam.pc = "blend" /\ BlendKind(vam) = "full" /\ vam' = Blend(vam)
StepBlendNoNext   == vam.pc = "blend" /\ BlendKind(vam) = "nonext" /\ vam' = Blend(vam)
CompleteSwap      == vam.pc = "complete" /\ CompleteKind(vam) = "swap" /\ vam' = Complete(vam)
CompleteLoop      == vam.pc = "complete" /\ CompleteKind(vam) = "loop" /\ vam' = Complete(vam)
CompleteZero      == vam.pc = "complete" /\ CompleteKind(vam) = "zero" /\ vam' = Complete(vam)
CompleteNot       == vam.pc = "complete" /\ CompleteKind(vam) = "not" /\ vam' = Complete(vam)
Steps == StepGlobals \/ StepSelectVariation \/ StepSelectRepeat \/ StepSelectNone \/ StepBlendWindow \/ StepBlendFull
         \/ StepBlendNoNext \/ CompleteSwap \/ CompleteLoop \/ CompleteZero \/ CompleteNot

\* ---- the property ------------------------------------------------------------------------------------------------
NSeq == Len(vam.seqs)
IndexValid == /\ vam.cur.idx = NONE \/ (vam.cur.idx >= 0 /\ vam.cur.idx < NSeq)
              /\ vam.nxt.idx = NONE \/ (vam.nxt.idx >= 0 /\ vam.nxt.idx < NSeq)
              /\ vam.cur.main >= 0 /\ (NSeq > 0 => vam.cur.main < NSeq)
              /\ vam.cur.idx = NONE => Position(vam.seqs, 0) = NONE          \* None only when there is no Stand and nothing was set
NoNaN      == vam.cur.time # NAN /\ vam.nxt.time # NAN
TimeBound  == (Idle /\ vam.cur.idx # NONE /\ vam.cur.time # NAN) =>
                 /\ vam.cur.time >= 0
                 /\ At(vam.seqs, vam.cur.idx).dur > 0 => vam.cur.time < At(vam.seqs, vam.cur.idx).dur
BlendRange == Idle => vam.bl[2] > 0 /\ 0 <= vam.bl[1] /\ vam.bl[1] <= vam.bl[2]
GlobalRange == vam.pc # "globals" => \A i \in 1..Len(vam.gd) : vam.gt[i] >= 0 /\ (vam.gd[i] > 0 => vam.gt[i] < vam.gd[i])
Terminates == vam.pc # "hung"
\* resolve_alias ends in a non-alias whenever the chain has an end, and in range always (cyclic chains: the argument)
AliasResolved == \A i \in 0..(NSeq - 1) : LET r == Resolve(vam.seqs, i) IN
                    r # HANG /\ r >= 0 /\ r < NSeq /\ (ChainEnds(vam.seqs, i, NSeq + 1) => ~IsAlias(At(vam.seqs, r)))
\* update(a); update(b) = update(a + b) on everything observable, where no random choice / chaining is involved
AddDts == {0, 1, 3, 5, 13}
Additive == NoChain(vam) => \A a \in AddDts, b \in AddDts :
               LET S1 == UpdateDet(vam, a) IN NoChain(S1) => Pub(UpdateDet(S1, b)) = Pub(UpdateDet(vam, a + b))
=============================================================================
