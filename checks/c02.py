"""C02 -- archives interoperate with an independent implementation of the MPQ format (V1..V4 incl. HET/BET tables).

The independent implementation is specs/MpqFormat.tla evaluated by TLC (header, encrypted hash/block
tables, probing, block entries, sector offset tables, file keys incl. FIX_KEY, sector encryption; all
cryptography from MpqCrypto.tla) plus Python's zlib/bz2 for the payloads.  No Rust code from /repo is on
the reference path.

 direction 1: TLC cases -> c02 write (library builds archives) -> TLC Read_MpqFormat (reference decodes
              the bytes) -> Python inflates -> events RefOpen/RefFile/RefAbsent/RefList
 direction 2: TLC cases -> Python concretises + compresses sectors -> TLC Write_MpqFormat (reference lays
              out + encrypts) -> files -> c02 read (library opens/lists/reads under 4 spellings) -> events
 verdict:     TLC trace validation against Trace_MpqFormat.tla
"""
import bz2
import hashlib
import json
import os
import random
import re
import zlib

from vlib import core

META = {
    "disabled": False,
    "level": "translation_validation",
    "level_text": "specs/MpqFormat.tla is an executable reference implementation of the MPQ V1/V2 on-disk format written from "
                  "docs/src/formats/archives/mpq.md and the public format description (not from the Rust code). TLC evaluates all of it: "
                  "header search incl. user data header, header conformance, decryption and layout of the hash/block tables, locale-aware "
                  "probing across deleted slots, block flags, single-unit / raw-sector / sector-offset-table layouts, file keys (plain name, "
                  "FIX_KEY), offset-table key-1 and sector keys key+i, the dword-granular cipher (MpqCrypto.tla), ADLER32 sector checksums and "
                  "the checksum sector, and the inverse writer; TLC also decides every comparison (trace validation against Trace_MpqFormat.tla). "
                  "Python does only what the property calls 'standard zlib/bzip2 payloads': zlib/bz2 (de)compression of sector payloads behind the "
                  "method byte, SHA-1 tokens of contents, and file I/O. Both directions run on TLC-generated configurations (V1/V2 x shift 0..3 x "
                  "none/zlib/bzip2 x plain/encrypted/fix-key x 10 length classes around the sector size x 5 content classes incl. the "
                  "stream-one-byte-shorter boundary x ASCII and non-ASCII names x sector checksums; the reference writer also varies the foreign "
                  "compressor (zlib window bits 9..15, levels 1/3/6/9, five strategies - i.e. every CMF/FLEVEL header byte pair - and bzip2 block sizes 1..9), "
                  "single-unit/sectored storage, hash-table size incl. full tables, deleted slots, hi-block table, pre-archive data with and "
                  "without user data header, a same-name entry of another locale, and V3 68-byte headers over classic tables): the reference decodes every library-written archive and the "
                  "library reads every reference-written archive under four spellings; files the builder adds under non-neutral locales (same name under two locales, 0x0409/0x0807) are looked up by (name, locale) and their hash-entry locale/platform fields compared. The reference is model-checked for "
                  "RefRead(RefWrite(f,c)) = f on 8/16-byte sectors, and each historical deviation of the library is shown to break that round trip. "
                  "Growth round 4 (specs/MpqFormatHB.tla): V3/V4 headers (64-bit size, HET/BET positions, V4 table sizes, raw chunk size, six MD5 digests - TLC names the "
                  "byte range of each digest, hashlib computes MD5), HET and BET tables (extended header, table keys, optional zlib/bzip2 compression, bit-packed index / entry / "
                  "name-hash arrays as index arithmetic, lookup = HET probe + BET hash verification over MpqCrypto's hashlittle2): 1/4 of the archives of each direction are V3/V4; "
                  "library-written ones are read through the classic tables AND through HET/BET, reference-written ones come with the classic tables, with an empty classic hash "
                  "table, or without classic tables, over name-hash widths 17..64, full and roomy HET arrays, extra/slack bits and compressed tables; seven named HET/BET deviations "
                  "are refuted on the model.",
    "level_note": "Trusted: TLC's evaluation of MpqFormat.tla/MpqFormatHB.tla/MpqCrypto.tla/Word32.tla; CPython's zlib/bz2/hashlib (MD5 of TLC-named ranges). Subset: V1..V4 headers, classic hash/block "
                  "tables and HET/BET tables (no locale twins, no raw chunk digests, classic tables of V4 uncompressed), archives <= ~17 KB (hi-block entries are always 0), no implode/huffman/ADPCM/LZMA/sparse "
                  "payloads, checksum sectors stored raw. Six deviations of the library from the published format were found with this check "
                  "and repaired in /repo (cipher tail d86b8d5, full-path file key f4d4c14, COMPRESS flag of sectored files 9cf2783, per-sector keys "
                  "of uncompressed files 0f74d94, locale preference 20f0bd8, checksum layout 7734a50); they remain in the specification as named "
                  "must-refute dialects: a rejected file is reported as dev:<labels> when the smallest combination of them reproduces it exactly, "
                  "else as unexplained - both are violations unless the corresponding finding is listed as known.",
    "technique": "TLA+ reference implementation (MpqFormat.tla) evaluated by TLC in both directions + Python zlib/bz2; TLC trace validation decides",
    "design_ref": "DESIGN.md section 5, C02",
    "crates": ["c02"],
}

LISTFILE = "(listfile)"


def decode_name(s):
    """%XX escapes in generated names stand for the UTF-8 bytes of non-ASCII characters."""
    return re.sub(rb"%([0-9A-Fa-f]{2})", lambda m: bytes([int(m.group(1), 16)]), s.encode("ascii")).decode("utf-8")


def tok(b):
    return hashlib.sha1(bytes(b)).hexdigest()[:16]


def sector_size(shift):
    return 512 << shift            # mpq.md: "Block size as power of two: 512 * 2^block_size_shift"


def length_of(lc, s):
    return {"0": 0, "1": 1, "7": 7, "S-1": s - 1, "S": s, "S+1": s + 1, "S+S/2": s + s // 2, "2S": 2 * s,
            "2S+9": 2 * s + 9, "3S+5": 3 * s + 5}[lc]


# ------------------------------------------------------------------------------------------ TLC map
def tlc_map(ctx, module, in_path, in_env, marker, shards, timeout=900, heap="3g"):
    """Evaluate the constant-level TLA+ function of `module` on every NDJSON record of in_path
    (sharded over parallel TLC processes); returns the list of output records in input order."""
    lines = [l for l in open(in_path).read().splitlines() if l.strip()]
    if not lines:
        return []
    shards = max(1, min(shards, len(lines)))
    per = (len(lines) + shards - 1) // shards
    parts = [lines[i:i + per] for i in range(0, len(lines), per)]

    def one(ix):
        ip = ctx.path(f"{module}-in-{ix}.ndjson")
        op = ctx.path(f"{module}-out-{ix}.ndjson")
        with open(ip, "w") as f:
            f.write("\n".join(parts[ix]) + "\n")
        rc, text = ctx.tlc(module, env={in_env: ip, "OUT": op}, workers=1, timeout=timeout, heap=heap, tag=f"{module}-{ix}")
        if rc != 0 or "No error has been found" not in text or f'<<"{marker}", {len(parts[ix])}>>' not in text:
            raise core.ToolError(f"{module} shard {ix} failed rc={rc}:\n" + core._tail(text))
        out = [json.loads(l) for l in open(op).read().splitlines() if l.strip()]
        os.remove(ip)
        os.remove(op)
        if len(out) != len(parts[ix]):
            raise core.ToolError(f"{module} shard {ix}: {len(out)} outputs for {len(parts[ix])} inputs")
        return out

    res = core._parallel_map(one, list(range(len(parts))))
    return [r for part in res for r in part]


# ------------------------------------------------------------------------------------------ direction 1
def inflate_variant(v):
    """v: a decoded file variant from Read_MpqFormat -> {res,len,tok,plens,wants} (payloads inflated by zlib/bz2)."""
    if v["res"] != "ok":
        return {"res": v["res"], "len": -1, "tok": "", "plens": [], "wants": [], "crc": v.get("crc", "none")}
    out = bytearray()
    plens, wants = [], []
    res = "ok"
    for s in v["sectors"]:
        p = bytes(s["p"])
        wants.append(s["want"])
        if s["m"] == -1:
            d = p
        elif s["m"] == 2:
            try:
                d = zlib.decompress(p)
            except Exception:
                res, d = "err:inflate", b""
        elif s["m"] == 16:
            try:
                d = bz2.decompress(p)
            except Exception:
                res, d = "err:bunzip2", b""
        else:
            res, d = "err:method", b""
        plens.append(len(d))
        out += d
    return {"res": res, "len": len(out), "tok": tok(out), "plens": plens, "wants": wants, "crc": v.get("crc", "none")}


def refopen_x(a, x):
    """V3/V4 part of the RefOpen event: header integers as decoded by the reference and, for every digest of a V4 header, the
    digest the header keeps (`want`) next to hashlib's MD5 of the byte range the specification names for it (`got`)."""
    if not x.get("isx"):
        return {"asize64": -1, "hetpos": -1, "betpos": -1, "hetsz": -1, "betsz": -1, "htsz": -1, "btsz": -1, "hibtsz": -1, "rawchunk": -1, "md5": []}
    data = bytes(a["bytes"])
    md5 = [{"what": g["what"], "want": bytes(g["want"]).hex(), "got": hashlib.md5(data[g["lo"]:g["lo"] + g["len"]]).hexdigest()} for g in x["md5"]]
    hx = x["hx"]
    return {"asize64": hx["asize64"], "hetpos": hx["hetpos"], "betpos": hx["betpos"], "hetsz": x["xs"]["hetsz"], "betsz": x["xs"]["betsz"],
            "htsz": hx["htsz"], "btsz": hx["btsz"], "hibtsz": hx["hibtsz"], "rawchunk": hx["rawchunk"], "md5": md5}


def inflate_body(t):
    """plain body of a HET/BET table from Read_MpqFormat pass 1 (decrypted by TLC; compressed bodies inflated here)."""
    if t["res"] != "ok":
        return []
    p = bytes(t["p"])
    try:
        if t["m"] == -1:
            return list(p)
        if t["m"] == 2:
            return list(zlib.decompress(p))
        if t["m"] == 16:
            return list(bz2.decompress(p))
    except Exception:
        pass
    return []


def decode_dir1(ctx, arch, shards):
    """Reference reader over the library-written archives.  V3/V4 archives take two TLC passes: pass 1 decrypts the HET/BET
    tables, Python inflates compressed bodies, pass 2 (all archives) parses the tables and decodes every file."""
    recs = [json.loads(l) for l in open(arch) if l.strip()]
    xs = [r for r in recs if r["ver"] >= 2 and r["res"] == "ok"]
    plain = {}
    if xs:
        p1 = ctx.path("lib_archives_x.ndjson")
        with open(p1, "w") as f:
            for r in xs:
                f.write(json.dumps({**r, "xpass": 1, "hetplain": [], "betplain": []}) + "\n")
        for r, o in zip(xs, tlc_map(ctx, "Read_MpqFormat", p1, "ARCH", "DECODED", shards)):
            plain[r["case"]] = (inflate_body(o["het"]), inflate_body(o["bet"]))
        os.remove(p1)
    p2 = ctx.path("lib_archives_2.ndjson")
    with open(p2, "w") as f:
        for r in recs:
            hp, bp = plain.get(r["case"], ([], []))
            f.write(json.dumps({**r, "xpass": 0, "hetplain": hp, "betplain": bp}) + "\n")
    out = tlc_map(ctx, "Read_MpqFormat", p2, "ARCH", "DECODED", shards)
    os.remove(p2)
    return out


def trace_dir1(arch_path, decoded):
    evs = []
    nfiles = 0
    for line, d in zip(open(arch_path), decoded):
        a = json.loads(line)
        case = a["case"]
        names = [f["name"] for f in a["files"]]
        x = d.get("x") or {"isx": False}
        evs.append({"ev": "Reset", "case": case, "dir": 1, "ver": a["ver"], "shift": a["shift"], "crc": a.get("crc", False), "names": names,
                    "hetbet": a["ver"] >= 2, "classic": True,
                    "lens": [f["len"] for f in a["files"]], "toks": [f["tok"] for f in a["files"]],
                    "twin": {"name": "", "len": -1, "tok": ""},
                    "cfg": {"listfile": a["listfile"], "files": [{k: f[k] for k in ("name", "meth", "enc", "lc", "cc")} for f in a["files"]]}})
        evs.append({"ev": "Build", "case": case, "res": a["res"]})
        hn = d["hn"]
        evs.append({"ev": "RefOpen", "case": case, "open": d["open"], "base": d["base"], "alen": d["alen"], **hn, "x": refopen_x(a, x)})
        if x.get("isx") and d["open"] == "ok":
            evs.append({"ev": "RefTables", "case": case, "hetext": x["hetext"], "betext": x["betext"], "het": x["het"], "bet": x["bet"],
                        "agree": x["agree"], "slots": x["slots"], "tablecomp": a.get("tablecomp", "none")})
        for f, df in zip(a["files"], d["files"]):
            nfiles += 1
            evs.append({"ev": "RefFile", "case": case, "name": f["name"], "meth": f["meth"], "enc": f["enc"], "lc": f["lc"],
                        "fsize": df["std"]["fsize"], "flags": df["std"]["flags"], "single": df["std"]["single"],
                        "locale": df["std"]["locale"], "platform": df["std"]["platform"],
                        "std": inflate_variant(df["std"]), "rawsame": df["rawsame"],
                        "devs": [{"labels": "+".join(dv["labels"]), "v": inflate_variant(dv["v"]), "rawsame": dv["rawsame"]}
                                 for dv in df["devs"]]})
        if x.get("isx") and d["open"] == "ok":
            # the same files through the HET/BET tables (standard x-dialect and the library's)
            for f, xf in zip(a["files"], x["files"]):
                nfiles += 1
                evs.append({"ev": "RefFileX", "case": case, "name": f["name"], "std": inflate_variant(xf["std"]["v"]), "stdraw": xf["std"]["rawsame"],
                            "lib": inflate_variant(xf["lib"]["v"]), "libraw": xf["lib"]["rawsame"]})
            for ab, xa in zip(a["absent"], x["absent"]):
                evs.append({"ev": "RefAbsentX", "case": case, "name": ab["name"], "std": xa["std"], "lib": xa["lib"]})
        for lf, dl in zip(a.get("locfiles", []), d.get("locfiles", [])):
            nfiles += 1
            evs.append({"ev": "RefLocFile", "case": case, "name": lf["name"], "locale": lf["locale"], "want": {"len": lf["len"], "tok": lf["tok"]},
                        "fsize": dl["std"]["fsize"], "flags": dl["std"]["flags"], "entlocale": dl["std"]["locale"], "entplatform": dl["std"]["platform"],
                        "std": inflate_variant(dl["std"]), "rawsame": dl["rawsame"]})
        for ab, res in zip(a["absent"], d["absent"]):
            evs.append({"ev": "RefAbsent", "case": case, "name": ab["name"], "res": res})
        if d["listfile"]:
            lf = d["listfile"][0]["std"]
            iv = inflate_variant(lf)
            content = b""
            if iv["res"] == "ok":
                content = b"".join(bytes(s["p"]) if s["m"] == -1 else (zlib.decompress(bytes(s["p"])) if s["m"] == 2 else bz2.decompress(bytes(s["p"])))
                                   for s in lf["sectors"])
            lnames = sorted(x for x in content.decode("utf-8", errors="replace").replace("\r", "\n").split("\n") if x)
            evs.append({"ev": "RefList", "case": case, "res": iv["res"], "names": lnames,
                        "locnames": sorted({lf["name"] for lf in a.get("locfiles", [])})})
        evs.append({"ev": "Done", "case": case})
    return evs, nfiles


# ------------------------------------------------------------------------------------------ direction 2
WORDS = [b"the ", b"quick ", b"brown ", b"fox ", b"Interface\\", b"Glue", b".blp", b"\r\n", b"model", b"0", b"e", b"World of Warcraft "]


def gen_content(cc, n, rng):
    if cc == "random":
        return bytes(rng.getrandbits(8) for _ in range(n))
    if cc == "run":
        return bytes([0x41 + rng.randrange(20)]) * n
    if cc == "text":
        b = bytearray()
        while len(b) < n:
            b += rng.choice(WORDS)
        return bytes(b[:n])
    if cc in ("mixed", "edge"):            # first half compressible, second half random
        h = n // 2
        return gen_content("text", h, rng) + gen_content("random", n - h, rng)
    raise core.ToolError("content class " + cc)


ZSTRAT = {"default": zlib.Z_DEFAULT_STRATEGY, "filtered": zlib.Z_FILTERED, "huffman": zlib.Z_HUFFMAN_ONLY, "rle": zlib.Z_RLE, "fixed": zlib.Z_FIXED}


def compress_unit(raw, meth, zp=None):
    """Sector as stored by a conformant writer: compressed (method byte + payload) only if smaller.
    zp = (wbits, level, strategy, bz2 level): any RFC 1950 zlib stream / any bzip2 block size is a standard payload."""
    wbits, zlevel, zstrat, bzlevel = zp or (15, 6, "default", 9)
    if meth == "none" or not raw:
        return {"m": -1, "p": list(raw)}
    if meth == "zlib":
        co = zlib.compressobj(zlevel, zlib.DEFLATED, wbits, 8, ZSTRAT[zstrat])
        c, m = co.compress(raw) + co.flush(), 2
    else:
        c, m = bz2.compress(raw, bzlevel), 16
    if len(c) + 1 < len(raw):
        return {"m": m, "p": list(c)}
    return {"m": -1, "p": list(raw)}


def make_file(name, data, meth, enc, unit, ssize, crc=False, zp=None, secmeth="same"):
    single = (len(data) <= ssize) if unit == "auto" else (unit == "single")
    # per-sector method: every compressed sector carries its own method byte; "alt" alternates zlib/bzip2 from sector to sector
    other = {"zlib": "bzip2", "bzip2": "zlib", "none": "none"}[meth]
    if not data:
        secs = []
    elif single:
        secs = [compress_unit(data, meth, zp)]
    else:
        secs = [compress_unit(data[i:i + ssize], meth if (secmeth != "alt" or (i // ssize) % 2 == 0) else other, zp) for i in range(0, len(data), ssize)]
    return {"name": name, "nb": list(name.encode("utf-8")), "locale": 0, "crc": bool(crc), "fsize": len(data), "enc": enc, "single": single,
            "cflag": meth != "none", "sectors": secs}


def compress_table(body, meth):
    """stored form of a HET/BET body: method byte + stream if that is shorter than the body, else [] (= store raw)."""
    raw = bytes(body)
    c = bytes([2]) + zlib.compress(raw, 9) if meth == "zlib" else bytes([16]) + bz2.compress(raw, 9)
    return list(c) if len(c) < len(raw) else []


def patch_md5(data, plan):
    """fill in the digests of a V4 header: MD5 (hashlib) of each byte range the specification names, header digest last."""
    b = bytearray(data)
    for g in plan:
        b[g["at"]:g["at"] + 16] = hashlib.md5(bytes(b[g["lo"]:g["lo"] + g["len"]])).digest()
    return bytes(b)


def write_dir2(ctx, wcases, wpath, shards):
    """Reference writer.  Archives whose HET/BET tables are stored compressed take two TLC passes: pass 1 returns the plain
    table bodies, Python compresses them, pass 2 lays out the archive."""
    keys = ("case", "cfg", "files", "absentpool")
    comp = [w for w in wcases if w["cfg"]["tablecomp"] != "none"]
    if comp:
        p1 = ctx.path("wcases_x.ndjson")
        with open(p1, "w") as f:
            for w in comp:
                f.write(json.dumps({**{k: w[k] for k in keys}, "xpass": 1}) + "\n")
        for w, o in zip(comp, tlc_map(ctx, "Write_MpqFormat", p1, "WCASES", "ENCODED", shards)):
            w["cfg"]["hetstored"] = compress_table(o["hetbody"], w["cfg"]["tablecomp"])
            w["cfg"]["betstored"] = compress_table(o["betbody"], w["cfg"]["tablecomp"])
        os.remove(p1)
    with open(wpath, "w") as f:
        for w in wcases:
            f.write(json.dumps({**{k: w[k] for k in keys}, "xpass": 0}) + "\n")
    return tlc_map(ctx, "Write_MpqFormat", wpath, "WCASES", "ENCODED", shards)


def pow2_at_least(n):
    p = 1
    while p < n:
        p *= 2
    return p


def concretise_dir2(cases, seed):
    out = []
    for c in cases:
        if c["dir"] != 2:
            continue
        ssize = sector_size(c["shift"])
        files, meta = [], []
        for f in c["files"]:
            f["name"] = decode_name(f["name"])
        for fi, f in enumerate(c["files"]):
            rng = random.Random(f"c02r:{seed}:{c['id']}:{fi}")
            data = gen_content(f["cc"], length_of(f["lc"], ssize), rng)
            zp = (f.get("wbits", 15), f.get("zlevel", 6), f.get("zstrat", "default"), f.get("bzlevel", 9))
            files.append(make_file(f["name"], data, f["meth"], f["enc"], f["unit"], ssize, f.get("crc", False), zp, f.get("secmeth", "same")))
            nmeth = len({sc["m"] for sc in files[-1]["sectors"] if sc["m"] >= 0})
            meta.append({"name": f["name"], "len": len(data), "tok": tok(data), "meth": f["meth"], "enc": f["enc"], "lc": f["lc"], "unit": f["unit"] + ("+crc" if f.get("crc") else ""),
                         "codec": (f"w{zp[0]}l{zp[1]}{zp[2]}" if f["meth"] == "zlib" else f"bz{zp[3]}" if f["meth"] == "bzip2" else "") + ("+alt" if nmeth > 1 else "")})
        twin = {"name": "", "len": -1, "tok": ""}
        if c.get("twin") and files:
            # same name as file 1, locale 0x409 (enUS), other content, inserted first => earlier in the probe chain;
            # a neutral-locale lookup must still return the neutral entry
            rng = random.Random(f"c02r:{seed}:{c['id']}:twin")
            tw = make_file(files[0]["name"], gen_content("text", 33, rng), "none", "plain", "auto", ssize)
            tw["locale"] = 0x409
            files.insert(0, tw)
            meta.insert(0, None)
            twin = {"name": tw["name"], "len": tw["fsize"], "tok": tok(bytes(tw["sectors"][0]["p"]))}
        names = [f["name"] for f in c["files"]] + [LISTFILE]
        ldata = "".join(n + "\r\n" for n in names).encode("utf-8")
        files.append(make_file(LISTFILE, ldata, c["listfile"], "plain", "auto", ssize))
        meta.append({"name": LISTFILE, "len": len(ldata), "tok": tok(ldata), "meth": c["listfile"], "enc": "plain", "lc": "-", "unit": "auto", "codec": ""})
        n = len(files)
        hcount = pow2_at_least(2 * n + 2) if c["roomy"] else pow2_at_least(n + c["ndel"])
        if c.get("htclass") == "beyond":      # hash table bytes (16 per entry) exceed the archive's offset in the file
            hcount = max(hcount, pow2_at_least(max(c["prefix"], 512) // 16 + 1))
        # last: differs from a (possibly present) name only in the case of a NON-ASCII letter: another name for the format
        pool = [f"absent{k:02d}.dat" for k in range(24)] + ["Data\\File99.bin", "Interface\\Glue\\caf\u00c9.txt"]
        out.append({"case": c["id"], "ver": c["ver"], "shift": c["shift"],
                    "cfg": {"ver": c["ver"], "shift": c["shift"], "hcount": hcount, "ndel": c["ndel"], "hibt": c["hibt"], "prefixlen": c["prefix"],
                            "userdata": bool(c.get("userdata")), "twin": bool(c.get("twin")),
                            # growth round 4: HET/BET tables (reference writer's free choices), V4 header
                            "hetbet": bool(c.get("hetbet")), "classic": bool(c.get("classic", True)), "ghost": bool(c.get("ghost")), "hbits": c.get("hbits", 64),
                            "hettotal": {"full": n, "x2": 2 * n, "plus1": n + 1, "x4": 4 * n}[c.get("hetroom", "x2")],
                            "iextra": c.get("iextra", 0), "hextra": c.get("hextra", 0), "slack": c.get("slack", 0),
                            "tablecomp": c.get("tablecomp", "none") if c.get("hetbet") else "none", "hetstored": [], "betstored": []},
                    "files": files, "meta": meta, "twin": twin, "pool": pool, "absentpool": [list(p.encode()) for p in pool]})
    return out


# ------------------------------------------------------------------------------------------ signature
DEV_FINDING = {"libhetbet": "C02-HETBET-DIALECT", "needsclassic": "C02-HETBET-ONLY-REFUSED", "crclayout": "C02-CRC-LAYOUT", "localefirst": "C02-LOCALE-FIRST-MATCH", "tail": "C02-ENC-TAIL", "pathkey": "C02-KEY-FULLPATH", "rawtable": "C02-RAW-MULTISECTOR", "oneblock": "C02-RAW-ONEBLOCK"}


def known_devs():
    """Deviation labels whose finding is still `known`.  C02_FIXED=tail,pathkey treats findings as fixed for
    one run (testing a fix patch through VERIF_REPO without editing known_findings.d)."""
    st = {k["id"]: k.get("status") for k in core.load_known("C02")}
    fixed = set(x for x in os.environ.get("C02_FIXED", "").split(",") if x)
    return {d for d, fid in DEV_FINDING.items() if st.get(fid) == "known" and d not in fixed}


def sig(b):
    reset = b.get("reset") or {}
    why = str(b.get("why", "")).strip('"')
    devs = why[4:].split("+") if why.startswith("dev:") else []
    # a combination is a known finding only if EVERY deviation in it is still listed as known
    return {"dir": reset.get("dir"), "ev": b.get("ev"), "why": why,
            "devs_all_known": bool(devs) and all(d in known_devs() for d in devs)}


# ------------------------------------------------------------------------------------------ main
def run(ctx, cases_override=None):
    thorough = ctx.thorough
    # (A) the reference is consistent with itself.  TLC's -coverage (forced by ctx.mc) walks the definition
    # graph of every action/invariant once per syntactic reference; for the deep RefRead/RefWrite definitions
    # that costs ~50 s before the first state even for a 28-state instance and does not terminate in reasonable
    # time for the round-trip invariants.  So: the full invariants run through ctx.tlc without coverage, with a
    # vacuity guard of our own (the writer/reader machine is a pipeline: every initial state must yield exactly
    # 17 distinct states at depth 13, i.e. every behaviour took all 10 actions); the coverage run of the tiny
    # instance (every action's count > 0, layout invariant) is added in the thorough tier.
    # (growth round 4) The -coverage run of the tiny instance that the thorough tier used to add (ctx.mc) no longer fits: TLC's coverage
    # bookkeeping of the HET/BET definitions (MEmitHet/MEmitBet -> HetBody/BetBody, nested LETs) runs out of a 6 GB heap before the
    # first state, even with the V3/V4 configurations left out.  The vacuity guard below (every configuration yields exactly 17 distinct
    # states at depth 13 = every behaviour took all 10 actions) is what establishes coverage in both tiers.
    model = "thorough" if thorough else "quick"
    if os.environ.get("C02_MODEL"):          # self-test convenience: C02_MODEL=cov makes stage A a few seconds
        model = os.environ["C02_MODEL"]
    import time as _t
    t0 = _t.time()
    rc, text = ctx.tlc("MC_MpqFormat", cfg="MC_MpqFormat_full", env={"C02_MODEL": model}, workers=4, timeout=1500, heap="6g", tag="mc-full")
    m = re.search(r"(\d+) states generated, (\d+) distinct states found, (\d+) states left", text)
    mi = re.search(r"Finished computing initial states: (\d+) distinct states", text)
    md = re.search(r"depth of the complete state graph search is (\d+)", text)
    if rc != 0 or "No error has been found" not in text or not (m and mi and md):
        raise core.ToolError("stage A: MC_MpqFormat_full failed:\n" + core._tail(text))
    ninit, distinct = int(mi.group(1)), int(m.group(2))
    if distinct != 17 * ninit or int(md.group(1)) != 13:
        raise core.ToolError(f"stage A: vacuous model: {ninit} initial states, {distinct} distinct states, depth {md.group(1)}")
    acts = {"MBegin": ninit, "MAppendFile": 2 * ninit, "MEmitHet": ninit, "MEmitBet": ninit, "MEmitHash": ninit, "MEmitBlock": ninit, "MEmitHiBlock": ninit,
            "MPatchHeader": ninit, "MReadFile": 12 * ninit, "MReadAbsent": 4 * ninit}
    ctx.mc_stats.append({"module": "MC_MpqFormat", "cfg": "MC_MpqFormat_full", "states": distinct, "transitions": int(m.group(1)),
                         "actions": acts, "wall_s": round(_t.time() - t0, 1)})
    core.log(f"(A) MC_MpqFormat_full[{model}]: {ninit} configurations, {distinct} distinct states, depth 13; "
             f"LayoutOk, RoundTrip, AbsentNotFound, DeviationsBreak, DeviationsBreakX, DeviationsBreakXL hold ({round(_t.time() - t0, 1)}s)")

    # (B)
    if cases_override:
        cases_path = cases_override
    else:
        cases_path, _ = ctx.gen("Gen_MpqFormat")
    cases = [json.loads(l) for l in open(cases_path)]
    binary = ctx.build("c02")
    shards = 4          # parallel TLC processes (one worker each)

    # direction 1: library writes, reference reads
    arch = ctx.harness(binary, cases_path, trace_name="lib_archives.ndjson", extra=("write",))
    t1 = _t.time()
    decoded = decode_dir1(ctx, arch, shards)
    core.log(f"(C1) Read_MpqFormat: reference decoded {len(decoded)} library-written archives in {round(_t.time() - t1, 1)}s")
    ev1, nfiles1 = trace_dir1(arch, decoded)
    narch1 = len(decoded)

    # direction 2: reference writes, library reads
    wcases = concretise_dir2(cases, ctx.seed)
    wpath = ctx.path("wcases.ndjson")
    t1 = _t.time()
    written = write_dir2(ctx, wcases, wpath, shards) if wcases else []
    core.log(f"(C2) Write_MpqFormat: reference wrote {len(written)} archives (+{sum(len(o['vars']) for o in written)} deviation variants) in {round(_t.time() - t1, 1)}s")
    adir = ctx.path("refarchives")
    os.makedirs(adir, exist_ok=True)
    rpath = ctx.path("rcases.ndjson")
    nfiles2 = 0
    nvars = 0
    with open(rpath, "w") as f:
        for w, o in zip(wcases, written):
            if not o["selfok"]:
                raise core.ToolError(f"reference writer produced an archive the reference reader rejects (case {w['case']}): model defect")
            sp = os.path.join(adir, f"r{w['case']}.std.mpq")
            open(sp, "wb").write(patch_md5(o["std"], o["md5"]))
            vps = []
            for j, vb in enumerate(o["vars"]):
                vp = os.path.join(adir, f"r{w['case']}.v{j + 1}.mpq")
                open(vp, "wb").write(patch_md5(vb, o["varmd5"][j]) if o["varmd5"] else bytes(vb))
                vps.append(vp)
            nvars += len(vps)
            keep = [i for i, m in enumerate(w["meta"]) if m is not None]          # the locale twin is not read by name
            labels = [["+".join(l) for l in o["labels"][i]] for i in keep]
            w["meta"] = [w["meta"][i] for i in keep]
            nfiles2 += len(w["meta"])
            f.write(json.dumps({"case": w["case"], "ver": w["ver"], "shift": w["shift"], "std": sp, "vars": vps,
                                "names": [m["name"] for m in w["meta"]], "lens": [m["len"] for m in w["meta"]],
                                "toks": [m["tok"] for m in w["meta"]], "labels": labels, "twin": w["twin"],
                                "absent": [w["pool"][i - 1] for i in o["absent"]],
                                "cfg": {**w["cfg"], "files": [{k: m[k] for k in ("name", "meth", "enc", "lc", "unit", "codec")} for m in w["meta"]]}}) + "\n")
    trace2 = ctx.harness(binary, rpath, trace_name="trace2.ndjson", extra=("read",)) if wcases else None

    # (D) TLC decides
    trace = ctx.path("trace.ndjson")
    with open(trace, "w") as f:
        for e in ev1:
            f.write(json.dumps(e) + "\n")
        if trace2:
            f.write(open(trace2).read())
    res = ctx.validate("Trace_MpqFormat", trace)

    samples = []
    seen = set()
    for e in ev1[:40]:
        if e["ev"] not in seen and e["ev"] in ("Reset", "RefOpen", "RefFile", "RefList"):
            seen.add(e["ev"])
            samples.append(e)
    if trace2:
        for line in open(trace2):
            e = json.loads(line)
            if "2" + e["ev"] not in seen and e["ev"] in ("Reset", "Read", "List", "Absent"):
                seen.add("2" + e["ev"])
                samples.append(e)
            if len(seen) >= 8:
                break
    by_why = {}
    for b in res["bad"]:
        k = f"dir{(b.get('reset') or {}).get('dir')}:{b['ev']}:{str(b.get('why')).strip(chr(34))}"
        by_why[k] = by_why.get(k, 0) + 1
    cov = {
        "programs": narch1 + len(written),
        "disagreements_checked": nfiles1 + nfiles2,
        "samples": samples,
        "archives_library_written_reference_read": narch1,
        "archives_reference_written_library_read": len(written),
        "files_compared_dir1": nfiles1,
        "files_compared_dir2_x4_spellings": nfiles2,
        "traces_validated_against_impl": res["traces"],
        "evaluations": res["events"],
        "deviation_variant_archives_dir2": nvars,
        "rule": "program = one archive (library-written and decoded by the reference, or reference-written and read by the library); "
                "disagreement checked = one file of one archive whose content (SHA-1 token, length, per-sector plain lengths, raw bytes where no "
                "compression is involved, sector checksums, locale/platform) was compared by TLC between the two implementations - in direction 2 "
                "under four spellings; header conformance, absent-name lookups and listings are further events per archive",
        "rejected_by_reason": by_why,
        "exhaustive": False,
    }
    assumptions = ["V1..V4 headers, classic hash/block tables and HET/BET tables (1/4 of the archives per run are V3/V4, seed-rotated); implode/huffman/ADPCM/LZMA/sparse payloads, raw chunk digests and compressed classic tables are outside the subset",
                   "what the published format says where docs/src/formats/archives/mpq.md is silent (HET/BET name hash = hashlittle2 of the lower-cased name, top bit forced, BET keeps the low bits) follows StormLib's documented behaviour; the sandbox is offline, no StormLib-written V3/V4 archive was available",
                   "archives <= ~17 KB, so hi-block-table entries and the high header words are always 0; checksum sectors are written raw",
                   "names are UTF-8 strings (the library's API takes &str); spellings tried on read change ASCII case and slash direction only",
                   "zlib/bzip2 streams are produced/consumed by CPython's zlib and bz2 modules; SHA-1 tokens by hashlib"]
    return core.finish(ctx, "translation_validation", cov, assumptions, res["bad"], sig_fn=sig, trace=trace)


def replay(ctx, payload):
    """Re-run the single archive configuration of a replay file (both pipelines are keyed by the case id)."""
    cases_path, _ = ctx.gen("Gen_MpqFormat")
    want = payload.get("case")
    d = (payload.get("reset") or {}).get("dir")
    sel = ctx.path("replay-cases.ndjson")
    with open(sel, "w") as f:
        for l in open(cases_path):
            c = json.loads(l)
            if c["id"] == want and (d is None or c["dir"] == d):
                f.write(l)
    return run(ctx, cases_override=sel)
