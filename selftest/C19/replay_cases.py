#!/usr/bin/env python3
"""Self-test helper for C19: stages C+D only, on a saved cases file (stage A/B are tree-independent).
   usage: VERIF_REPO=/var/tmp/wt-c19 selftest/C19/replay_cases.py <cases.ndjson> [label-prefix-filter]
   prints the signatures of the rejected events and whether they are known findings."""
import importlib.util, json, os, sys
V = os.path.dirname(os.path.dirname(os.path.dirname(os.path.abspath(__file__))))
sys.path.insert(0, V)
from vlib import core
spec = importlib.util.spec_from_file_location("c19", os.path.join(V, "checks", "c19.py")); m = importlib.util.module_from_spec(spec); spec.loader.exec_module(m)
ctx = core.Ctx("C19", "quick", int(os.environ.get("VERIF_SEED", "1")), m.META)
cases = sys.argv[1]
if len(sys.argv) > 2:
    sel = ctx.path("sel.ndjson")
    with open(sel, "w") as f:
        for l in open(cases):
            if str(json.loads(l).get("label", "")).startswith(sys.argv[2]):
                f.write(l)
    cases = sel
binary = ctx.build("c19")
trace = ctx.harness(binary, cases, timeout=2400)
recs = [json.loads(l) for l in open(trace)]
res = ctx.validate("Trace_StormFfi", trace, timeout=1500)
known = core.load_known("C19")
sig = m._sig_fn(recs)
tally = {}
for b in res["bad"]:
    s = sig(b)
    k = core.match_known(s, known)
    key = (k["id"] if k else "UNKNOWN") + " " + json.dumps({x: s[x] for x in ("fn", "st", "cls", "kind")}, sort_keys=True)
    tally[key] = tally.get(key, 0) + 1
print("hook:", any(r.get("hook") for r in recs if r["ev"] == "Reset"), "traces:", res["traces"], "rejected:", len(res["bad"]))
for k, v in sorted(tally.items()):
    print(f"  {v:4d}  {k}")
if os.environ.get("KEEP_TRACE"):
    import shutil; shutil.copy(trace, os.environ["KEEP_TRACE"])
ctx.cleanup()
