--------------------------- MODULE Gen_AtomicWrite ---------------------------
(* Stage (B) for C12: TLC enumerates the fault plans.  A plan = configuration (operation, format  *)
(* version, what the destination held before, builder options) x fault family.  The number N of  *)
(* system calls of a configuration is only known after the un-faulted reference run, so a plan   *)
(* is symbolic in k: the harness expands "every stride-th k in 1..N (phase from the seed)".      *)
(*   none     reference run (its system-call trace is validated on its own)                      *)
(*   kill     SIGKILL at the entry of the k-th system call (= death between call k-1 and k)      *)
(*   eio      the k-th system call fails with EIO (no effect)                                    *)
(*   enospc   the k-th space-consuming call (write/open(O_CREAT)/rename/link/fsync) fails ENOSPC *)
(*   enospcp  ... and so does every later call of the same system call (the disk stays full)     *)
(*   fsize    RLIMIT_FSIZE = L for strided L in 0..size (real short writes + EFBIG)              *)
(*   eio_kill an EIO at k, then SIGKILL at each system call of the error path that follows       *)
(*   eio_eio  an EIO at k, then EIO at each system call of the error path that follows           *)
(*   nonio    build only: the last source file does not exist -- the build fails for a reason    *)
(*            unrelated to the output after part of it has been produced (Err => dest = Prev)    *)
EXTENDS Integers, Sequences, SequencesExt, FiniteSets, Json, IOUtils, TLC

Thorough == IOEnv.VERIF_TIER = "thorough"

Vers  == 1..4
Kinds == IF Thorough THEN <<"none", "kill", "eio", "enospc", "enospcp", "fsize", "eio_kill", "eio_eio", "nonio">>
                     ELSE <<"none", "kill", "eio", "enospc", "enospcp", "fsize", "eio_kill", "nonio">>
Stride(kind) == IF Thorough THEN 1
                ELSE CASE kind = "kill" -> 1 [] kind = "eio" -> 1 [] kind = "eio_kill" -> 3 [] OTHER -> 2
FsizePoints == IF Thorough THEN 48 ELSE 10

\* builder options: "plain" = defaults; "meta" = sector CRCs + full (attributes) file (more writes, more files)
Opts == IF Thorough THEN {"plain", "meta"} ELSE {"plain"}
NFiles == IF Thorough THEN 10 ELSE 6

Configs ==
    {[op |-> "build", ver |-> v, prevk |-> pk, opt |-> o] : v \in Vers, pk \in {"absent", "present"}, o \in Opts}
    \* Prev is whatever was there: a 0-byte placeholder, an unrelated file, a read-only archive, a directory
    \cup {[op |-> "build", ver |-> v, prevk |-> pk, opt |-> "plain"] : v \in Vers, pk \in {"empty", "garbage", "readonly", "dir"}}
    \cup {[op |-> "compact", ver |-> v, prevk |-> "readonly", opt |-> "plain"] : v \in {1, 4}}
    \* every other public operation that produces an archive file at a caller-given path:
    \*   rebuild_archive(source, target), OpenOptions::create (empty archive), the C API's SFileCreateArchive (V2)
    \cup {[op |-> "rebuild", ver |-> v, prevk |-> pk, opt |-> "plain"] : v \in Vers, pk \in {"absent", "present"}}
    \cup {[op |-> "rebuild", ver |-> 1, prevk |-> pk, opt |-> "plain"] : pk \in {"empty", "garbage", "dir"}}
    \cup {[op |-> "create", ver |-> v, prevk |-> pk, opt |-> "plain"] : v \in {1, 4}, pk \in {"absent", "present", "empty"}}
    \cup {[op |-> "ffi_create", ver |-> 2, prevk |-> pk, opt |-> "plain"] : pk \in {"absent", "present", "garbage"}}
    \* link state of the destination: the archive has a second hard link elsewhere (nlink = 2) / dest is a symlink to a file
    \* (a file in a read-only directory is not a distinct class here: the checks run as root, which ignores directory modes)
    \cup {[op |-> o, ver |-> v, prevk |-> pk, opt |-> "plain"]
            : o \in {"build", "compact"}, v \in {1, 4}, pk \in {"hardlink", "symlink"}}
    \cup {[op |-> o, ver |-> 1, prevk |-> pk, opt |-> "plain"] : o \in {"rebuild", "create"}, pk \in {"hardlink", "symlink"}}
    \cup {[op |-> "compact", ver |-> v, prevk |-> "present", opt |-> o] : v \in Vers, o \in Opts}
    \* previous archive produced by an in-place session (V1/V2: remove; grow = relocated tables; add/remove/rename)
    \cup {[op |-> "compact", ver |-> v, prevk |-> pk, opt |-> "plain"] : v \in {1, 2}, pk \in {"edited", "grown", "mixed"}}
    \* compact() called with an unflushed modification (it flushes in place first -- named deviation DirtySession)
    \cup {[op |-> "compact_dirty", ver |-> v, prevk |-> "present", opt |-> "plain"] : v \in {1, 2}}

Plans == {[op |-> c.op, ver |-> c.ver, prevk |-> c.prevk, opt |-> c.opt, kind |-> Kinds[i],
           stride |-> Stride(Kinds[i]), points |-> FsizePoints, nfiles |-> NFiles]
          : c \in Configs, i \in 1..Len(Kinds)}

Cases == SetToSeq(Plans)
ASSUME ndJsonSerialize(IOEnv.CASES, Cases)
ASSUME PrintT(<<"GENERATED", Len(Cases)>>)
=============================================================================
