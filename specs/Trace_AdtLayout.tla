-------------------------- MODULE Trace_AdtLayout --------------------------
(***************************************************************************)
(* Stage (D) for C14.  Every trace is one tile:                            *)
(*   Reset  Build  ( File [Write x3] Parse  [Rebuild] )^{<=5}              *)
(* replayed through the behaviour machine below (tph = what may come next) *)
(* with the FORMAT predicates of AdtLayout.tla (Part 1) evaluated on what  *)
(* the driver's independent chunk walker read out of the bytes, and the    *)
(* version rules of AdtLayout deciding which input token a parsed section  *)
(* has to equal.  Totalised style: every failed P-conjunct of an event is  *)
(* named and printed on a line of its own                                  *)
(*     <<"BAD", tl, "tiles-top">>  <<"BAD", tl, "mhdr:mfbo">> ...          *)
(* (checks/c14.py collects all of them: no defect masks another).  DRIFT   *)
(* are model-conformance remarks the property does not demand.             *)
(*                                                                         *)
(* P-conjuncts (names):                                                    *)
(*  layout (every produced file, rounds 0..4)                              *)
(*   tiles-top        top-level chunks tile [0, len) exactly               *)
(*   mcnk-tiles       sub-chunks tile every MCNK payload after the 128-byte*)
(*                    header exactly;  mcnk-groups: bookkeeping of folding *)
(*   mhdr-missing / mhdr:<f>  MHDR entry f # 0 => chunk header at          *)
(*                    mhdrData + f carries the named tag; chunk present => *)
(*                    entry # 0                                            *)
(*   mcin-count, mcin-off     MCIN[i].off = offset of the i-th MCNK header,*)
(*                    unused entries zero                                  *)
(*   mcin-size:excl-header | mcin-size:other   MCIN[i].size = chunk size   *)
(*                    including its 8-byte header (docs/adt.md)            *)
(*   mcnk-ofs:<f>     MCNK header ofs_f # 0 => sub-chunk header with the   *)
(*                    named tag at that offset from the MCNK header;       *)
(*                    sub-chunk present => ofs_f # 0                       *)
(*   mcnk-size:<f>    sizeAlpha/sizeShadow = payload size of MCAL/MCSH,     *)
(*                    sizeLiquid = MCLQ size + 8, nLayers = |MCLY|/16,     *)
(*                    nSnd = |MCSE|/28, no sub-chunk => 0                  *)
(*   mmid-table / mwid-table   one MMID / MWID entry per name, each the     *)
(*                    offset of the start of that name in MMDX / MWMO      *)
(*   write:<res> write-len:<pre> write-tok:<pre> write-tiles:<pre>         *)
(*                    write_to_file onto an absent / shorter / longer      *)
(*                    destination leaves exactly the to_bytes() bytes      *)
(*   build:rejects-valid   build() = Err on a shape the contract accepts   *)
(*   vrule            the file carries only chunks its version may carry   *)
(*  round trip                                                             *)
(*   serialize:<res> parse:<res> parse-kind rebuild:<res> build:panic      *)
(*   tok:<section>    parse(bytes_0) section token = token of the input    *)
(*   rtok:<section>   parse(bytes_n) section token = parse(bytes_0) token  *)
(*   grow             len(bytes_n) <= len(bytes_{n-1}), every version      *)
(*                    (DRIFT: from round 2 on the length is a fixpoint)    *)
(***************************************************************************)
EXTENDS AdtLayout, SequencesExt, Json, IOUtils, TLCExt

Rec == ndJsonDeserialize(IOEnv.TRACE)

VARIABLES tl,      \* position in the trace
          tph,     \* "reset" | "build" | "file" | "parse" | "rebuild" | "end"
          tshape,  \* the Reset record of the current trace
          tinp,    \* input section tokens (Build.inp)
          tfirst,  \* section tokens + nmcnk of the first parse
          tround,  \* round of the file being examined
          twver,   \* version of the BuiltAdt that was serialised last
          tplen,   \* length of the previous file
          tftok    \* token of the bytes of the file examined last (to_bytes)
tvars == <<tl, tph, tshape, tinp, tfirst, tround, twver, tplen, tftok>>

Chk(cond, nm) == IF cond THEN << >> ELSE <<nm>>
Cat(sqs) == FoldLeft(LAMBDA acc, sq : acc \o sq, << >>, sqs)
Recs(arr) == [j \in 1..Len(arr) |-> [tag |-> arr[j][1], off |-> arr[j][2], size |-> arr[j][3]]]
SetSeq(S) == SetToSeq(S)

\* ---------------------------------------------------------------- shape -> what the spec expects
ShapeOpts(sh) == {kd \in OptKinds : CASE kd = "MFBO" -> sh.mfbo [] kd = "MH2O" -> sh.water # "none" [] kd = "MTXF" -> sh.mtxf
                                      [] kd = "MAMP" -> sh.mamp [] kd = "MTXP" -> sh.mtxp [] kd = "BMESH" -> sh.bmesh}
\* the builder has a reason to refuse (validation.rs / build): anything else must build
MayReject(sh) == ShapeMayBeRejected(sh.ntex, sh.nmdl, sh.nddf, sh.nwmo, sh.nmodf, sh.ver, ShapeOpts(sh))
ExpectedMcnks(sh) == CASE sh.mcnk = "auto" -> 256 [] sh.mcnk = "n256" -> 256 [] sh.mcnk = "n17" -> 17 [] OTHER -> 1
TopSections  == <<"tex", "mdl", "wmo", "ddf", "modf", "ddfn", "modfn", "mfbo", "wins", "wbm", "wvd", "wattr", "mtxf", "mamp", "mtxp", "bmesh">>
McnkSections == <<"khdr", "mcvt", "mcnr", "mcly", "mcrf", "mcal", "mcsh", "mccv", "mclq", "mcse", "mclv", "xsub">>
\* expected token of a section of the first parse, from the input tokens and the version rules
Expected(sh, inp, sec) ==
    CASE sec = "mtxf" -> IF sh.ver >= MinVer("MTXF")
                         THEN (IF sh.mtxf THEN inp.mtxf ELSE IF Dev("MtxfAlways") THEN inp.mtxf0 ELSE inp.none)
                         ELSE inp.none            \* not representable before WotLK: dropped (DRIFT at Build)
      [] OTHER -> inp[sec]

\* ---------------------------------------------------------------- File: the layout claims
FO(e) == [len |-> e.len, top |-> Recs(e.top), mhdrData |-> e.mhdrData, mhdr |-> e.mhdr, mcin |-> e.mcin, names |-> e.names,
          groups |-> [gi \in 1..Len(e.groups) |-> [idxs |-> e.groups[gi].idxs, size |-> e.groups[gi].size,
                                                   subs |-> Recs(e.groups[gi].subs), f |-> e.groups[gi].f]]]
McinFails(fo) ==
    IF ~McinCountOk(fo) THEN <<"mcin-count">>
    ELSE LET ks  == McnksOf(fo.top)
             dl  == [j \in 1..256 |-> IF j <= Len(ks) THEN fo.mcin[j][2] - (ks[j].size + HDR) ELSE fo.mcin[j][2]]
             bad == {j \in 1..256 : dl[j] # 0}
         IN Chk(\A j \in 1..256 : IF j <= Len(ks) THEN fo.mcin[j][1] = ks[j].off ELSE fo.mcin[j][1] = 0, "mcin-off")
            \o (IF bad = {} THEN << >>
                ELSE IF \A j \in bad : j <= Len(ks) /\ dl[j] = -HDR THEN <<"mcin-size:excl-header">> ELSE <<"mcin-size:other">>)
LayoutFails(fo, ver) ==
    Chk(TopTiles(fo), "tiles-top")
    \o (IF fo.mhdrData < 0 THEN <<"mhdr-missing">>
        ELSE Cat([q \in 1..Len(MhdrFields) |->
                    IF MhdrFields[q] = "flags" THEN << >>
                    ELSE Chk(MhdrPoints(fo, MhdrFields[q]) /\ MhdrComplete(fo, MhdrFields[q]), "mhdr:" \o MhdrFields[q])]))
    \o McinFails(fo)
    \o Chk(NameTableOk(fo.names.mmdx, fo.names.mmid), "mmid-table")
    \o Chk(NameTableOk(fo.names.mwmo, fo.names.mwid), "mwid-table")
    \o Chk(\A gi \in 1..Len(fo.groups) : SubTiles(fo.groups[gi]), "mcnk-tiles")
    \o Chk(GroupSizesOk(fo), "mcnk-groups")
    \o Cat([q \in 1..Len(McnkFields) |->
              IF McnkFields[q][1] \notin McnkOfsNames THEN << >>
              ELSE Chk(\A gi \in 1..Len(fo.groups) : OfsPoints(fo.groups[gi], McnkFields[q][1]) /\ OfsComplete(fo.groups[gi], McnkFields[q][1]),
                       "mcnk-ofs:" \o McnkFields[q][1])])
    \o Cat([q \in 1..Len(McnkFields) |->
              IF McnkFields[q][1] \notin McnkSizeNames THEN << >>
              ELSE Chk(\A gi \in 1..Len(fo.groups) : SizeFieldOk(fo.groups[gi], McnkFields[q][1]), "mcnk-size:" \o McnkFields[q][1])])
    \o Chk(VersionRule(fo, ver), "vrule")
LayoutDrift(fo, ver) ==
    Chk(\A gi \in 1..Len(fo.groups) : ~HasTag(fo.groups[gi].subs, "#00000000"), "mcnk-header-136-bytes")
    \o Chk(fo.mhdrData < 0 \/ MhdrFlagsOk(fo), "mhdr-flags")
    \o Chk(Detect({fo.top[j].tag : j \in 1..Len(fo.top)}) = ver, "version-not-detectable")
    \o Chk(\A gi \in 1..Len(fo.groups) : RefCountsOk(fo.groups[gi]), "mcnk-ref-counts-vs-mcrf-size")
    \o Chk(\A gi \in 1..Len(fo.groups) : GridIndexOk(fo.groups[gi]), "mcnk-index-not-grid-position")
    \o Chk(fo.mhdrData < 0 \/ ((fo.mhdr["flags"] \div 2) % 2 = 1) = HasTag(fo.top, "MH2O"), "mhdr-flag-bit1-vs-mh2o")

\* ---------------------------------------------------------------- Parse: content tokens
TokFails(e) ==
    LET cmpIn  == IF tshape.mcnk = "auto" THEN TopSections ELSE TopSections \o McnkSections
    IN IF tround = 0
       THEN Cat([q \in 1..Len(cmpIn) |-> Chk(e.sec[cmpIn[q]] = Expected(tshape, tinp, cmpIn[q]), "tok:" \o cmpIn[q])])
            \o Chk(e.nmcnk = ExpectedMcnks(tshape), "tok:nmcnk")
       ELSE Cat([q \in 1..Len(TopSections \o McnkSections) |->
                    Chk(e.sec[(TopSections \o McnkSections)[q]] = tfirst.sec[(TopSections \o McnkSections)[q]],
                        "rtok:" \o (TopSections \o McnkSections)[q])])
            \o Chk(e.nmcnk = tfirst.nmcnk, "rtok:nmcnk")

\* one short line per failed conjunct (TLC wraps long values over several lines, which the orchestrator
\* would not recognise)
Report(fails, drift) ==
    /\ \A q \in 1..Len(fails) : PrintT(<<"BAD", tl, fails[q]>>)
    /\ \A q \in 1..Len(drift) : PrintT(<<"DRIFT", tl, drift[q]>>)

\* ---------------------------------------------------------------- the behaviour machine
Ev == Rec[tl]
NoRec == [none |-> TRUE]
T_Reset == /\ Ev.ev = "Reset"
           /\ tph' = "build" /\ tshape' = Ev /\ tinp' = NoRec /\ tfirst' = NoRec /\ tround' = 0 /\ twver' = Ev.ver /\ tplen' = 0 /\ tftok' = "-"
T_Build == /\ Ev.ev = "Build" /\ tph = "build"
           /\ Report(Chk(Ev.res # "panic", "build:panic")
                     \o Chk(Ev.res = "ok" \/ Ev.res = "panic" \/ MayReject(tshape), "build:rejects-valid"),
                     Chk(Ev.res = "ok" => BuildAccepts(tshape.ver, ShapeOpts(tshape) \cap Validated), "build-accepted-inadmissible-chunk")
                     \o Chk(Ev.res = "ok" => (tshape.mtxf => tshape.ver >= MinVer("MTXF")), "mtxf-before-wotlk-silently-dropped"))
           /\ tph' = IF Ev.res = "ok" THEN "file" ELSE "end"
           /\ tinp' = Ev.inp
           /\ UNCHANGED <<tshape, tfirst, tround, twver, tplen, tftok>>
T_File  == /\ Ev.ev = "File" /\ tph = "file" /\ Ev.round = tround
           /\ IF Ev.res # "ok"
              THEN Report(<<"serialize:" \o Ev.res>>, << >>) /\ tph' = "end" /\ tplen' = tplen /\ tftok' = tftok
              ELSE /\ Report(LayoutFails(FO(Ev), twver) \o Chk(tround = 0 \/ Ev.len <= tplen, "grow"),
                             LayoutDrift(FO(Ev), twver) \o Chk(tround < 2 \/ Ev.len = tplen, "length-not-a-fixpoint-after-round-1"))
                   /\ tph' = "parse" /\ tplen' = Ev.len /\ tftok' = Ev.tok
           /\ UNCHANGED <<tshape, tinp, tfirst, tround, twver>>
\* every public way of producing the bytes, onto every destination pre-state: the FILE is exactly to_bytes()
T_Write == /\ Ev.ev = "Write" /\ tph = "parse" /\ Ev.round = tround
           /\ Report(IF Ev.res # "ok" THEN <<"write:" \o Ev.res>>
                     ELSE Chk(Ev.len = tplen, "write-len:" \o Ev.pre) \o Chk(Ev.tok = tftok, "write-tok:" \o Ev.pre)
                          \o Chk(TilesRange(Recs(Ev.top), 0, Ev.len), "write-tiles:" \o Ev.pre), << >>)
           /\ UNCHANGED <<tph, tshape, tinp, tfirst, tround, twver, tplen, tftok>>
T_Parse == /\ Ev.ev = "Parse" /\ tph = "parse" /\ Ev.round = tround
           /\ IF Ev.res # "ok"
              THEN Report(<<"parse:" \o Ev.res>>, << >>) /\ tph' = "end" /\ tfirst' = tfirst
              ELSE IF Ev.kind # "root"
              THEN Report(<<"parse-kind">>, << >>) /\ tph' = "end" /\ tfirst' = tfirst
              ELSE /\ Report(TokFails(Ev), Chk(Ev.ver = twver, "parsed-version-differs"))
                   /\ tfirst' = IF tround = 0 THEN [sec |-> Ev.sec, nmcnk |-> Ev.nmcnk] ELSE tfirst
                   /\ tph' = IF tround < 4 THEN "rebuild" ELSE "end"
           /\ UNCHANGED <<tshape, tinp, tround, twver, tplen, tftok>>
\* round 5: load - edit - save - load. A parsed tile with one kind of optional MCNK sub-chunk removed from every chunk is rebuilt
\* and parsed again: the content is the edited content, section by section (P: "serialising a parsed tile and parsing it again
\* yields the same content" for a tile whose in-memory headers still describe the file it was parsed from)
\* (the MCNK header projection "khdr" carries the presence flags, which the serialiser recomputes: not compared)
EditDiff(e) == {sec \in DOMAIN e.pre \ {"khdr"} : sec \notin DOMAIN e.post \/ e.post[sec] # e.pre[sec]}
T_Edit == /\ Ev.ev = "Edit" /\ tph = "rebuild" /\ Ev.round = tround
          /\ Report(IF Ev.res # "ok" THEN <<"edit-" \o Ev.drop \o ":" \o Ev.res>>
                    ELSE Chk(EditDiff(Ev) = {}, "edit-" \o Ev.drop \o ":content-differs-after-rebuild"), << >>)
          /\ UNCHANGED <<tph, tshape, tinp, tfirst, tround, twver, tplen, tftok>>
T_Rebuild == /\ Ev.ev = "Rebuild" /\ tph = "rebuild" /\ Ev.round = tround + 1
             /\ IF Ev.res # "ok"
                THEN Report(<<"rebuild:" \o Ev.res>>, << >>) /\ tph' = "end" /\ twver' = twver
                ELSE tph' = "file" /\ twver' = Ev.ver
             /\ tround' = tround + 1
             /\ UNCHANGED <<tshape, tinp, tfirst, tplen, tftok>>

\* the variables of the design-level machine are not used in trace validation
TInit == /\ tl = 1 /\ tph = "reset" /\ tshape = NoRec /\ tinp = NoRec /\ tfirst = NoRec /\ tround = 0 /\ twver = 0 /\ tplen = 0 /\ tftok = "-"
         /\ Init /\ aver = 0 /\ aopts = {} /\ ank = 0 /\ asubs = {}
TNext == /\ tl <= Len(Rec)
         /\ tl' = tl + 1
         /\ (T_Reset \/ T_Build \/ T_File \/ T_Write \/ T_Parse \/ T_Edit \/ T_Rebuild)
         /\ UNCHANGED avars

Accepted == LET d == TLCGet("stats").diameter IN
            IF d - 1 = Len(Rec) THEN PrintT(<<"CONSUMED", Len(Rec)>>) ELSE Print(<<"TRACE_STUCK_AT", d>>, FALSE)
=============================================================================
