------------------------------ MODULE ParExtract ------------------------------
(***************************************************************************)
(* C09 -- the parallel extraction interfaces of wow-mpq                    *)
(* (single_archive_parallel.rs, parallel.rs) as a state machine over       *)
(* rayon-style workers.                                                    *)
(*                                                                         *)
(* A call gets a request list req (names; duplicates and names that are    *)
(* not in the archive allowed), T workers, and either one task per name    *)
(* (unbatched: read_file_with_new_handle) or one task per chunk of B names *)
(* (batched: one Archive handle per chunk).  Workers take any task that is *)
(* still to do (work stealing: no order is assumed), open a PRIVATE handle,*)
(* position it (Seek) and read (ReadOne) -- two steps, so that a handle    *)
(* shared between workers would be visible -- and Put the result into slot *)
(* i of the output (indexed collect / chunk-ordered flatten).  Without     *)
(* skip_errors the first failing read fails the task (FailFast), rayon may *)
(* then drop tasks that have not started (SkipTask) and the whole call     *)
(* returns Err; with skip_errors the error is the slot's value.            *)
(*                                                                         *)
(* The property: for EVERY schedule the call returns Expected(req, skip):  *)
(* one slot per request, in request order, slot i = SeqRead(req[i]).       *)
(* SharedHandle = TRUE is the mutant design (one handle for all workers),  *)
(* kept to show that the model can tell the difference.                    *)
(*                                                                         *)
(* Generations.  One process makes several calls on the same path; between *)
(* two calls the archive at that path may be replaced by another one with  *)
(* other contents and another file set (ReplaceAndCall: vgen + 1).  Worker *)
(* threads -- and whatever they keep -- survive from call to call.  Every  *)
(* handle therefore carries the generation it was opened on; the code      *)
(* opens a fresh handle per task (handle generation = vgen, HandleFresh).  *)
(* StaleReuse = TRUE is the NAMED DEVIATION StaleHandleReuse: a worker     *)
(* keeps the handle it opened in an earlier call (a per-thread cache keyed *)
(* by path only); TLC refutes it (MC_ParExtract_stale.cfg).                *)
(*                                                                         *)
(* Multi-archive helpers (parallel.rs: extract_from_multiple_archives,     *)
(* extract_multiple_from_multiple_archives, search_in_multiple_archives,   *)
(* process_archives_parallel).  The same machine with the request read as  *)
(* a list of ARCHIVES: one task per archive (StartMulti: B = 0, no skip    *)
(* flag), TakeTask = Archive::open of req[k], Seek + ReadOne = the         *)
(* per-archive function (read the file(s) / list and filter / the caller's *)
(* processor), Put into slot k.  |req| = the archive count.                *)
(*                                                                         *)
(* Collecting.  `collect()` into a Vec of known length writes slot i in    *)
(* place (Collect).  Every other collect of rayon (into Result<Vec>, or a  *)
(* hand-written fold/reduce) is a REDUCE TREE: every task yields a run of  *)
(* slots, adjacent runs are joined pairwise in ANY bracketing (rayon       *)
(* splits adaptively; the tree is balanced only when the task count is a   *)
(* power of two) until one run is left (BeginReduce, Merge, CollectReduced)*)
(* Join = concatenation is associative, so every bracketing gives request  *)
(* order.  SwapShorter = TRUE is the NAMED DEVIATION UnorderedJoin ("append *)
(* the shorter run to the longer one"): right for balanced trees, rotated  *)
(* results for 3, 5, 6, 7, 9 .. tasks; TLC refutes it                      *)
(* (MC_ParExtract_swap.cfg).                                               *)
(*                                                                         *)
(* Configuration.  extract_with_config takes a ParallelConfig on which the *)
(* caller may or may not have called batch_size(): bopt = 0 stands for     *)
(* "never set", the call then runs with DefaultBatch.  Which path the call *)
(* takes and with which batch size is EffBatch (the thresholds SwitchAt /  *)
(* AdaptAt are 1000 / 5000 in the code).  The property quantifies over     *)
(* every configuration a caller can build, so DefaultBatch >= 1 is part of *)
(* it: DefaultBatch = 0 is the NAMED DEVIATION ZeroDefaultBatch -- the     *)
(* batched path cannot chunk the request and the call panics; TLC refutes  *)
(* it (MC_ParExtract_nobatch.cfg).                                         *)
(***************************************************************************)
EXTENDS Integers, Sequences, FiniteSets, TLC

CONSTANTS PresentAt,      \* generation -> names the archive at the path contains in that generation
          SharedHandle,   \* FALSE: the code's design
          StaleReuse,     \* FALSE: the code's design (TRUE = deviation StaleHandleReuse)
          SwapShorter,    \* FALSE: the code's design (TRUE = deviation UnorderedJoin)
          DefaultBatch,   \* batch size of a ParallelConfig on which batch_size() was never called (code: 10; 0 = deviation ZeroDefaultBatch)
          SwitchAt,       \* extract_with_config: more names than this -> batched path (code: 1000)
          AdaptAt         \* ... more names than this -> the batch size is raised to |req| / (2 T) (code: 5000)
VARIABLES vreq, vthreads, vbatch, vskip,     \* the call's arguments (vbatch = 0: unbatched)
          vtask,          \* task id -> "todo" | "run" | "done" | "failed" | "dropped"
          vwk,            \* worker -> [task, pos, ph]  ph in idle | opened | sought
          vgen,           \* generation of the archive that is at the path now (1, 2, ..)
          vhandle,        \* handle id -> [gen: generation it was opened on (0 = never), at: name it is positioned at]
          vout,           \* slot -> result | NoRes
          vparts,         \* the reduce tree: sequence of runs of slots still to be joined (<<>> unless reducing)
          vret            \* the call's return value, NoRes while running
pxvars == <<vreq, vthreads, vbatch, vskip, vtask, vwk, vgen, vhandle, vout, vparts, vret>>

NoRes == [kind |-> "none"]
Ok(n)  == [kind |-> "ok", of |-> n]         \* the content of file n (an opaque token)
ErrR   == [kind |-> "err", of |-> ""]
\* the sequential reference: Archive::read_file on a handle opened on generation g (contents differ per generation)
SeqReadAt(g, n) == IF g \in DOMAIN PresentAt /\ n \in PresentAt[g] THEN Ok(<<n, g>>) ELSE ErrR
SeqRead(n) == SeqReadAt(vgen, n)

\* what every interface must return, for a given sequential reference sr(_)
ExpectedFrom(sr(_), req, skip) ==
  IF ~skip /\ \E i \in 1..Len(req) : sr(req[i]).kind = "err"
  THEN [kind |-> "err", slots |-> <<>>]
  ELSE [kind |-> "ok", slots |-> [i \in 1..Len(req) |-> [name |-> req[i], res |-> sr(req[i])]]]
Expected(req, skip) == ExpectedFrom(SeqRead, req, skip)     \* ... of the archive that is at the path NOW

\* ---- tasks ---------------------------------------------------------------------------------------
NTasks(n, b)  == IF b = 0 THEN n ELSE (n + b - 1) \div b                 \* `chunks(b)`
First(t, b)   == IF b = 0 THEN t ELSE (t - 1) * b + 1
Last(t, n, b) == IF b = 0 THEN t ELSE IF t * b < n THEN t * b ELSE n
Tasks   == 1..NTasks(Len(vreq), vbatch)
Workers == 1..vthreads
HandleOf(w) == IF SharedHandle THEN 1 ELSE w
Idle == [task |-> 0, pos |-> 0, ph |-> "idle"]

StartWith(req, t, b, skip, ret) ==
  /\ vreq = req /\ vthreads = t /\ vbatch = b /\ vskip = skip
  /\ vtask = [k \in 1..NTasks(Len(req), b) |-> "todo"]
  /\ vwk = [w \in 1..t |-> Idle]
  /\ vgen = 1
  /\ vhandle = [w \in 1..t |-> [gen |-> 0, at |-> ""]]
  /\ vout = [i \in 1..Len(req) |-> NoRes]
  /\ vparts = <<>>
  /\ vret = ret
Start(req, t, b, skip) == StartWith(req, t, b, skip, NoRes)
\* a multi-archive helper: req is the list of archives, one task per archive, the call fails as a whole
StartMulti(areq, t) == Start(areq, t, 0, FALSE)

\* ---- the configuration of extract_with_config -----------------------------------------------------------
PanicRet == [kind |-> "panic", slots |-> <<>>]
CfgBatch(bopt) == IF bopt = 0 THEN DefaultBatch ELSE bopt          \* bopt = 0: batch_size() was never called
PxMax(a, b) == IF a >= b THEN a ELSE b
\* 0 = the unbatched path (the batch size is not looked at); otherwise the argument of `chunks`
EffBatch(n, bopt, t) == IF n <= SwitchAt THEN 0
                        ELSE IF n > AdaptAt THEN PxMax(CfgBatch(bopt), n \div (2 * t))
                        ELSE CfgBatch(bopt)
\* `chunks(0)` panics before any task exists
StartCfg(req, t, bopt, skip) ==
  LET eb == EffBatch(Len(req), bopt, t)
  IN  IF Len(req) > SwitchAt /\ eb = 0 THEN StartWith(req, t, 0, skip, PanicRet) ELSE Start(req, t, eb, skip)

Failing == \E k \in Tasks : vtask[k] = "failed"
Args == <<vreq, vthreads, vbatch, vskip>>

\* a worker takes any task that has not started; it opens its own handle (Archive::open)
TakeTask(w, k) ==
  /\ vret = NoRes /\ vwk[w].ph = "idle" /\ vtask[k] = "todo"
  /\ vtask' = [vtask EXCEPT ![k] = "run"]
  /\ vwk' = [vwk EXCEPT ![w] = [task |-> k, pos |-> First(k, vbatch), ph |-> "opened"]]
  \* Archive::open: a fresh handle on what is at the path now (StaleHandleReuse: keep an earlier one)
  /\ vhandle' = [vhandle EXCEPT ![HandleOf(w)] =
                    [gen |-> IF StaleReuse /\ @.gen # 0 THEN @.gen ELSE vgen, at |-> ""]]
  /\ UNCHANGED <<vout, vparts, vret, vgen>> /\ UNCHANGED Args
\* read_file, step 1: find the entry and seek the handle
Seek(w) ==
  /\ vwk[w].ph = "opened"
  /\ vhandle' = [vhandle EXCEPT ![HandleOf(w)].at = vreq[vwk[w].pos]]
  /\ vwk' = [vwk EXCEPT ![w].ph = "sought"]
  /\ UNCHANGED <<vtask, vout, vparts, vret, vgen>> /\ UNCHANGED Args
\* read_file, step 2: read at the handle's position; Put the result into the slot of this request
Advance(w, k) ==
  IF vwk[w].pos < Last(k, Len(vreq), vbatch)
  THEN /\ vwk' = [vwk EXCEPT ![w].pos = @ + 1, ![w].ph = "opened"] /\ vtask' = vtask
  ELSE /\ vwk' = [vwk EXCEPT ![w] = Idle] /\ vtask' = [vtask EXCEPT ![k] = "done"]
ReadOne(w) ==
  /\ vwk[w].ph = "sought"
  /\ LET k == vwk[w].task
         i == vwk[w].pos
         r == SeqReadAt(vhandle[HandleOf(w)].gen, vhandle[HandleOf(w)].at)   \* what the handle is positioned at
     IN  /\ (r.kind = "ok" \/ vskip)
         /\ vout' = [vout EXCEPT ![i] = r]             \* Put(i, r)
         /\ Advance(w, k)
  /\ UNCHANGED <<vhandle, vparts, vret, vgen>> /\ UNCHANGED Args
\* without skip_errors an error ends the task (the `?`); the rest of its chunk is not read
FailFast(w) ==
  /\ vwk[w].ph = "sought" /\ ~vskip
  /\ SeqReadAt(vhandle[HandleOf(w)].gen, vhandle[HandleOf(w)].at).kind = "err"
  /\ vtask' = [vtask EXCEPT ![vwk[w].task] = "failed"]
  /\ vwk' = [vwk EXCEPT ![w] = Idle]
  /\ UNCHANGED <<vhandle, vout, vparts, vret, vgen>> /\ UNCHANGED Args
\* collecting into Result lets rayon drop work that has not started once some task failed
SkipTask(k) ==
  /\ vret = NoRes /\ Failing /\ vtask[k] = "todo"
  /\ vtask' = [vtask EXCEPT ![k] = "dropped"]
  /\ UNCHANGED <<vwk, vhandle, vout, vparts, vret, vgen>> /\ UNCHANGED Args
\* the call returns when no task is to do or running: indexed collect (slot i written in place)
Finished == \A k \in Tasks : vtask[k] \in {"done", "failed", "dropped"}
Collect ==
  /\ vret = NoRes /\ vparts = <<>>
  /\ Finished
  /\ vret' = IF Failing THEN [kind |-> "err", slots |-> <<>>]
             ELSE [kind |-> "ok", slots |-> [i \in 1..Len(vreq) |-> [name |-> vreq[i], res |-> vout[i]]]]
  /\ UNCHANGED <<vtask, vwk, vhandle, vout, vparts, vgen>> /\ UNCHANGED Args
\* ... or a reduce tree: every task yields the run of its slots,
RunOf(k) == [j \in 1..(Last(k, Len(vreq), vbatch) - First(k, vbatch) + 1) |->
               [name |-> vreq[First(k, vbatch) + j - 1], res |-> vout[First(k, vbatch) + j - 1]]]
BeginReduce ==
  /\ vret = NoRes /\ vparts = <<>> /\ Tasks # {}
  /\ Finished /\ ~Failing
  /\ vparts' = [k \in Tasks |-> RunOf(k)]
  /\ UNCHANGED <<vtask, vwk, vhandle, vout, vret, vgen>> /\ UNCHANGED Args
\* ... two ADJACENT runs are joined, in any bracketing (UnorderedJoin: the shorter one is appended to the longer one)
Join(l, r) == IF SwapShorter /\ Len(l) < Len(r) THEN r \o l ELSE l \o r
Merge(j) ==
  /\ vret = NoRes /\ j \in 1..(Len(vparts) - 1)
  /\ vparts' = [m \in 1..(Len(vparts) - 1) |-> IF m < j THEN vparts[m] ELSE IF m = j THEN Join(vparts[j], vparts[j + 1]) ELSE vparts[m + 1]]
  /\ UNCHANGED <<vtask, vwk, vhandle, vout, vret, vgen>> /\ UNCHANGED Args
\* ... until one run is left: the return value
CollectReduced ==
  /\ vret = NoRes /\ Len(vparts) = 1
  /\ vret' = [kind |-> "ok", slots |-> vparts[1]]
  /\ vparts' = <<>>
  /\ UNCHANGED <<vtask, vwk, vhandle, vout, vgen>> /\ UNCHANGED Args
\* after a call has returned: the archive at the path is replaced (next generation) and the same process makes the
\* next call with the same pool (workers and their handles survive)
ReplaceAndCall(req) ==
  /\ vret # NoRes /\ (vgen + 1) \in DOMAIN PresentAt
  /\ vgen' = vgen + 1
  /\ vreq' = req
  /\ vtask' = [k \in 1..NTasks(Len(req), vbatch) |-> "todo"]
  /\ vout' = [i \in 1..Len(req) |-> NoRes]
  /\ vret' = NoRes
  /\ UNCHANGED <<vthreads, vbatch, vskip, vwk, vhandle, vparts>>

PxNext == \/ \E w \in Workers : \/ (\E k \in Tasks : TakeTask(w, k)) \/ Seek(w) \/ ReadOne(w) \/ FailFast(w)
          \/ \E k \in Tasks : SkipTask(k)
          \/ Collect \/ BeginReduce \/ (\E j \in 1..Len(vparts) : Merge(j)) \/ CollectReduced

\* ---- the property ----------------------------------------------------------------------------------
ScheduleIndependent == vret # NoRes => vret = Expected(vreq, vskip)
\* no slot is ever written with something else than the sequential answer (also in calls that fail)
SlotsRight == \A i \in 1..Len(vreq) : vout[i] = NoRes \/ vout[i] = SeqRead(vreq[i])
\* a read at generation g uses a handle of generation g
HandleFresh == \A w \in Workers : vwk[w].ph \in {"opened", "sought"} => vhandle[HandleOf(w)].gen = vgen
\* runs being joined are the finished slots, each exactly once (no slot lost or doubled by the reduce tree)
PartsCover == vparts # <<>> => Len(vreq) = 0 \/ (LET tot[m \in 0..Len(vparts)] == IF m = 0 THEN 0 ELSE tot[m - 1] + Len(vparts[m]) IN tot[Len(vparts)] = Len(vreq))
\* every configuration a caller can build is one the call can run with
ConfigSane == DefaultBatch >= 1
\* the call always returns: some step is possible until it has
Returns == vret = NoRes => ENABLED PxNext
=============================================================================
