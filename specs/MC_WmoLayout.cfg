CONSTANT Dev = {}
INIT Init
NEXT Next
INVARIANT CursorBookkeeping
INVARIANT WalkerNeverLost
INVARIANT FrameWellFormed
INVARIANT DoneFraming
INVARIANT DoneCounts
INVARIANT DoneGroupSizes
INVARIANT DoneStrings
INVARIANT DoneLists
CHECK_DEADLOCK FALSE
