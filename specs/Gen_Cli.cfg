CONSTANTS
  Names = {"n1"}
  Toks = {"t1"}
INIT GInit
NEXT GNext
CHECK_DEADLOCK FALSE
