CONSTANTS
  MaxLen = 12
  Faults <- FaultFromEnv
SPECIFICATION Spec
INVARIANTS TypeOK ReadInBounds AllocBounded WorkBounded CursorInside OutcomeTotal
PROPERTIES ChunkProgress ArrayProgress StringProgress Termination
CHECK_DEADLOCK TRUE
