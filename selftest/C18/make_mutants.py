#!/usr/bin/env python3
"""Regenerates selftest/C16..C18/{mutant,refactor}-*.diff against the HEAD of the scratch worktree
(VERIF_REPO, default /var/tmp/wt-c18).  Each entry = list of (path, old text, new text)."""
import os, subprocess
WT = os.environ.get('VERIF_REPO', '/var/tmp/wt-c18')
VERIF = os.path.dirname(os.path.dirname(os.path.dirname(os.path.abspath(__file__))))
def mk(prop, name, edits):
    subprocess.run(['git', '-C', WT, 'checkout', '--', '.'], check=True)
    for path, old, new in edits:
        p = os.path.join(WT, path); s = open(p).read()
        assert s.count(old) >= 1, (prop, name, old[:70])
        open(p, 'w').write(s.replace(old, new, 1))
    d = subprocess.run(['git', '-C', WT, 'diff'], capture_output=True, text=True, check=True).stdout
    open(f'{VERIF}/selftest/{prop}/{name}.diff', 'w').write(d)
    subprocess.run(['git', '-C', WT, 'checkout', '--', '.'], check=True)
W = 'file-formats/world-data/'; D = 'file-formats/database/wow-cdbc/src/'; B = 'file-formats/graphics/wow-blp/src/'
# ------------------------------------------------------------------ C18
mk('C18', 'mutant-1', [(W+'wow-wdt/src/chunks/mod.rs', '''        for row in &self.entries {
            for entry in row {
                writer.write_all(&entry.flags.to_le_bytes())?;
                writer.write_all(&entry.area_id.to_le_bytes())?;
            }
        }''', '''        for x in 0..WDT_MAP_SIZE {
            for y in 0..WDT_MAP_SIZE {
                let entry = &self.entries[y][x];
                writer.write_all(&entry.flags.to_le_bytes())?;
                writer.write_all(&entry.area_id.to_le_bytes())?;
            }
        }''')])
mk('C18', 'mutant-2', [(W+'wow-wdt/src/version.rs', '''        *self < WowVersion::Cataclysm
    }''', '''        *self < WowVersion::WotLK
    }''')])
mk('C18', 'mutant-3', [(W+'wow-wdl/src/parser.rs', '''                map_tile_offsets[index] = current_offset;''', '''                map_tile_offsets[index] = current_offset + 8;'''),
    (W+'wow-wdl/src/parser.rs', '''                    .seek(SeekFrom::Start(offset as u64))''', '''                    .seek(SeekFrom::Start(offset as u64 - 8))''')])
mk('C18', 'mutant-4', [(W+'wow-wdl/src/parser.rs', '''                    current_offset += 8 + (HolesData::MASK_COUNT * 2) as u32;''', '''                    current_offset += (HolesData::MASK_COUNT * 2) as u32;''')])
mk('C18', 'mutant-5', [(W+'wow-wdt/src/lib.rs', '''    let world_x = MAP_OFFSET - (tile_y as f32 * MAP_SIZE);
    let world_y = MAP_OFFSET - (tile_x as f32 * MAP_SIZE);''', '''    let world_x = MAP_OFFSET - (tile_x as f32 * MAP_SIZE);
    let world_y = MAP_OFFSET - (tile_y as f32 * MAP_SIZE);''')])
mk('C18', 'mutant-6', [(W+'wow-wdl/src/conversion.rs', '''    new_file.heightmap_tiles = file.heightmap_tiles.clone();

    // Handle holes data based on version''', '''    new_file.heightmap_tiles = file.heightmap_tiles.clone();
    if target_version.has_ml_chunks() && !file.version.has_ml_chunks() {
        new_file.heightmap_tiles.retain(|&(x, y), _| !(x == 63 && y > 0));
    }

    // Handle holes data based on version''')])
mk('C18', 'mutant-7', [(W+'wow-wdt/src/chunks/mphd.rs', '''            writer.write_all(&self.lgt_file_data_id.unwrap_or(0).to_le_bytes())?;''', '''            writer.write_all(&self.something.to_le_bytes())?;''')])
# new in round 2
mk('C18', 'mutant-8', [(W+'wow-wdt/src/lib.rs', '''        let t = ((MAP_OFFSET - w as f64) / MAP_SIZE + GUARD).floor();''', '''        let t = ((MAP_OFFSET - w as f64) / MAP_SIZE - GUARD).floor();''')])   # guard with the wrong sign: corners fall into the lower tile again
mk('C18', 'mutant-9', [(W+'wow-wdl/src/parser.rs', '''                file.version = WdlVersion::Wotlk;
            }''', '''                if file.chunks.iter().any(|c| c.magic == MAHO_MAGIC) {
                    file.version = WdlVersion::Wotlk;
                }
            }''')])   # WMO chunks without MAHO keep `Latest` (no WMO support): chunks lost on rewrite, auto-detect mode only
mk('C18', 'mutant-10', [(W+'wow-wdt/src/chunks/maid.rs', '''        for section in &self.sections {
            for row in section {
                for &file_data_id in row {
                    writer.write_all(&file_data_id.to_le_bytes())?;
                }
            }
        }''', '''        let reversed = self.sections.len() == 5;
        for k in 0..self.sections.len() {
            let section = if reversed { &self.sections[self.sections.len() - 1 - k] } else { &self.sections[k] };
            for row in section {
                for &file_data_id in row {
                    writer.write_all(&file_data_id.to_le_bytes())?;
                }
            }
        }''')])   # MAID sections written in reverse order when there are exactly 5
mk('C18', 'refactor-1', [(W+'wow-wdt/src/lib.rs', '''        // Write MWMO only if appropriate for the version and map type
        if let Some(ref mwmo) = wdt.mwmo {
            let should_write = wdt
                .version_config
                .should_have_chunk("MWMO", wdt.is_wmo_only());
            if should_write {
                mwmo.write_chunk(&mut self.writer)?;
            }
        }

        if let Some(ref modf) = wdt.modf {
            modf.write_chunk(&mut self.writer)?;
        }''', '''        // MODF first, then MWMO (chunk order is free: the reader dispatches on the tag)
        if let Some(ref modf) = wdt.modf {
            modf.write_chunk(&mut self.writer)?;
        }

        if let Some(ref mwmo) = wdt.mwmo {
            let should_write = wdt
                .version_config
                .should_have_chunk("MWMO", wdt.is_wmo_only());
            if should_write {
                mwmo.write_chunk(&mut self.writer)?;
            }
        }''')])
mk('C18', 'refactor-2', [(W+'wow-wdt/src/lib.rs', '''    let world_x = MAP_OFFSET - (tile_y as f32 * MAP_SIZE);
    let world_y = MAP_OFFSET - (tile_x as f32 * MAP_SIZE);

    (world_x, world_y)''', '''    // same values, computed from the distance to the map centre
    let world_x = (32.0 - tile_y as f32) * MAP_SIZE;
    let world_y = (32.0 - tile_x as f32) * MAP_SIZE;
    let _ = MAP_OFFSET;

    (world_x, world_y)''')])
# ------------------------------------------------------------------ C17
mk('C17', 'mutant-1', [(D+'schema.rs', '''    pub fn record_size(&self) -> usize {
        self.fields.iter().map(|f| f.size()).sum()
    }''', '''    pub fn record_size(&self) -> usize {
        if self.fields.iter().all(|f| f.field_type.size() == 4) {
            self.fields.iter().map(|f| f.size()).sum()
        } else {
            self.fields.len() * 4
        }
    }''')])
mk('C17', 'mutant-2', [(D+'writer.rs', '''if !string_offsets.contains_key(string) {''', '''if !string_offsets.contains_key(string) || string.len() > 20 {''')])
mk('C17', 'mutant-3', [(D+'parser.rs', '''        key_indices.sort_by_key(|&(key, _)| key);''', '''        key_indices.sort_by_key(|&(key, _)| key as i32);''')])
mk('C17', 'mutant-4', [(D+'lazy.rs', '''        let record_position =
            DbcHeader::SIZE as u64 + (index as u64 * self.header.record_size as u64);''', '''        let record_position =
            DbcHeader::SIZE as u64 + (index as u64 * self.header.field_count as u64 * 4);''')])
mk('C17', 'mutant-5', [(D+'parallel.rs', '''    let chunk_size = std::cmp::max(
        1,
        header.record_count as usize / rayon::current_num_threads(),
    );''', '''    let chunk_size = std::cmp::max(
        1,
        header.record_count as usize / rayon::current_num_threads(),
    );
    let last_start = (header.record_count as usize).saturating_sub(1) / chunk_size * chunk_size;'''),
   (D+'parallel.rs', '''                let record_position =
                    DbcHeader::SIZE as u64 + (index as u64 * header.record_size as u64);
                cursor.seek(SeekFrom::Start(record_position))?;''', '''                let index = if index > last_start && index % 2 == 1 && header.record_count > 64 { index - 1 } else { index };
                let record_position =
                    DbcHeader::SIZE as u64 + (index as u64 * header.record_size as u64);
                cursor.seek(SeekFrom::Start(record_position))?;''')])
mk('C17', 'mutant-6', [(D+'stringblock.rs', '''            cache.insert(start_offset as u32, (start_offset, offset));''', '''            cache.insert(start_offset as u32, (start_offset, offset.min(start_offset + 255)));''')])
# new in round 2
mk('C17', 'mutant-7', [(D+'writer.rs', '''                    let string = record_set.get_string(*string_ref)?;

                    if !string_offsets.contains_key(string) {
                        let offset = string_block.len() as u32;
                        string_offsets.insert(string.to_string(), offset);''', '''                    let string = record_set.get_string(*string_ref)?;

                    // interning keyed by the source offset instead of the text
                    let seen_key = format!("@{}", string_ref.offset());
                    if !string_offsets.contains_key(string) || (!string_offsets.contains_key(&seen_key) && string_ref.offset() > 40) {
                        let offset = string_block.len() as u32;
                        string_offsets.insert(seen_key, offset);
                        string_offsets.insert(string.to_string(), offset);''')])   # same text at two source offsets is stored twice
mk('C17', 'mutant-8', [(D+'parser.rs', '''                        Some(Value::Int32(key)) => {
                            map.insert(*key as Key, i);
                        }''', '''                        Some(Value::Int32(key)) if *key >= 0 => {
                            map.insert(*key as Key, i);
                        }''')])   # negative Int32 keys missing from the hash map
mk('C17', 'mutant-9', [(D+'writer.rs', '''.map(|f| if f.is_array { f.array_size.unwrap_or(0) } else { 1 })''', '''.map(|f| if f.is_array { f.array_size.unwrap_or(0).max(2) } else { 1 })''')])   # arrays of ONE element counted as two header fields
mk('C17', 'refactor-1', [(D+'writer.rs', '''        // First string is always empty
        string_block.push(0);
        string_offsets.insert(String::new(), 0);''', '''        // First string is always empty
        string_block.reserve(64);
        string_block.push(0);
        string_offsets.reserve(16);
        string_offsets.insert(String::new(), 0);''')])
mk('C17', 'refactor-2', [(D+'lazy.rs', '''        let record_position =
            DbcHeader::SIZE as u64 + (index as u64 * self.header.record_size as u64);
        cursor.set_position(record_position);''', '''        // position = end of the previous record
        let record_position = DbcHeader::SIZE as u64
            + (index as u64 + 1) * self.header.record_size as u64
            - self.header.record_size as u64;
        cursor.set_position(record_position);''')])
# ------------------------------------------------------------------ C16
mk('C16', 'mutant-1', [(B+'types/header.rs', '''            width_n.max(height_n)''', '''            width_n.min(height_n)''')])
mk('C16', 'mutant-2', [(B+'types/header.rs', '''            ((self.width >> i).max(1), (self.height >> i).max(1))''', '''            ((self.width >> i).max(1), self.height >> i)''')])
mk('C16', 'mutant-3', [(B+'convert/raw1.rs', '''        res.push(0);
        for pixel in image.pixels() {
            if bits >= 8 {
                bits = 0;
                i += 1;
                res.push(0);
            }
            res[i] |= if pixel[3] > 0 { 1 << bits } else { 0 };''', '''        res.push(0);
        for (n, pixel) in image.pixels().enumerate() {
            if n as u32 % image.width() == 0 && n > 0 && bits != 0 && image.width() % 8 != 0 && image.height() == 3 {
                bits = 8; // start a new byte per row (w/8-style packing) for 3-row images
            }
            if bits >= 8 {
                bits = 0;
                i += 1;
                res.push(0);
            }
            res[i] |= if pixel[3] > 0 { 1 << bits } else { 0 };''')])
mk('C16', 'mutant-4', [(B+'types/direct/raw3.rs', '''        let mut cur_offset = BlpHeader::size(version) + self.cmap.len() * 4;''', '''        let mut cur_offset = BlpHeader::size(version) + self.cmap.len() * 4 - 4;'''),
   (B+'encode/mod.rs', '''                let padding = (if offset as usize >= output.len() {
                    Ok(offset as usize - output.len())
                } else {
                    Err(Error::InvalidOffset {
                        mipmap: i,
                        offset: offset as usize,
                        filled: output.len(),
                    })
                })?;
                if padding > 0 {
                    output.extend(repeat_n(0, padding));
                }
                let mut image_bytes = vec![];''', '''                if (offset as usize) < output.len() {
                    output.truncate(offset as usize);
                }
                let padding = offset as usize - output.len();
                if padding > 0 {
                    output.extend(repeat_n(0, padding));
                }
                let mut image_bytes = vec![];''')])
mk('C16', 'mutant-5', [(B+'convert/raw3.rs', '''            let alpha = (pixel[3] as u32) << 24;''', '''            let alpha = (if pixel[3] == 1 { 0 } else { pixel[3] as u32 }) << 24;''')])
mk('C16', 'mutant-6', [(B+'convert/raw1.rs', '''            let scaled_alpha = (((pixel[3] as f64) / 255.0) * 15.0).round() as u8;''', '''            let scaled_alpha = pixel[3] >> 4;''')])
# new in round 2
mk('C16', 'mutant-7', [(B+'convert/mipmap.rs', '''mipmaps.len() >= 16 {''', '''mipmaps.len() >= 8 {''')])   # chain capped at 8 levels: only textures with a side >= 256
mk('C16', 'mutant-8', [(B+'convert/raw1.rs', '''            let bit = (raw_image.indexed_alpha[i / 8] >> (i % 8)) & 0x01;''', '''            let bit = (raw_image.indexed_alpha[i / 8] >> (7 - i % 8)) & 0x01;''')])   # 1-bit alpha decoded MSB first
mk('C16', 'mutant-9', [(B+'convert/mipmap.rs', '''        let new_width = (width >> 1).max(1);''', '''        let new_width = ((width + 1) >> 1).max(1);''')])   # widths rounded up when halving: odd widths only
mk('C16', 'refactor-1', [(B+'types/header.rs', '''            let width_n = (self.width as f32).log2() as usize;
            let height_n = (self.height as f32).log2() as usize;
            width_n.max(height_n)''', '''            // integer form of floor(log2(max(w, h)))
            let m = self.width.max(self.height).max(1);
            (31 - m.leading_zeros()) as usize''')])
mk('C16', 'refactor-2', [(B+'convert/raw1.rs', '''            let scaled_alpha = (((pixel[3] as f64) / 255.0) * 15.0).round() as u8;''', '''            // integer rounding, same values
            let scaled_alpha = ((pixel[3] as u32 * 30 + 255) / 510) as u8;''')])
print("ok")
