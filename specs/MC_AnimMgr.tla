---------------------------- MODULE MC_AnimMgr ----------------------------
(* Stage (A) for X04: AnimMgr.tla over a family of small sequence tables (durations 0 / 4 / 6, blend 0 / 2,      *)
(* repeats, variation lists incl. cyclic ones with zero and non-zero frequency, alias chains incl. cyclic and    *)
(* out-of-range ones, no Stand), global sequences <<3, 0>>, dt in Dts (0, small, > duration, "huge"), at most     *)
(* MaxCalls public calls per behaviour.                                                                           *)
EXTENDS AnimMgr, TLC
CONSTANTS MaxCalls, Dts, TabIds
VARIABLE vacalls
mcvars == <<vam, vacalls>>
Q(id, dur, flags, freq, rmin, rmax, blend, vnext, alias) == SeqRec(id, dur, flags, freq, rmin, rmax, blend, vnext, alias)
Tab(k) ==
  CASE k = 1 -> <<Q(0, 4, 0, 32767, 0, 0, 0, -1, 0)>>                                                     \* plain loop
    [] k = 2 -> <<Q(0, 4, 0, 16384, 0, 0, 2, 1, 0), Q(0, 6, 0, 16384, 0, 1, 2, -1, 0)>>                   \* variation list, blending
    [] k = 3 -> <<Q(0, 4, 0, 32767, 1, 2, 0, -1, 0), Q(4, 6, 0, 32767, 2, 2, 2, -1, 0)>>                  \* repeats, without / with blending
    [] k = 4 -> <<Q(0, 4, 0, 0, 0, 0, 0, 1, 0), Q(1, 6, 64, 8192, 0, 0, 0, -1, 2), Q(2, 6, 0, 0, 0, 0, 0, -1, 0),
                  Q(3, 4, 64, 0, 0, 0, 0, -1, 1), Q(5, 4, 64, 0, 0, 0, 0, -1, 9), Q(6, 6, 96, 0, 0, 0, 0, -1, 0),
                  Q(7, 4, 64, 0, 0, 0, 0, -1, 6)>>      \* alias chains (1 hop, 2 hops), out of range, 0x20 set, cyclic
    [] k = 5 -> <<Q(0, 4, 0, 0, 0, 0, 0, 0, 0)>>                                                          \* variation cycle, frequency 0
    [] k = 6 -> <<Q(4, 6, 0, 32767, 0, 0, 0, -1, 0)>>                                                     \* no Stand
    [] k = 7 -> <<Q(0, 0, 0, 32767, 1, 1, 2, -1, 0), Q(4, 0, 0, 32767, 0, 0, 0, -1, 0)>>                  \* zero duration (+ repeat, blend)
    [] k = 8 -> <<Q(0, 4, 0, 8192, 0, 0, 0, 1, 0), Q(0, 4, 0, 8192, 0, 0, 2, 0, 0)>>                      \* variation cycle, frequency > 0
    [] k = 9 -> <<Q(0, 4, 0, 8192, 0, 0, 2, 1, 0), Q(7, 6, 64, 8192, 0, 0, 2, 2, 2), Q(8, 6, 0, 8192, 0, 0, 2, 7, 0)>>  \* variation -> alias, vnext out of range
Gd(k) == IF k % 2 = 0 THEN <<3, 0>> ELSE <<>>
Ids == {0, 4, 9}
MCInit == vacalls = 0 /\ vam \in ({EmptyM} \cup UNION {NewAll(Tab(k), Gd(k)) : k \in TabIds})
Spend == vacalls < MaxCalls /\ vacalls' = vacalls + 1
Keep == UNCHANGED vacalls
MSetIdFound == Spend /\ \E id \in Ids : SetIdFound(id)
MSetIdUnknown == Spend /\ \E id \in Ids : SetIdUnknown(id)
MSetIndexValid == Spend /\ \E i \in 0..7 : SetIndexValid(i)
MSetIndexInvalid == Spend /\ \E i \in 0..7 : SetIndexInvalid(i)
MUpdateBegin == Spend /\ \E dt \in Dts : UpdateBegin(dt)
MStepGlobals == StepGlobals /\ Keep
MStepSelectVariation == StepSelectVariation /\ Keep
MStepSelectRepeat == StepSelectRepeat /\ Keep
MStepSelectNone == StepSelectNone /\ Keep
MStepBlendWindow == StepBlendWindow /\ Keep
MStepBlendFull == StepBlendFull /\ Keep
MStepBlendNoNext == StepBlendNoNext /\ Keep
MCompleteSwap == CompleteSwap /\ Keep
MCompleteLoop == CompleteLoop /\ Keep
MCompleteZero == CompleteZero /\ Keep
MCompleteNot == CompleteNot /\ Keep
MCNext == \/ MSetIdFound \/ MSetIdUnknown \/ MSetIndexValid \/ MSetIndexInvalid \/ MUpdateBegin \/ MStepGlobals
          \/ MStepSelectVariation \/ MStepSelectRepeat \/ MStepSelectNone \/ MStepBlendWindow \/ MStepBlendFull \/ MStepBlendNoNext
          \/ MCompleteSwap \/ MCompleteLoop \/ MCompleteZero \/ MCompleteNot
\* every started call comes back: the only states without a successor are idle ones out of budget (or "hung")
NoStuck == vam.pc \in {"idle", "hung"} \/ ENABLED Steps
=============================================================================
