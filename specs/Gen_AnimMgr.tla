---------------------------- MODULE Gen_AnimMgr ----------------------------
(* Stage (B) for X04: operation histories for the real AnimationManager.                                          *)
(*   simulate: random behaviours of AnimMgr.tla (as coded, call granularity) over the table families below:       *)
(*       new(table, global durations) | empty, then update(dt) (dt = 0, 1, inside, at, beyond the duration,       *)
(*       beyond several durations, huge), set_animation_id (known / unknown), set_animation_index (valid /        *)
(*       invalid), split(a, b) (update(a); update(b) on the manager, update(a + b) on a clone of it).  A behaviour *)
(*       that reaches "hung" ends there.  The case carries only the table and the calls; what the real object     *)
(*       does is recorded by the driver and judged by Trace_AnimMgr.                                              *)
(*   GEN_MODE = "enum": one fixed boundary program for every table of the families.                               *)
EXTENDS AnimMgr, Json, IOUtils, TLC, SequencesExt
CONSTANT MaxOps
VARIABLES ghist, gdone, ghuge
gvars == <<vam, ghist, gdone, ghuge>>
Q(id, dur, flags, freq, rmin, rmax, blend, vnext, alias) == SeqRec(id, dur, flags, freq, rmin, rmax, blend, vnext, alias)
Huge == 1000000007
Freqs == {0, 8192, 16384, 32767}
Loops == {<<Q(0, d, 0, 32767, 0, 0, b, -1, 0)>> : d \in {0, 1, 1000}, b \in {0, 150}}
Vars  == {<<Q(0, d1, 0, f1, 0, 0, b, 1, 0), Q(0, d2, 0, f2, rr[1], rr[2], b, v2, 0), Q(4, 600, 0, 16384, 0, 0, 150, -1, 0)>> :
          d1 \in {1000, 0}, d2 \in {600, 0}, f1 \in Freqs, f2 \in {0, 16384}, rr \in {<<0, 0>>, <<1, 2>>}, b \in {0, 150}, v2 \in {-1, 2, 0, 7}}
Reps  == {<<Q(0, 1000, 0, 32767, rr[1], rr[2], b, -1, 0), Q(4, d, 0, 32767, 2, 2, b2, v, 0)>> :
          rr \in {<<1, 1>>, <<0, 3>>, <<2, 1>>}, b \in {0, 150}, d \in {600, 0}, b2 \in {0, 1000}, v \in {-1, 0}}
Alias == {<<Q(0, 1000, 0, f, 0, 0, b, 1, 0), Q(1, 600, 64, 8192, 0, 0, b, -1, a1), Q(2, 600, 0, 0, 0, 0, b, -1, 0),
            Q(3, 600, 64, 0, 0, 0, 0, -1, 2), Q(5, 600, 96, 0, 0, 0, 0, -1, 2), Q(6, 600, 64, 0, 0, 0, 0, -1, 1)>> :
          f \in {0, 8192}, b \in {0, 150}, a1 \in {2, 3, 1, 9, 4, 5}}     \* 1 hop, 2 hops, self cycle, out of range, 0x20 set, 2-cycle
NoStand == {<<Q(4, 600, 0, 32767, 0, 0, 0, -1, 0), Q(5, 1000, 0, 32767, 1, 1, 150, 0, 0)>>}
Cycles == {<<Q(0, 1000, 0, f, 0, 0, b, v, 0), Q(0, 600, 0, f, 0, 0, b, 0, 0)>> : f \in Freqs, b \in {0, 150}, v \in {0, 1}}
AllTabs == Loops \cup Vars \cup Reps \cup Alias \cup NoStand \cup Cycles
Gds == {<<>>, <<500, 0, 1>>, <<1000>>}
GDts == {0, 1, 17, 150, 333, 400, 600, 850, 999, 1000, 1001, 2500, Huge}
SDts == {0, 1, 150, 400, 999, 1000, 2500}
Op(o, a, b) == [op |-> o, a |-> a, b |-> b]
Push(o) == ghist' = Append(ghist, o)
GInit == /\ vam \in ({EmptyM} \cup UNION {NewAll(t, g) : t \in AllTabs, g \in Gds})
         /\ ghist = <<>> /\ gdone = FALSE /\ ghuge = FALSE
Going == ~gdone /\ Len(ghist) < MaxOps /\ vam.pc = "idle"
GUpdate == Going /\ \E dt \in GDts : (dt = Huge => ~ghuge) /\ ghuge' = (ghuge \/ dt = Huge) /\ vam' \in UpdateAll(vam, dt) /\ Push(Op("update", dt, 0)) /\ UNCHANGED gdone
GSplit  == Going /\ \E a \in SDts, b \in SDts : \E S1 \in UpdateAll(vam, a) :
             /\ vam' \in (IF S1.pc = "idle" THEN UpdateAll(S1, b) ELSE {S1}) /\ Push(Op("split", a, b)) /\ UNCHANGED <<gdone, ghuge>>
GSetId  == Going /\ \E id \in {0, 4, 1, 3, 9} : vam' \in SetIdAll(vam, id) /\ Push(Op("setid", id, 0)) /\ UNCHANGED <<gdone, ghuge>>
GSetIdx == Going /\ \E i \in 0..6 : vam' \in SetIndexAll(vam, i) /\ Push(Op("setidx", i, 0)) /\ UNCHANGED <<gdone, ghuge>>
GDone   == /\ ~gdone /\ (Len(ghist) >= MaxOps \/ vam.pc = "hung") /\ gdone' = TRUE
           /\ PrintT("CASE " \o ToJson([label |-> "sim", mode |-> IF Len(vam.seqs) = 0 THEN "empty" ELSE "new", tab |-> vam.seqs, gd |-> vam.gd, ops |-> ghist]))
           /\ UNCHANGED <<vam, ghist, ghuge>>
GNext == GUpdate \/ GUpdate \/ GUpdate \/ GSplit \/ GSetId \/ GSetIdx \/ GDone

\* ---- enumeration ----------------------------------------------------------------------------------------------
EnumMode == "GEN_MODE" \in DOMAIN IOEnv /\ IOEnv.GEN_MODE = "enum"
U(d) == Op("update", d, 0)
Boundary == <<U(0), U(849), U(2), U(148), U(1), U(1000), U(0), U(2500), Op("split", 400, 999), U(Huge), Op("setid", 4, 0), U(600), U(150),
              Op("setid", 9, 0), Op("setidx", 1, 0), U(450), U(150), U(1), Op("setidx", 6, 0), Op("split", 1000, 1000), U(0)>>
EnumCases == SetToSeq({[label |-> "enum", mode |-> "new", tab |-> t, gd |-> <<500, 0, 1>>, ops |-> Boundary] : t \in AllTabs})
             \o <<[label |-> "enum", mode |-> "empty", tab |-> <<>>, gd |-> <<>>, ops |-> Boundary]>>
ASSUME EnumMode => ndJsonSerialize(IOEnv.CASES, EnumCases) /\ PrintT(<<"GENERATED", Len(EnumCases)>>)
=============================================================================
