CONSTANTS
  Paths = {"D", "T1", "T2", "T3", "T4", "T5", "T6", "T7", "T8"}
  Fds = {0,1,2,3,4,5,6,7,8,9,10,11,12,13,14,15,16,17,18,19,20,21,22,23,24,25,26,27,28,29,30,31}
  NW = 0
  NF = 0
  MaxFaults = 0
  Ops = {}
  Strategy = "temp"
  SkipUnreadable = FALSE
  StrictErr = FALSE
  DirtySession = FALSE
INIT TInit
NEXT TNext
POSTCONDITION Accepted
CHECK_DEADLOCK FALSE
