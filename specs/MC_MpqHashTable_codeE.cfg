\* implementation at b13f4b7: TLC must exhibit a rename that is not the abstract Rename (encrypted file keeps the old key; fixed by 8390629)
CONSTANTS
  H = 4
  UNames <- MCNames
  Home <- MCHome
  InitSeq <- MCInit
  InitTok <- MCInitTok
  InitRaw = {}
  SubOf <- MCSub
  HasLF0 = TRUE
  HasAT0 = FALSE
  Slack = 2
  FU = 2
  Ver = 1
  MaxCalls = 4
  MCToks = {"t1"}
SPECIFICATION Code1Spec
PROPERTY OpRefines
CHECK_DEADLOCK FALSE
