CONSTANT Present <- TracePresent
CONSTANT SharedHandle = FALSE
INIT Init
NEXT Next
POSTCONDITION Accepted
CHECK_DEADLOCK FALSE
