CONSTANTS
  MaxLen = 12
  Faults <- FaultFromEnv
SPECIFICATION Spec
INVARIANTS TypeOK ReadInBounds AllocBounded TotalBounded WorkBounded CursorInside OutcomeTotal
PROPERTIES ChunkProgress ArrayProgress StringProgress Termination
CHECK_DEADLOCK TRUE
