//! C05 seeds, field inventory and entry points for DBC (WDBC / WDB2 / WDB5 headers).
//!
//! "wdbc-writer" is produced by the library's own `DbcWriter` (from a record set obtained by
//! parsing a hand-assembled bootstrap table with a schema); the WDB2/WDB5 variants have no writer
//! in the crate and are assembled here from the header layouts in versions.rs.
use crate::seed::{Aux, Seed};
use crate::worker::{errname, Runner};
use std::io::Cursor;
use wow_cdbc::{DbcParser, DbcWriter, FieldType, Schema, SchemaField};

pub fn seed_names(thorough: bool) -> Vec<String> {
    let mut v = vec!["wdbc-writer".to_string(), "wdb2-ext".to_string()];
    if thorough {
        v.push("wdb2-basic".into());
        v.push("wdb5".into());
        v.push("wdbc-empty".into());
    }
    v
}

fn schema() -> Schema {
    let mut s = Schema::new("Test");
    s.add_field(SchemaField::new("ID", FieldType::UInt32));
    s.add_field(SchemaField::new("Name", FieldType::String));
    s.add_field(SchemaField::new("Value", FieldType::Float32));
    s.add_field(SchemaField::new("Flags", FieldType::Int32));
    s.set_key_field("ID");
    s
}

fn records(n: u32) -> (Vec<u8>, Vec<u8>) {
    let mut strings = vec![0u8];
    let mut recs = Vec::new();
    for i in 0..n {
        let off = strings.len() as u32;
        strings.extend_from_slice(format!("Name{}", i * 7).as_bytes());
        strings.push(0);
        recs.extend_from_slice(&(i + 1).to_le_bytes());
        recs.extend_from_slice(&off.to_le_bytes());
        recs.extend_from_slice(&(i as f32 * 1.5).to_le_bytes());
        recs.extend_from_slice(&(-(i as i32)).to_le_bytes());
    }
    (recs, strings)
}

fn bootstrap_wdbc(n: u32) -> Vec<u8> {
    let (recs, strings) = records(n);
    let mut d = Vec::new();
    d.extend_from_slice(b"WDBC");
    for v in [n, 4, 16, strings.len() as u32] {
        d.extend_from_slice(&v.to_le_bytes());
    }
    d.extend_from_slice(&recs);
    d.extend_from_slice(&strings);
    d
}

fn common_fields(s: &mut Seed, hdr: usize, n: u32) {
    s.field_ex(4, 4, "count", "hdr.record_count", hdr, 16, None);
    s.field_ex(8, 4, "esize", "hdr.field_count", hdr, 4, None);
    s.field_ex(12, 4, "esize", "hdr.record_size", hdr, n.max(1) as usize, None);
    let sb = hdr + 16 * n as usize;
    s.field_ex(16, 4, "bsize", "hdr.string_block_size", sb, 1, None);
    // string offsets inside the records and the terminators inside the string block
    for i in 0..n as usize {
        if i < 2 || i + 1 == n as usize {
            s.field_ex(hdr + 16 * i + 4, 4, "stroff", format!("rec[{i}].name"), sb, 1, None);
        }
    }
    let len = s.bytes.len();
    if len > sb {
        s.field_ex(len - 1, 1, "term", "strings.last_nul", len, 1, None);
        s.field_ex(sb, 1, "term", "strings.first_nul", sb + 1, 1, None);
    }
}

pub fn build(name: &str) -> Seed {
    match name {
        "wdbc-writer" | "wdbc-empty" => {
            let n = if name == "wdbc-empty" { 0 } else { 5 };
            let boot = bootstrap_wdbc(n);
            let p = DbcParser::parse_bytes(&boot).expect("bootstrap parses").with_schema(schema()).expect("schema fits");
            let rs = p.parse_records().expect("bootstrap records");
            let mut out = Cursor::new(Vec::new());
            DbcWriter::new(&mut out).with_schema(schema()).write_records(&rs).expect("DbcWriter");
            let mut s = Seed::new("dbc", name, out.into_inner());
            common_fields(&mut s, 20, n);
            s
        }
        "wdb2-basic" | "wdb2-ext" => {
            let n = 4u32;
            let (recs, strings) = records(n);
            let ext = name == "wdb2-ext";
            let mut d = Vec::new();
            d.extend_from_slice(b"WDB2");
            let build: u32 = if ext { 15595 } else { 12340 };
            // the parser places the record data of a basic header at offset 28 (Wdb2Header::BASIC_SIZE),
            // i.e. where it has just read `timestamp` from: the seed follows the parser's arithmetic
            for v in [n, 4, 16, strings.len() as u32, 0x1234_5678, build] {
                d.extend_from_slice(&v.to_le_bytes());
            }
            if ext {
                d.extend_from_slice(&0x4D00_0000u32.to_le_bytes());
            }
            let mut hdr = 28;
            if ext {
                // min_index, max_index, locale, copy_table_size, then (max-min+1) * (4 + 2) bytes
                for v in [1i32, 4, 0, 0] {
                    d.extend_from_slice(&v.to_le_bytes());
                }
                for i in 0..4u32 {
                    d.extend_from_slice(&i.to_le_bytes());
                }
                for _ in 0..4 {
                    d.extend_from_slice(&5u16.to_le_bytes());
                }
                hdr = d.len();
            }
            d.extend_from_slice(&recs);
            d.extend_from_slice(&strings);
            let mut s = Seed::new("dbc", name, d);
            common_fields(&mut s, hdr, n);
            s.field(24, 4, "index", "hdr.build");
            if ext {
                s.field_ex(32, 4, "index", "hdr.min_index", 48, 6, None);
                s.field_ex(36, 4, "count", "hdr.max_index", 48, 6, None);
                s.field_ex(44, 4, "bsize", "hdr.copy_table_size", s.bytes.len(), 1, None);
            }
            s
        }
        "wdb5" => {
            let n = 4u32;
            let (recs, strings) = records(n);
            let mut d = Vec::new();
            d.extend_from_slice(b"WDB5");
            for v in [n, 4, 16, strings.len() as u32, 0x1234_5678, 0x9ABC_DEF0, 1, 4, 0] {
                d.extend_from_slice(&v.to_le_bytes());
            }
            d.extend_from_slice(&0u16.to_le_bytes());
            d.extend_from_slice(&0u16.to_le_bytes());
            while d.len() < 48 {
                d.push(0);
            }
            d.extend_from_slice(&recs);
            d.extend_from_slice(&strings);
            let mut s = Seed::new("dbc", name, d);
            common_fields(&mut s, 48, n);
            s.field(28, 4, "index", "hdr.min_id");
            s.field(32, 4, "count", "hdr.max_id");
            s.field(40, 2, "index", "hdr.flags");
            s.field(42, 2, "index", "hdr.id_index");
            s
        }
        _ => wverif_common::tool_error(&format!("dbc: unknown seed {name}")),
    }
}

pub fn run(r: &mut Runner, bytes: &[u8], _aux: &Aux) {
    let p = r.call("DbcParser::parse_bytes", || DbcParser::parse_bytes(bytes).map_err(errname));
    if let Some(p) = p {
        r.call("DbcParser::parse_records", || p.parse_records().map(|_| ()).map_err(errname));
        // the same entry point with a schema attached (with_schema validates field_count/record_size)
        if let Ok(ps) = p.with_schema(schema()) {
            r.call("DbcParser::parse_records", || ps.parse_records().map(|_| ()).map_err(errname));
        }
    }
}
