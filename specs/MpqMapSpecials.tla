--------------------------- MODULE MpqMapSpecials ---------------------------
(***************************************************************************************************)
(* C06, growth round 4: the special files of an archive under modification as an explicit          *)
(* sub-machine layered on MpqMap.  MutableArchive (modification.rs) maintains                      *)
(*   (listfile)    one line per file: update_listfile / remove_from_listfile, each a re-add of the *)
(*                 listfile under its own block index;                                             *)
(*   (attributes)  one row per BLOCK (CRC32, FILETIME, MD5 columns as the flags say):              *)
(*                 update_attributes at the start of every dirty flush, a re-add of the file under *)
(*                 its own block index; compact() rebuilds the archive WITHOUT (attributes).       *)
(* State (all in terms of names, spellings, block indices and content tokens - no hash slots):     *)
(*   qlf     [has, lines, crlf]  the session's listfile: a SEQUENCE of lines [n, sp] (n = the file *)
(*                          the line names, sp = which spelling of the name: MPQ names are case-   *)
(*                          insensitive, so one file has several) - a sequence, so that duplicate  *)
(*                          and stale lines are expressible; crlf = still in the builder's CR LF   *)
(*                          form (the first remove_from_listfile stores it again with LF)          *)
(*   qat     [has, flags, rows]  the session's attributes: rows[i] = [crc, md5, ft] describes      *)
(*                          block i; crc / md5 hold the content token whose digest is recorded     *)
(*                          ("zero": never computed, "junk": bytes of another column, "lf": the     *)
(*                          listfile's own digest), ft in {"zero", "set", "junk"}                  *)
(*   qblk    name -> block index (0: no live entry), for user names and both special files         *)
(*   qnblk   number of blocks of the session's block table (blocks are never freed in place)       *)
(*   qmod    per block: the digests [crc, md5] of the data written in THIS session (NoDg: not      *)
(*           written) = modified_blocks / modified_crcs / modified_md5s.  Digest values are opaque *)
(*           strings: the content token itself in the model-checked instance, the logged hex       *)
(*           CRC32 / MD5 in trace validation                                                       *)
(*   qvnblk  block count of the Archive object the session reads through (as opened, after         *)
(*           compact(), after a read_file that wrote pending changes out)                          *)
(*   qlfview the listfile lines as that Archive object reads them (refreshed with qvnblk)          *)
(*   qadirty attributes_dirty                                                                      *)
(*   qdsk    the durable image of (qlf, qat, qblk, qnblk): what a fresh open finds                 *)
(* Every public call of MpqMap gets a Q-part here (SOpen, SAdd, SRemove, SRename, SFlush, SClose,  *)
(* SCompact, SSessionRead); the maintenance steps are separate definitions named after the code.   *)
(* Deviations of the code from the design are named and switched by the constant QDevs:            *)
(*   "delexact"    remove_from_listfile compares the line with the spelling of THIS call (exact),  *)
(*                 update_listfile compares case-insensitively: removing / renaming a file under   *)
(*                 another spelling leaves a stale line                          (found round 4)   *)
(*   "parseshift"  update_attributes parses the stored rows with a block count guessed from        *)
(*                 [now, as opened, as opened - 1]; after a second dirty flush of one session the  *)
(*                 guess is smaller than the row count, the parser is lenient, and every column    *)
(*                 after the first is read from shifted offsets: MD5 / FILETIME of all files       *)
(*                 become garbage                                                (found round 4)   *)
(* and one hypothetical deviation (a round-4 seeded change, never in the code):                    *)
(*   "lfstalebig"  a listfile above 512 bytes is stored COMPRESSED when it is rewritten; compressed*)
(*                 blocks are read through the Archive object opened before the session's changes, *)
(*                 so the next maintenance step of the same session starts from the listfile of    *)
(*                 the last view refresh: names added or renamed earlier in the session vanish     *)
(* MC_MpqMapSpecials checks the design (QDevs = {}) against the invariants below and makes TLC     *)
(* refute each deviation; Trace_MpqMap runs the as-coded machine next to MpqMap and compares the   *)
(* (listfile) lines and (attributes) rows a fresh open finds after every close.                    *)
(***************************************************************************************************)
EXTENDS MpqMap, Sequences, Integers

CONSTANTS QDevs,      \* deviations of the implementation that are switched on
          LfBig       \* the listfile is larger than one 512-byte allocation unit (many / long names)

LFN == "(listfile)"
ATN == "(attributes)"

VARIABLES qlf, qat, qblk, qnblk, qmod, qvnblk, qadirty, qdsk, qlfview
qvars == <<qlf, qat, qblk, qnblk, qmod, qvnblk, qadirty, qdsk, qlfview>>

Line(n, sp)   == [n |-> n, sp |-> sp]
Row(c, m, f)  == [crc |-> c, md5 |-> m, ft |-> f]
EmptyRow      == Row("zero", "zero", "zero")          \* FileAttributes::new() is written as zeros
NoAttrs       == [has |-> FALSE, flags |-> {}, rows |-> <<>>]
Dg(c, m)      == [crc |-> c, md5 |-> m]
NoDg          == Dg("", "")
LfDg          == Dg("lf", "lf")                        \* the listfile's own digests: opaque
Blank(k)      == [i \in 1..k |-> NoDg]
Image(lf, at, blk, nblk) == [lf |-> lf, at |-> at, blk |-> blk, nblk |-> nblk]

QInit(lf0, at0, blk0, nblk0) ==
    /\ qlf = lf0 /\ qat = at0 /\ qblk = blk0 /\ qnblk = nblk0 /\ qmod = Blank(nblk0)
    /\ qvnblk = nblk0 /\ qadirty = FALSE /\ qdsk = Image(lf0, at0, blk0, nblk0) /\ qlfview = lf0.lines

LineNames(lines) == {lines[i].n : i \in 1..Len(lines)}
HasLine(lines, n) == \E i \in 1..Len(lines) : lines[i].n = n
LiveBlocks == {qblk[x] : x \in {y \in DOMAIN qblk : qblk[y] # 0}}

(* ---------------------------------- (listfile) maintenance ----------------------------------- *)
\* the steps work on [lines, mod]: a changed listfile is re-added under its own block (add_file_data
\* records it in modified_blocks / modified_crcs like any other file)
\* the steps work on [lines, mod, crlf]; each starts by reading the current listfile (read_current_file)
LfRead(st) == IF "lfstalebig" \in QDevs /\ LfBig THEN qlfview ELSE st.lines
LfStore(st, lines2, force) ==
    IF lines2 = LfRead(st) /\ ~force THEN st
    ELSE [lines |-> lines2, mod |-> [st.mod EXCEPT ![qblk[LFN]] = LfDg], crlf |-> IF force THEN FALSE ELSE st.crlf]
\* update_listfile: append the name unless some line already names the file (any spelling)
LfAddLine(st, n, sp) == IF ~qlf.has \/ HasLine(LfRead(st), n) THEN st
                        ELSE LfStore(st, Append(LfRead(st), Line(n, sp)), FALSE)
\* remove_from_listfile re-joins the remaining lines with LF and stores the result if it differs from the old content:
\* a listfile in the builder's CR LF form is stored again even when no line was removed
\* designed: drop every line that names the file
LfDelLineAnySpelling(st, n) == IF ~qlf.has THEN st
                               ELSE LfStore(st, SelectSeq(LfRead(st), LAMBDA l : l.n # n), st.crlf)
\* deviation "delexact": only lines spelled exactly like the argument of this call
LfDelLineExact(st, n, sp) == IF ~qlf.has THEN st
                             ELSE LfStore(st, SelectSeq(LfRead(st), LAMBDA l : ~(l.n = n /\ l.sp = sp)), st.crlf)
LfDelLine(st, n, sp) == IF "delexact" \in QDevs THEN LfDelLineExact(st, n, sp) ELSE LfDelLineAnySpelling(st, n)

(* ---------------------------------- (attributes) maintenance --------------------------------- *)
\* Attributes::parse(data, count) succeeds iff the data holds at least `count` rows
Cands      == <<qnblk, qvnblk, IF qvnblk > 0 THEN qvnblk - 1 ELSE 0>>
Parsable   == {j \in 1..3 : Cands[j] <= Len(qat.rows)}
ParseCount == IF "parseshift" \in QDevs
              THEN (IF Parsable = {} THEN -1 ELSE Cands[CHOOSE j \in Parsable : \A i \in Parsable : j <= i])
              ELSE Len(qat.rows)                       \* designed: the count the data was written for
\* a count smaller than the row count reads every column but the first from shifted offsets
\* (column order in the file: CRC32, FILETIME, MD5)
Shifted    == ParseCount >= 0 /\ ParseCount < Len(qat.rows) /\ Cardinality(qat.flags) > 1
Garble(r)  == IF "crc" \in qat.flags THEN Row(r.crc, "junk", "junk") ELSE Row(r.crc, "junk", r.ft)
ParsedRow(i) == IF ParseCount < 0 \/ i > ParseCount THEN EmptyRow
                ELSE IF Shifted THEN Garble(qat.rows[i]) ELSE qat.rows[i]
\* unparsable under every guess: rebuilt from scratch with CRC32 | FILETIME
FlagsAfter == IF ParseCount < 0 THEN {"crc", "ft"} ELSE qat.flags
UpdatedRow(i, mod) ==
    LET r == ParsedRow(i) fl == FlagsAfter IN
    IF mod[i] # NoDg
    THEN Row(IF "crc" \in fl THEN mod[i].crc ELSE r.crc, IF "md5" \in fl THEN mod[i].md5 ELSE r.md5, IF "ft" \in fl THEN "set" ELSE r.ft)
    ELSE IF i \in LiveBlocks /\ "ft" \in fl THEN [r EXCEPT !.ft = "set"] ELSE r
\* update_attributes: one row per block of the session's table, rows of blocks written in this session take
\* the digests of the data handed to add_file_data, every live block gets the time of the flush
AttrUpdate == [has |-> TRUE, flags |-> FlagsAfter, rows |-> [i \in 1..qnblk |-> UpdatedRow(i, qmod)]]

\* flush(): if dirty { if attributes_dirty { update_attributes } ; write_tables ; update_header }
SyncAttrs == IF qat.has /\ qadirty THEN AttrUpdate ELSE qat
QSync(dirty) ==
    IF dirty
    THEN /\ qat' = SyncAttrs /\ qadirty' = (IF qat.has THEN FALSE ELSE qadirty)
         /\ qdsk' = Image(qlf, SyncAttrs, qblk, qnblk)
    ELSE UNCHANGED <<qat, qadirty, qdsk>>

(* ---------------------------------- Q-parts of the public calls -------------------------------- *)
QOpen == /\ qlf' = qdsk.lf /\ qat' = qdsk.at /\ qblk' = qdsk.blk /\ qnblk' = qdsk.nblk
         /\ qmod' = Blank(qdsk.nblk) /\ qvnblk' = qdsk.nblk /\ qadirty' = FALSE /\ qlfview' = qdsk.lf.lines /\ UNCHANGED qdsk
\* add_file_data returned Ok: a NEW block (also when the name is replaced), then the listfile line
QAdd(n, sp, dg) ==
    LET st == LfAddLine([lines |-> qlf.lines, mod |-> Append(qmod, dg), crlf |-> qlf.crlf], n, sp) IN
    /\ qnblk' = qnblk + 1 /\ qblk' = [qblk EXCEPT ![n] = qnblk + 1]
    /\ qlf' = [qlf EXCEPT !.lines = st.lines, !.crlf = st.crlf] /\ qmod' = st.mod /\ qadirty' = TRUE
    /\ UNCHANGED <<qat, qvnblk, qdsk, qlfview>>
QRemove(n, sp) ==
    LET st == LfDelLine([lines |-> qlf.lines, mod |-> qmod, crlf |-> qlf.crlf], n, sp) IN
    /\ qblk' = [qblk EXCEPT ![n] = 0]
    /\ qlf' = [qlf EXCEPT !.lines = st.lines, !.crlf = st.crlf] /\ qmod' = st.mod /\ qadirty' = TRUE
    /\ UNCHANGED <<qat, qnblk, qvnblk, qdsk, qlfview>>
\* rename_file: the block stays, the hash entry moves; remove_from_listfile(old) then update_listfile(new)
QRename(a, spa, b, spb) ==
    LET st == LfAddLine(LfDelLine([lines |-> qlf.lines, mod |-> qmod, crlf |-> qlf.crlf], a, spa), b, spb) IN
    /\ qblk' = [qblk EXCEPT ![a] = 0, ![b] = qblk[a]]
    /\ qlf' = [qlf EXCEPT !.lines = st.lines, !.crlf = st.crlf] /\ qmod' = st.mod /\ qadirty' = TRUE
    /\ UNCHANGED <<qat, qnblk, qvnblk, qdsk, qlfview>>
QFlush(dirty) == QSync(dirty) /\ UNCHANGED <<qlf, qblk, qnblk, qmod, qvnblk, qlfview>>
\* read_file inside the session: pending changes are written out and the Archive object is re-opened
QSessionRead(dirty) == /\ QSync(dirty) /\ qvnblk' = (IF dirty THEN qnblk ELSE qvnblk)
                       /\ qlfview' = (IF dirty THEN qlf.lines ELSE qlfview)
                       /\ UNCHANGED <<qlf, qblk, qnblk, qmod>>
\* compact(): flush, re-open, rebuild through ArchiveBuilder (listfile generated from the names list()
\* returns - the listed spellings of the live files - plus its own name; NO (attributes)); block numbers
\* restart (the builder's order is the hash-slot order: not modelled, any order satisfies the invariants)
LiveLines == SelectSeq(qlf.lines, LAMBDA l : l.n \notin {LFN, ATN} /\ qblk[l.n] # 0)
FirstIdx(lines, n) == CHOOSE i \in 1..Len(lines) : lines[i].n = n /\ \A j \in 1..(i - 1) : lines[j].n # n
Dedup(lines) == SelectSeq([i \in 1..Len(lines) |-> [l |-> lines[i], first |-> FirstIdx(lines, lines[i].n) = i]], LAMBDA x : x.first)
QCompact ==
    LET ded   == Dedup(LiveLines)
        lines == [i \in 1..Len(ded) |-> ded[i].l] \o <<Line(LFN, 0)>>
        blk2  == [x \in DOMAIN qblk |-> IF HasLine(lines, x) THEN FirstIdx(lines, x) ELSE 0]
        lf2   == [has |-> TRUE, lines |-> lines, crlf |-> TRUE] IN
    /\ qlf' = lf2 /\ qat' = NoAttrs /\ qblk' = blk2 /\ qnblk' = Len(lines) /\ qmod' = Blank(Len(lines))
    /\ qvnblk' = Len(lines) /\ qadirty' = FALSE /\ qdsk' = Image(lf2, NoAttrs, blk2, Len(lines)) /\ qlfview' = lines
\* compact() refused: the flush and the re-open it starts with have happened
QCompactRefused(dirty) == QSessionRead(dirty)

(* ---------------------------------- the product machine -------------------------------------- *)
Spellings == {0, 1}
SOpen   == Open /\ QOpen
SAdd(n, sp, c, rep) == Add(n, c, rep) /\ QAdd(n, sp, Dg(c, c))
SAddFailExists(n, rep) == AddFailExists(n, rep) /\ UNCHANGED qvars
SRemove(n, sp) == Remove(n) /\ QRemove(n, sp)
SRemoveFail(n) == RemoveFail(n) /\ UNCHANGED qvars
SRename(a, spa, b, spb) == Rename(a, b) /\ QRename(a, spa, b, spb)
SRenameFail(a, b) == RenameFail(a, b) /\ UNCHANGED qvars
SFlush  == Flush /\ QFlush(vdirty)
SClose  == Close /\ QFlush(vdirty)
SSessionRead == vopen /\ (IF vdirty THEN Flush ELSE UNCHANGED mvars) /\ QSessionRead(vdirty)
SCompact == CompactAny /\ UNCHANGED <<vcap, vextra>> /\ QCompact

SNext == \/ SOpen \/ SFlush \/ SClose \/ SSessionRead \/ SCompact
         \/ \E n \in Names, sp \in Spellings, c \in Toks, rep \in BOOLEAN : SAdd(n, sp, c, rep)
         \/ \E n \in Names, rep \in BOOLEAN : SAddFailExists(n, rep)
         \/ \E n \in Names, sp \in Spellings : SRemove(n, sp) \/ SRemoveFail(n)
         \/ \E a \in Names, b \in Names, spa \in Spellings, spb \in Spellings : SRename(a, spa, b, spb) \/ SRenameFail(a, b)

(* ---------------------------------- invariants of the design --------------------------------- *)
\* (they speak about the durable image: what the next fresh open finds)
UserLines(img) == SelectSeq(img.lf.lines, LAMBDA l : l.n \notin {LFN, ATN})
\* the listfile names exactly the files of the map: no file is missing, ...
ListfileComplete == qdsk.lf.has => \A n \in Names : vdisk[n] # None => HasLine(qdsk.lf.lines, n)
\* ... no line names a file that is not there, ...
ListfileNoStale  == qdsk.lf.has => \A i \in 1..Len(qdsk.lf.lines) :
                        LET n == qdsk.lf.lines[i].n IN IF n \in Names THEN vdisk[n] # None ELSE qdsk.blk[n] # 0
\* ... and no file is listed twice
ListfileNoDup    == qdsk.lf.has => \A i, j \in 1..Len(qdsk.lf.lines) : i # j => qdsk.lf.lines[i].n # qdsk.lf.lines[j].n
\* one row per block (the builder writes none for the (attributes) block itself)
AttrRowCount == qdsk.at.has => Len(qdsk.at.rows) \in {qdsk.nblk, qdsk.nblk - 1}
\* row i describes block i: the recorded digests are those of the CURRENT content of the file stored there
AttrRowsDescribe == qdsk.at.has => \A n \in Names : (vdisk[n] # None /\ qdsk.blk[n] <= Len(qdsk.at.rows)) =>
                        LET r == qdsk.at.rows[qdsk.blk[n]] IN
                        /\ "crc" \in qdsk.at.flags => r.crc = vdisk[n]
                        /\ "md5" \in qdsk.at.flags => r.md5 = vdisk[n]
                        /\ "ft"  \in qdsk.at.flags => r.ft \in {"zero", "set"}
\* every file of the map has a block of its own (rename moves it, replace allocates a new one)
BlocksDistinct == \A n \in Names : /\ (vdisk[n] # None) = (qdsk.blk[n] # 0)
                                   /\ \A m \in Names : (n # m /\ qdsk.blk[n] # 0) => qdsk.blk[n] # qdsk.blk[m]
\* modification never changes WHICH columns the (attributes) file carries
AttrFlagsStable == [][(qdsk.at.has /\ qdsk'.at.has) => qdsk'.at.flags = qdsk.at.flags]_<<mvars, qvars>>
\* the rows of blocks this session did not write keep their digests
AttrUntouchedRowsKept ==
    [][(qdsk.at.has /\ qdsk'.at.has) =>
          \A i \in 1..Len(qdsk.at.rows) : (i <= Len(qmod) /\ qmod[i] = NoDg /\ i <= Len(qdsk'.at.rows)) =>
               (qdsk'.at.rows[i].crc = qdsk.at.rows[i].crc /\ qdsk'.at.rows[i].md5 = qdsk.at.rows[i].md5)]_<<mvars, qvars>>
=============================================================================
