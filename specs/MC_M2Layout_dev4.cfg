\* named deviation (must be refuted): the relocation map advances the running offset for an array that is already mapped (seeded change C13-s5) -> ASSUME RelocConsistent false
CONSTANT SubmeshStep = 48
CONSTANT AnimBoneRule = "table"
CONSTANT RelocAdvanceAlways = TRUE
CONSTANT CollectSkipRule = "all-empty"
CONSTANT SaveTruncates = TRUE
CONSTANT ViewBatchBytes = 24
INIT Init
NEXT Next
INVARIANT CursorIsEmitted
INVARIANT SegmentsTile
INVARIANT RegionsInsideFile
INVARIANT RegionsDisjoint
INVARIANT HeaderMatchesEmitted
INVARIANT RoundTrip
INVARIANT RewriteStable
INVARIANT ConvertSame
INVARIANT ConvertKeeps
CHECK_DEADLOCK FALSE
