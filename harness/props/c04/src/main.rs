//! C04 driver: evaluate the library's hash / cipher primitives on the cases TLC generated and log
//! the observed values. No comparison happens here; Trace_MpqCrypto.tla decides.
use wverif_common::*;
use wow_mpq::crypto::{
    decrypt_block, decrypt_dword, encrypt_block, hash_string, hash_type, het_hash, jenkins_hash, ASCII_TO_LOWER,
    ASCII_TO_UPPER, ENCRYPTION_TABLE,
};
use wow_mpq::simd::scalar::hash_string_scalar;
use wow_mpq::SimdOps;
use wow_mpq::crypto::file_key;
use wow_mpq::{calculate_het_hashes, calculate_mpq_hashes, decrypt_file_data, ArchiveBuilder};

fn w(v: u32) -> Value {
    json!([(v >> 16) as u32, v & 0xFFFF])
}
fn ws(v: &[u32]) -> Value {
    Value::Array(v.iter().map(|x| w(*x)).collect())
}
fn limbs64(v: u64) -> Value {
    json!([(v >> 48) & 0xFFFF, (v >> 32) & 0xFFFF, (v >> 16) & 0xFFFF, v & 0xFFFF])
}

struct Out<'a> {
    t: &'a Trace,
    n: usize,
}
impl<'a> Out<'a> {
    fn ev(&mut self, v: Value) {
        if self.n % 400 == 0 {
            self.t.ev(json!({"ev":"Reset","case":"-"}));
        }
        self.n += 1;
        self.t.ev(v);
    }
}

fn hash_ev(case: &str, s: &str) -> Value {
    json!({"ev":"Hash","case":case,"b":s.as_bytes(),
        "v":[w(hash_string(s, hash_type::TABLE_OFFSET)), w(hash_string(s, hash_type::NAME_A)),
             w(hash_string(s, hash_type::NAME_B)), w(hash_string(s, hash_type::FILE_KEY))]})
}

fn gen_buf(cls: &str, len: usize, rng: &mut Rng) -> Vec<u8> {
    match cls {
        "zeros" => vec![0; len],
        "ones" => vec![0xFF; len],
        "ramp" => (0..len).map(|i| i as u8).collect(),
        "ascii" => (0..len).map(|_| 0x20 + rng.below(95) as u8).collect(),
        "high" => (0..len).map(|_| 0x80 | rng.byte()).collect(),
        _ => rng.bytes(len),
    }
}

fn enc_events(out: &mut Out, case: &str, key: u32, buf: &[u8]) {
    // word level on the full dwords of the buffer
    let words: Vec<u32> = buf.chunks_exact(4).map(|c| u32::from_le_bytes([c[0], c[1], c[2], c[3]])).collect();
    let mut enc = words.clone();
    encrypt_block(&mut enc, key);
    let mut dec = enc.clone();
    decrypt_block(&mut dec, key);
    let dd = if enc.is_empty() { 0 } else { decrypt_dword(enc[0], key) };
    out.ev(json!({"ev":"Enc","case":case,"key":w(key),"w":ws(&words),"enc":ws(&enc),"dec":ws(&dec),"dd":w(dd)}));
    // byte level wrappers, any length, at every alignment of the slice start relative to a dword
    // boundary (the API takes &mut [u8]; nothing entitles it to an aligned start)
    let b = ArchiveBuilder::new();
    for off in 0..4usize {
        let mut backing = vec![0u8; buf.len() + 8];
        let base = (4 - (backing.as_ptr() as usize % 4)) % 4 + off;
        backing[base..base + buf.len()].copy_from_slice(buf);
        b.encrypt_data(&mut backing[base..base + buf.len()], key);
        let e = backing[base..base + buf.len()].to_vec();
        decrypt_file_data(&mut backing[base..base + buf.len()], key);
        let d = backing[base..base + buf.len()].to_vec();
        out.ev(json!({"ev":"EncBytes","case":case,"key":w(key),"off":off,"b":buf,"enc":e,"dec":d}));
        if buf.len() > 64 && off == 1 {
            break; // long random buffers: aligned + one unaligned start keep the trace small
        }
    }
}

/// Large buffers (> 1 MiB): the plaintext is a constant byte, so TLC can regenerate it; only probe
/// words of the ciphertext are logged (first, around every 64 Ki-word boundary passed, last) plus tokens.
fn enc_big(out: &mut Out, case: &str, key: u32, byte: u8, len: usize) {
    let b = ArchiveBuilder::new();
    let plain = vec![byte; len];
    let mut e = plain.clone();
    b.encrypt_data(&mut e, key);
    let nwords = len / 4;
    let mut probes: Vec<usize> = vec![1, 2, nwords - 1, nwords];
    let mut k = 65536;
    while k < nwords {
        probes.extend_from_slice(&[k - 1, k, k + 1, k + 2]);
        k *= 2;
    }
    k = 262144;
    while k < nwords {
        probes.extend_from_slice(&[k, k + 1]);
        k += 262144;
    }
    probes.sort();
    probes.dedup();
    let pv: Vec<Value> = probes.iter().filter(|&&i| i >= 1 && i <= nwords).map(|&i| {
        let o = (i - 1) * 4;
        json!([i, w(u32::from_le_bytes([e[o], e[o + 1], e[o + 2], e[o + 3]]))])
    }).collect();
    let tail: Vec<u8> = e[nwords * 4..].to_vec();
    let mut d = e.clone();
    decrypt_file_data(&mut d, key);
    out.ev(json!({"ev":"EncBig","case":case,"key":w(key),"byte":byte,"nwords":nwords,"tail":tail,"tailplain":plain[nwords*4..].to_vec(),
        "probes":pv,"ptok":tok(&plain),"dtok":tok(&d)}));
}

fn main() {
    let a = args();
    install_quiet_panic_hook();
    let cases = read_cases(&a.cases);
    let trace = Trace::create(&a.trace);
    let mut out = Out { t: &trace, n: 0 };
    let seed = seed();
    for (ci, c) in cases.iter().enumerate() {
        let kind = gs(c, "kind");
        let case = format!("{ci}:{kind}");
        let mut rng = Rng::derive(seed, &case);
        match kind {
            "table" => {
                for base in (0..1280).step_by(64) {
                    let vals: Vec<Value> = (base..base + 64).map(|i| w(ENCRYPTION_TABLE[i])).collect();
                    out.ev(json!({"ev":"Table","case":case,"base":base,"vals":vals}));
                }
            }
            "fold" => {
                out.ev(json!({"ev":"Fold","case":case,"upper":ASCII_TO_UPPER.to_vec(),"lower":ASCII_TO_LOWER.to_vec()}));
            }
            "hash_exh" => {
                // every valid UTF-8 string of <= maxlen bytes (hash_string takes &str); with
                // stride > 1 a seed-rotated residue class of the two-byte strings is taken
                let stride = gi(c, "stride") as u64;
                let phase = seed % stride.max(1);
                let mut idx = 0u64;
                out.ev(hash_ev(&case, ""));
                for b0 in 0u32..0x80 {
                    out.ev(hash_ev(&case, &char::from_u32(b0).unwrap().to_string()));
                }
                for c0 in 0u32..0x800 {
                    // 1-byte pairs and 2-byte code points
                    if c0 >= 0x80 {
                        idx += 1;
                        if idx % stride == phase {
                            out.ev(hash_ev(&case, &char::from_u32(c0).unwrap().to_string()));
                        }
                    }
                }
                for b0 in 0u32..0x80 {
                    for b1 in 0u32..0x80 {
                        idx += 1;
                        if idx % stride != phase {
                            continue;
                        }
                        let s: String = [char::from_u32(b0).unwrap(), char::from_u32(b1).unwrap()].iter().collect();
                        out.ev(hash_ev(&case, &s));
                    }
                }
            }
            "hash_rand" => {
                let n = gi(c, "count");
                let maxlen = gi(c, "maxlen") as u64;
                let alphabet: Vec<char> = "abcdefghijklmnopqrstuvwxyzABCDEFGHIJKLMNOPQRSTUVWXYZ0123456789\\/._- ()é\u{00FF}\u{0100}\u{20AC}\u{FFFD}\u{10348}\u{10FFFF}{}~\u{7f}\u{1}".chars().collect();
                for _ in 0..n {
                    let l = rng.range(3, maxlen);
                    let s: String = (0..l).map(|_| *rng.pick(&alphabet)).collect();
                    out.ev(hash_ev(&case, &s));
                    // the spellings the property names: upper, lower, flipped slashes
                    out.ev(hash_ev(&case, &s.to_ascii_uppercase()));
                    out.ev(hash_ev(&case, &s.to_ascii_lowercase().replace('\\', "/")));
                    // the convenience wrappers of crypto/mod.rs must agree with the primitive hashes
                    let (ha, hb, ho) = calculate_mpq_hashes(&s);
                    let (hf, hn) = calculate_het_hashes(&s, 48);
                    // crypto::file_key: key of the plain name after the LAST separator of either kind
                    for nm in [s.clone(), format!("Dir\\Sub/{s}"), format!("Dir/Sub\\{s}"), format!("a/b\\c/{s}"), format!("{s}\\"), format!("{s}/")] {
                        out.ev(json!({"ev":"FileKey","case":case,"b":nm.as_bytes(),"v":w(file_key(&nm))}));
                    }
                    out.ev(json!({"ev":"Wrap","case":case,"b":s.as_bytes(),"a":w(ha),"bb":w(hb),"off":w(ho),
                        "bits":48,"file":limbs64(hf),"name1":hn}));
                }
            }
            "hashb_exh" => {
                let stride = gi(c, "stride") as u64;
                let phase = seed % stride.max(1);
                let simd = SimdOps::new();
                let hb = |via: &str, b: &[u8]| -> Value {
                    let f = |t: u32| if via == "simd" { simd.hash_string_simd(b, t) } else { hash_string_scalar(b, t) };
                    json!({"ev":"HashB","case":case,"via":via,"b":b,
                        "v":[w(f(hash_type::TABLE_OFFSET)), w(f(hash_type::NAME_A)), w(f(hash_type::NAME_B)), w(f(hash_type::FILE_KEY))]})
                };
                out.ev(hb("scalar", &[]));
                for b0 in 0u32..256 {
                    out.ev(hb("scalar", &[b0 as u8]));
                    out.ev(hb("simd", &[b0 as u8]));
                }
                let mut idx = 0u64;
                for b0 in 0u32..256 {
                    for b1 in 0u32..256 {
                        idx += 1;
                        if idx % stride != phase {
                            continue;
                        }
                        out.ev(hb("scalar", &[b0 as u8, b1 as u8]));
                    }
                }
            }
            "hashb_rand" => {
                let simd = SimdOps::new();
                let maxlen = gi(c, "maxlen") as u64;
                let mut names: Vec<String> = Vec::new();
                for i in 0..gi(c, "count") {
                    // lengths around the SIMD thresholds (16 NEON, 32 AVX2) and block multiples
                    let l = match i % 6 { 0 => 31, 1 => 32, 2 => 33, 3 => 64, _ => rng.range(3, maxlen) } as usize;
                    let mut b = rng.bytes(l);
                    if i % 3 == 0 {
                        for x in b.iter_mut() { *x = 0x20 + (*x % 0x5f); }      // printable: letters, slashes
                    }
                    let f = |t: u32| simd.hash_string_simd(&b, t);
                    out.ev(json!({"ev":"HashB","case":case,"via":"simd","b":b,
                        "v":[w(f(hash_type::TABLE_OFFSET)), w(f(hash_type::NAME_A)), w(f(hash_type::NAME_B)), w(f(hash_type::FILE_KEY))]}));
                    if i % 3 == 0 {
                        names.push(String::from_utf8(b.clone()).unwrap());
                    }
                }
                // batch one-at-a-time (AVX2 path takes >= 4 names; it folds 32-byte chunks vectorised and the
                // tail bytes separately): lengths around every chunk multiple, separators and upper-case letters
                // forced into the first chunk, a middle chunk and the tail
                let mut bnames: Vec<String> = Vec::new();
                for (j, &l) in [1usize, 5, 31, 32, 33, 34, 40, 63, 64, 65, 66, 95, 96, 97, 100, 129, 200].iter().cycle().take(68).enumerate() {
                    let mut b: Vec<u8> = (0..l).map(|_| 0x20 + (rng.byte() % 0x5f)).collect();
                    let marks = [b'/', b'\\', b'Q', b'z'];
                    for (q, pos) in [0usize, l / 2, l.saturating_sub(1), l.saturating_sub(2)].iter().enumerate() {
                        if *pos < l && (j + q) % 2 == 0 {
                            b[*pos] = marks[(j + q) % 4];
                        }
                    }
                    bnames.push(String::from_utf8(b).unwrap());
                }
                names.extend(bnames);
                let refs: Vec<&str> = names.iter().map(|s| s.as_str()).collect();
                for chunk in refs.chunks(7) {
                    let hs = simd.jenkins_hash_batch(chunk);
                    for (n, h) in chunk.iter().zip(hs) {
                        out.ev(json!({"ev":"Oaat","case":case,"b":n.as_bytes(),"v":limbs64(h)}));
                    }
                }
            }
            "enc" => {
                let k = ga(c, "key");
                let key = ((k[0].as_u64().unwrap() as u32) << 16) | k[1].as_u64().unwrap() as u32;
                let len = gi(c, "len") as usize;
                let buf = gen_buf(gs(c, "cls"), len, &mut rng);
                enc_events(&mut out, &case, key, &buf);
            }
            "enc_big" => {
                let k = ga(c, "key");
                let key = ((k[0].as_u64().unwrap() as u32) << 16) | k[1].as_u64().unwrap() as u32;
                enc_big(&mut out, &case, key, gi(c, "byte") as u8, gi(c, "len") as usize);
            }
            "enc_rand" => {
                for _ in 0..gi(c, "count") {
                    let len = rng.range(18, gi(c, "maxlen") as u64) as usize;
                    let key = rng.next_u32();
                    let buf = rng.bytes(len);
                    enc_events(&mut out, &case, key, &buf);
                }
            }
            "het" => {
                let widths: Vec<u32> = ga(c, "widths").iter().map(|x| x.as_u64().unwrap() as u32).collect();
                let alphabet: Vec<char> = "abcxyzABCXYZ0189\\/._-() é".chars().collect();
                for &bits in &widths {
                    // the empty name: lookup3 returns its initial state without the final mix
                    let (file, name1) = het_hash("", bits);
                    out.ev(json!({"ev":"Het","case":case,"b":Vec::<u8>::new(),"bits":bits,"file":limbs64(file),"name1":name1}));
                }
                for i in 0..gi(c, "count") {
                    let l = if i < 30 { i as u64 + 1 } else { rng.range(1, 70) };
                    let s: String = (0..l).map(|_| *rng.pick(&alphabet)).collect();
                    for sp in [s.clone(), s.to_ascii_uppercase(), s.to_ascii_lowercase().replace('\\', "/")] {
                        out.ev(json!({"ev":"Oaat","case":case,"b":sp.as_bytes(),"v":limbs64(jenkins_hash(&sp))}));
                        for &bits in &widths {
                            let (file, name1) = het_hash(&sp, bits);
                            out.ev(json!({"ev":"Het","case":case,"b":sp.as_bytes(),"bits":bits,"file":limbs64(file),"name1":name1}));
                        }
                    }
                }
            }
            other => tool_error(&format!("unknown case kind {other}")),
        }
    }
    trace.flush();
}
