---------------------------- MODULE MC_MpqFormat ----------------------------
(* Stage (A) for C02: the reference implementation is consistent with itself.                     *)
(*                                                                                                *)
(* The writer runs as a state machine (one TLC step per layout step: begin, one step per file,     *)
(* hash table, block table, hi-block table, header back-patch); the reader then looks up and       *)
(* decodes every file and an absent name.  TLC checks on 8/16-byte sectors, for every              *)
(* configuration x file shape x encryption mode x dialect of the model:                            *)
(*   RoundTrip         RefRead(RefWrite(f,c,d), d) = f, RefWrite = fold of the steps, header ok    *)
(*   AbsentNotFound    a name that was not written is not found (also across deleted slots)        *)
(*   DeviationsBreak   an archive written in the standard format and decoded in a library dialect  *)
(*                     (or vice versa) does NOT give the files back exactly where a named          *)
(*                     deviation applies -- i.e. each deviation is an interoperability defect on   *)
(*                     the model, and is harmless where its label does not apply                   *)
(* plus the published constants as ASSUMEs.                                                        *)
EXTENDS MpqFormatHB, TLC, IOUtils

ASSUME KeyHashTable  == TableKeyHash  = <<50095, 14192>>      \* 0xC3AF3770  (mpq.md "Table Encryption")
ASSUME KeyBlockTable == TableKeyBlock = <<60547, 45987>>      \* 0xEC83B3A3
ASSUME ListfileSlot  == HashString(<<40,108,105,115,116,102,105,108,101,41>>, TABLE_OFFSET) = <<24381, 59481>>  \* 0x5F3DE859
ASSUME FlagValues    == /\ Hex32(F_COMPRESS) = "00000200" /\ Hex32(F_ENCRYPTED) = "00010000"
                        /\ Hex32(F_FIXKEY) = "00020000"   /\ Hex32(F_SINGLE) = "01000000"
                        /\ Hex32(F_EXISTS) = "80000000"   /\ Hex32(F_IMPLODE) = "00000100"
ASSUME StdCipherIsWordCipher ==      \* whole dwords: same as MpqCrypto's block cipher; tail left in clear
  LET kk == <<4660, 22136>>  bs == <<1,2,3,4,5,6,7,8,9,10,11>>
  IN  /\ SubSeq(StdCryptBytes(bs, kk, StdEncWords), 1, 8) = BytesOf(EncryptBlock(WordsOf(SubSeq(bs,1,8)), kk))
      /\ SubSeq(StdCryptBytes(bs, kk, StdEncWords), 9, 11) = <<9,10,11>>
      /\ StdCryptBytes(StdCryptBytes(bs, kk, StdEncWords), kk, StdDecWords) = bs
      /\ UnitDecrypt(UnitEncrypt(bs, kk, LibW), kk, LibR) = bs
      /\ UnitEncrypt(bs, kk, LibW) # UnitEncrypt(bs, kk, Std)

\* model size: "cov" (tiny, run under -coverage for the vacuity guard), "quick", "thorough"
Model == IF "C02_MODEL" \in DOMAIN IOEnv THEN IOEnv.C02_MODEL ELSE "quick"

NameA  == <<97>>                                                        \* "a"
\* "D\x" colliding with "a" on the home slot of a 4-entry table: exercises probing
NameB  == CHOOSE nm \in {<<68, 92, ch>> : ch \in 97..122} : HomeSlot(nm, 4) = HomeSlot(NameA, 4)
Absent == CHOOSE nm \in {<<ch, 113>> : ch \in 97..122} : HomeSlot(nm, 4) = HomeSlot(NameA, 4)

Raw(bytes)   == [m |-> -1, p |-> bytes]
Cmp(mb, pl)  == [m |-> mb, p |-> pl]
Ramp(lo, cnt) == [ri \in 1..cnt |-> (lo + 17 * ri) % 256]

\* file shapes; ssz = sector size of the configuration (8 or 16)
Shape(kind, ssz) ==
  CASE kind = "tiny"    -> [fsize |-> 3,  single |-> TRUE,  cflag |-> FALSE, sectors |-> <<Raw(Ramp(1, 3))>>]
    [] kind = "unitcmp" -> [fsize |-> 8,  single |-> TRUE,  cflag |-> TRUE,  sectors |-> <<Cmp(M_ZLIB, Ramp(9, 3))>>]
    [] kind = "bigunit" -> [fsize |-> 21, single |-> TRUE,  cflag |-> TRUE,  sectors |-> <<Cmp(M_BZIP2, Ramp(30, 6))>>]
    [] kind = "empty"   -> [fsize |-> 0,  single |-> FALSE, cflag |-> FALSE, sectors |-> <<>>]
    [] kind = "flagraw" -> [fsize |-> 6,  single |-> FALSE, cflag |-> TRUE,  sectors |-> <<Raw(Ramp(40, 6))>>]
    [] kind = "rawsecs" -> [fsize |-> 13, single |-> FALSE, cflag |-> FALSE,
                            sectors |-> IF ssz = 8 THEN <<Raw(Ramp(50, 8)), Raw(Ramp(60, 5))>> ELSE <<Raw(Ramp(50, 13))>>]
    [] kind = "cmpsecs" -> [fsize |-> 19, single |-> FALSE, cflag |-> TRUE,
                            sectors |-> IF ssz = 8 THEN <<Cmp(M_BZIP2, Ramp(70, 2)), Raw(Ramp(80, 8)), Cmp(M_ZLIB, Ramp(90, 1))>>
                                        ELSE <<Cmp(M_ZLIB, Ramp(70, 4)), Raw(Ramp(80, 3))>>]

Kinds1 == {"tiny", "unitcmp", "bigunit", "empty", "flagraw", "rawsecs", "cmpsecs", "crcsecs"}
Kinds2 == CASE Model = "cov" -> {"cmpsecs"} [] Model = "quick" -> {"cmpsecs"}
            [] OTHER -> {"tiny", "rawsecs", "cmpsecs", "unitcmp"}
Encs1  == IF Model = "cov" THEN {"fix"} ELSE {"plain", "enc", "fix"}
Encs2  == CASE Model = "cov" -> {"enc"} [] Model = "quick" -> {"fix"} [] OTHER -> {"plain", "enc", "fix"}
Dialects == IF Model = "cov" THEN {Std} ELSE {Std, LibW, LibR}

\* kind "crcsecs" = "cmpsecs" with sector checksums
MkFile(name, kind, enc, ssz) == [name |-> name, enc |-> enc, locale |-> 0, crc |-> kind = "crcsecs"]
                                @@ Shape(IF kind = "crcsecs" THEN "cmpsecs" ELSE kind, ssz)
Prefix512 == [pi \in 1..512 |-> (pi * 7) % 251]

\* fields of the V3/V4 part of a configuration (growth round 4); classic-only configurations carry neutral values
NoX == [hetbet |-> FALSE, classic |-> TRUE, ghost |-> FALSE, hbits |-> 64, hettotal |-> 4, iextra |-> 0, hextra |-> 0, slack |-> 0,
        hetstored |-> <<>>, betstored |-> <<>>]
CfgsClassic ==
        \* one configuration has a hash table (64 entries = 1024 bytes) that is larger than the 512 bytes of pre-archive data in
        \* front of the header: table positions are relative to the header, whatever the table's size
        {[ver |-> cc[1], shift |-> cc[2], hcount |-> IF cc[4] /\ cc[1] = 0 /\ cc[2] = 1 /\ Model # "cov" THEN 64 ELSE 4, ndel |-> cc[3], hibt |-> cc[4],
          prefix |-> IF cc[4] THEN Prefix512 ELSE <<>>] @@ NoX :
            cc \in {c4 \in (IF Model = "cov" THEN {0, 1} ELSE {0, 1, 2}) \X {0, 1} \X {0, 1} \X BOOLEAN :
                      /\ (Model = "cov" => c4[3] = 1)
                      /\ (Model # "thorough" => c4[4] = (c4[3] = 1))}}
\* V3 (ver 2) and V4 (ver 3) archives with HET/BET tables, with and without the classic tables next to them; the writer's
\* free choices (name-hash width, HET array size incl. a full table, extra index / hash bits, slack bits in BET fields)
\* are tied to the other dimensions
CfgsX == {[ver |-> cc[1], shift |-> cc[2], hcount |-> 4, ndel |-> cc[3], hibt |-> cc[3] = 1,
           prefix |-> IF cc[3] = 1 THEN Prefix512 ELSE <<>>,
           hetbet |-> TRUE, classic |-> cc[4], ghost |-> cc[4] /\ cc[2] = 1 /\ cc[3] = 0, hbits |-> IF cc[2] = 0 THEN 64 ELSE (IF cc[3] = 0 THEN 40 ELSE 17),
           hettotal |-> IF cc[3] = 0 THEN 2 ELSE 5, iextra |-> cc[3], hextra |-> 3 * cc[2], slack |-> cc[3],
           hetstored |-> <<>>, betstored |-> <<>>] :
            cc \in {c4 \in {2, 3} \X {0, 1} \X {0, 1} \X BOOLEAN :
                      /\ (Model = "cov" => c4[1] = 3 /\ c4[2] = 1 /\ c4[3] = 1 /\ c4[4])
                      /\ (Model = "quick" => (c4[4] = (c4[2] = c4[3]) \/ c4[1] = 3))}}
\* the -coverage run of the tiny instance (thorough tier) leaves the V3/V4 configurations out: TLC's coverage bookkeeping of the
\* deep HET/BET definitions exhausts the heap; MEmitHet/MEmitBet are still taken (as no-ops) and counted
Cfgs == IF "C02_COVRUN" \in DOMAIN IOEnv THEN CfgsClassic ELSE CfgsClassic \cup CfgsX
XDialects == IF Model = "cov" THEN {XStd} ELSE {XStd, XLib}

VARIABLES vfiles, vcfg, vdial, vxd, vwst, vphase, vnext, vimg, vchecked
mvars == <<vfiles, vcfg, vdial, vxd, vwst, vphase, vnext, vimg, vchecked>>

SSz == SectorSize(vcfg.shift)

Init == /\ vcfg \in Cfgs
        /\ vdial \in Dialects
        /\ vxd \in XDialects
        /\ (vcfg.hetbet => vdial = Std)              \* the table dimensions are explored with standard file layouts
        /\ (~vcfg.hetbet => vxd = XStd)
        /\ \E k1 \in Kinds1, e1 \in Encs1, k2 \in Kinds2, e2 \in Encs2 :
             /\ (k1 = "crcsecs" => vdial # LibW)       \* the writer side of `crclayout` is not modelled
             /\ (vcfg.hetbet => k2 = "cmpsecs" /\ e2 = "fix")   \* V3/V4: the second file's shape is fixed (bounds the thorough model)
             /\ vfiles = << MkFile(NameB, k1, e1, SectorSize(vcfg.shift)), MkFile(NameA, k2, e2, SectorSize(vcfg.shift)) >>
        /\ vwst = <<>> /\ vphase = "begin" /\ vnext = 1 /\ vimg = <<>> /\ vchecked = {}

MBegin == /\ vphase = "begin"
          /\ \A fi \in 1..Len(vfiles) : FileWellFormed(vfiles[fi], SSz)
          /\ vwst' = WBeginX4(vfiles, vcfg) /\ vphase' = "files"
          /\ UNCHANGED <<vfiles, vcfg, vdial, vxd, vnext, vimg, vchecked>>
MAppendFile == /\ vphase = "files" /\ vnext <= Len(vfiles)
               /\ vwst' = WAppendFile(vwst, vfiles[vnext], vcfg, vdial) /\ vnext' = vnext + 1
               /\ UNCHANGED <<vfiles, vcfg, vdial, vxd, vphase, vimg, vchecked>>
\* HET and BET follow the file data (no-ops for archives without them)
MEmitHet == /\ vphase = "files" /\ vnext > Len(vfiles)
            /\ vwst' = WEmitHet(vwst, vfiles, vcfg, vxd) /\ vphase' = "bet"
            /\ UNCHANGED <<vfiles, vcfg, vdial, vxd, vnext, vimg, vchecked>>
MEmitBet == /\ vphase = "bet"
            /\ vwst' = WEmitBet(vwst, vfiles, vcfg, vxd) /\ vphase' = "hash"
            /\ UNCHANGED <<vfiles, vcfg, vdial, vxd, vnext, vimg, vchecked>>
MEmitHash == /\ vphase = "hash"
             /\ vwst' = WEmitHashX(vwst, vcfg) /\ vphase' = "block"
             /\ UNCHANGED <<vfiles, vcfg, vdial, vxd, vnext, vimg, vchecked>>
MEmitBlock == /\ vphase = "block"
              /\ vwst' = WEmitBlockX(vwst, vcfg) /\ vphase' = "hiblock"
              /\ UNCHANGED <<vfiles, vcfg, vdial, vxd, vnext, vimg, vchecked>>
MEmitHiBlock == /\ vphase = "hiblock"
                /\ vwst' = WEmitHiBlockX(vwst, vcfg) /\ vphase' = "header"
                /\ UNCHANGED <<vfiles, vcfg, vdial, vxd, vnext, vimg, vchecked>>
MPatchHeader == /\ vphase = "header"
                /\ vimg' = WFinish(WPatchHeaderX(vwst, vcfg, vxd), vcfg) /\ vphase' = "read" /\ vwst' = <<>>
                /\ UNCHANGED <<vfiles, vcfg, vdial, vxd, vnext, vchecked>>
\* the reader: one step per looked-up name (no state besides which names were read)
MReadFile == /\ vphase = "read"
             /\ \E fi \in 1..Len(vfiles) : fi \notin vchecked /\ vchecked' = vchecked \cup {fi}
             /\ UNCHANGED <<vfiles, vcfg, vdial, vxd, vwst, vphase, vnext, vimg>>
MReadAbsent == /\ vphase = "read" /\ 0 \notin vchecked /\ vchecked' = vchecked \cup {0}
               /\ UNCHANGED <<vfiles, vcfg, vdial, vxd, vwst, vphase, vnext, vimg>>

Next == MBegin \/ MAppendFile \/ MEmitHet \/ MEmitBet \/ MEmitHash \/ MEmitBlock \/ MEmitHiBlock \/ MPatchHeader \/ MReadFile \/ MReadAbsent

\* ---- invariants --------------------------------------------------------------------------
Names == {vfiles[fi].name : fi \in 1..Len(vfiles)}
Decoded(dd) == RefRead(vimg, Names \cup {Absent}, dd)
Matches(dec, f) == /\ dec.res = "ok" /\ dec.fsize = f.fsize /\ dec.enc = f.enc
                   /\ dec.single = f.single /\ dec.cflag = f.cflag
                   /\ dec.sectors = ExpectSectors(f, SSz) /\ dec.locale = 0 /\ dec.platform = 0
                   /\ dec.crc = (IF f.crc /\ f.cflag /\ ~f.single /\ f.fsize > 0 THEN "ok" ELSE "none")

\* layout facts while writing: block entries point inside the image, in order, no overlap
HCnt == IF vcfg.classic THEN vcfg.hcount ELSE 0
BCnt == IF vcfg.classic THEN Len(vwst.blocks) ELSE 0
DataEnd == IF vwst.blocks = <<>> THEN HeaderSizeX(vcfg.ver)
           ELSE NatOf(vwst.blocks[Len(vwst.blocks)].pos) + NatOf(vwst.blocks[Len(vwst.blocks)].csize)
LayoutOk == vphase \in {"files", "bet", "hash", "block", "hiblock", "header"} =>
  /\ \A bi \in 1..Len(vwst.blocks) :
       /\ NatOf(vwst.blocks[bi].pos) >= HeaderSizeX(vcfg.ver)
       /\ NatOf(vwst.blocks[bi].pos) + NatOf(vwst.blocks[bi].csize) <= Len(vwst.img)
       /\ (bi > 1 => NatOf(vwst.blocks[bi].pos) = NatOf(vwst.blocks[bi-1].pos) + NatOf(vwst.blocks[bi-1].csize))
  /\ Cardinality({hs \in 0..(vcfg.hcount - 1) : vwst.hash[hs].blk \notin {HASH_EMPTY, HASH_DELETED}}) = Len(vwst.blocks)
  \* every block index in the hash table is the index of a written block; tables follow the data, back to back
  /\ \A hs \in 0..(vcfg.hcount - 1) :
        vwst.hash[hs].blk \notin {HASH_EMPTY, HASH_DELETED} => NatOf(vwst.hash[hs].blk) \in 0..(Len(vwst.blocks) - 1)
  \* HET then BET directly behind the file data (both absent: sizes 0)
  /\ (vphase \in {"bet", "hash", "block", "hiblock", "header"} =>
        /\ (vcfg.hetbet => vwst.hetpos = DataEnd /\ vwst.hetsz >= 12 + 32 + vcfg.hettotal)
        /\ (~vcfg.hetbet => vwst.hetpos = 0 /\ vwst.hetsz = 0))
  /\ (vphase \in {"hash", "block", "hiblock", "header"} =>
        /\ (vcfg.hetbet => vwst.betpos = vwst.hetpos + vwst.hetsz /\ vwst.betsz >= 12 + 76 + 4)
        /\ (vphase = "hash" => Len(vwst.img) = DataEnd + vwst.hetsz + vwst.betsz))
  /\ (vphase \in {"block", "hiblock", "header"} =>
        /\ (vcfg.classic => vwst.htpos = DataEnd + vwst.hetsz + vwst.betsz)
        /\ (~vcfg.classic => vwst.htpos = 0)
        /\ (vphase = "block" => Len(vwst.img) = DataEnd + vwst.hetsz + vwst.betsz + 16 * HCnt))
  /\ (vphase \in {"hiblock", "header"} =>
        /\ (vcfg.classic => vwst.btpos = vwst.htpos + 16 * HCnt)
        /\ (~vcfg.classic => vwst.btpos = 0)
        /\ Len(vwst.img) >= vwst.btpos + 16 * BCnt)

\* ---- reading back ------------------------------------------------------------------------
IsX == vcfg.ver = 3 \/ vcfg.hetbet
\* a V3/V4 archive as the reference opens it: header, classic tables (if any), plain HET/BET bodies (the model stores them raw)
XAr == OpenArchiveX(vimg)
XTabs == LET et == XTablesOfArchive(vimg, XAr) IN XTables(et.het.p, et.bet.p)
XExt == XTablesOfArchive(vimg, XAr)
\* everything the reference requires of the two tables under x-dialect xx
XTablesOk(xx) ==
  /\ XExt.het.res = "ok" /\ XExt.bet.res = "ok" /\ XExt.het.m = -1 /\ XExt.bet.m = -1
  /\ HetConforms(XTabs.het, XExt.het.dsize, xx) /\ BetConforms(XTabs.bet, XExt.bet.dsize, xx)
  /\ HetBetAgree(XTabs.het, XTabs.bet, xx) /\ XSlotsOk(XTabs, xx)
\* the files come back through HET/BET under x-dialect xx, and an absent name is not found
XReadsBack(xx) ==
  /\ XAr.res = "ok" /\ XAr.base = Len(vcfg.prefix) /\ HeaderOkX(XAr, xx)
  /\ XTablesOk(xx)
  /\ \A fi \in 1..Len(vfiles) : Matches(RefReadFileX(vimg, XAr.base, XAr.hn.shift, XTabs, vfiles[fi].name, vdial, xx), vfiles[fi])
  /\ RefReadFileX(vimg, XAr.base, XAr.hn.shift, XTabs, Absent, vdial, xx).res = "notfound"
\* ... and through the classic tables of the same archive (both ways must give the same files)
XClassicReadsBack ==
  LET ht == HashTableOf(vimg, XAr.base, XAr.hn)
      bt == BlockTableOf(vimg, XAr.base, XAr.hn)
  IN  /\ XAr.hn.htcount = vcfg.hcount /\ XAr.hn.btcount = Len(vfiles)
      /\ \A fi \in 1..Len(vfiles) : IF vcfg.ghost THEN RefReadFile(vimg, XAr, ht, bt, vfiles[fi].name, vdial).res = "notfound"
                                     ELSE Matches(RefReadFile(vimg, XAr, ht, bt, vfiles[fi].name, vdial), vfiles[fi])
      /\ RefReadFile(vimg, XAr, ht, bt, Absent, vdial).res = "notfound"

RoundTrip == vphase = "read" /\ vchecked = {} =>
  /\ vimg = RefWriteX(vfiles, vcfg, vdial, vxd)                 \* the fold equals the stepwise machine
  /\ IF IsX
     THEN /\ XAr.hn.ver = vcfg.ver /\ XAr.hn.shift = vcfg.shift
          /\ (vcfg.hetbet => XReadsBack(vxd))
          /\ (vcfg.classic => XClassicReadsBack)
          /\ (~vcfg.classic => XAr.hn.htcount = 0 /\ XAr.hn.btcount = 0)
          /\ Len(Md5Ranges(XAr.hn, XAr.hx)) = (IF vcfg.ver # 3 THEN 0 ELSE 1 + (IF vcfg.hetbet THEN 2 ELSE 0) + (IF vcfg.classic THEN 2 + (IF vcfg.hibt THEN 1 ELSE 0) ELSE 0))
     ELSE LET ar  == OpenArchive(vimg)
              dec == Decoded(vdial)
          IN  /\ vimg = RefWrite(vfiles, vcfg, vdial)
              /\ ar.res = "ok" /\ ar.base = Len(vcfg.prefix)
              /\ ar.hn.ver = vcfg.ver /\ ar.hn.shift = vcfg.shift /\ ar.hn.htcount = vcfg.hcount /\ ar.hn.btcount = Len(vfiles)
              /\ \A fi \in 1..Len(vfiles) : Matches(dec[vfiles[fi].name], vfiles[fi])
              /\ dec[Absent].res = "notfound"

AbsentNotFound == vphase = "read" =>
  IF IsX THEN (vcfg.hetbet /\ vxd = XStd => RefReadFileX(vimg, XAr.base, XAr.hn.shift, XTabs, Absent, Std, XStd).res = "notfound")
  ELSE RefRead(vimg, {Absent}, Std)[Absent].res = "notfound"

\* cross-dialect: decode with the *other* side's dialect.  Std-written read by the library dialect
\* (direction 2) and library-written read by Std (direction 1).
Cross == IF vdial = Std THEN LibR ELSE Std
DeviationsBreak == vphase = "read" /\ vchecked = {} /\ vdial \in {Std, LibW} /\ ~IsX =>
  LET dec == Decoded(Cross)
      own == Decoded(vdial)
  IN  \A fi \in 1..Len(vfiles) :
        LET f == vfiles[fi]
            labels == DevLabels(f.name, own[f.name])
            \* "rawsector" only bites where the two sides really differ: writer table vs none (LibW->Std),
            \* one cipher block vs per-sector keys (Std->LibR: only for encrypted files with > 1 sector)
            bites == (labels \ {"rawsector"})
                     \cup (IF "rawsector" \in labels /\ (vdial = LibW \/ (f.enc # "plain" /\ Len(f.sectors) > 1))
                           THEN {"rawsector"} ELSE {})
        IN  (bites = {}) <=> Matches(dec[f.name], f)

\* Every named deviation of the HET/BET part is an interoperability defect on the model: an archive written in the
\* published format is NOT read back under the deviating x-dialect exactly where the deviation can matter (and is read back
\* where it cannot); the library's dialect as a whole (XLib) never reads a standard archive, nor the other way round.
NatBit(name, bitno) == JenkinsBits(name, XStd)[bitno]
XBlocks == [fi \in 1..Len(vfiles) |-> BetEntry(XTabs, fi - 1, XStd).be]        \* file index = position in block order
XBites(lb) ==
  CASE lb = "upper"    -> TRUE                                   \* the names of the model contain letters
    [] lb = "libhdr"   -> TRUE                                   \* table_size and the total-size fields always differ
    [] lb = "free255"  -> vcfg.hettotal > Len(vfiles)            \* some slot is free
    [] lb = "nor64"    -> vcfg.hbits = 64 /\ \E fi \in 1..Len(vfiles) : NatBit(vfiles[fi].name, 64) = 0
    \* the whole-hash reading forces the top bit of the BET width: differs where that bit of the hash is 0
    [] lb = "betfull"  -> \E fi \in 1..Len(vfiles) : NatBit(vfiles[fi].name, vcfg.hbits - 8) = 0
    [] lb = "betorder" -> \E fi \in 1..Len(vfiles) : NatOf(XBlocks[fi].fsize) # NatOf(XBlocks[fi].csize)
    [] lb = "hetlow"   -> TRUE
DeviationsBreakX == vphase = "read" /\ vchecked = {} /\ vcfg.hetbet /\ vxd = XStd =>
  /\ \A lb \in XFlags : XBites(lb) <=> ~XReadsBack(XOnly(lb))
  /\ ~XReadsBack(XLib)
DeviationsBreakXL == vphase = "read" /\ vchecked = {} /\ vcfg.hetbet /\ vxd = XLib => ~XReadsBack(XStd)

=============================================================================
