---------------------------- MODULE Gen_Integrity ----------------------------
(* Stage (B) for C10: TLC enumerates the archive configurations (IntegrityDefs!Cfgs) and the fault  *)
(* plan for each: which mutation kinds are applied at which byte offsets.  The harness builds   *)
(* one real archive (1.5-3 KB) per configuration and applies every planned alteration.          *)
(*   byte mutations:  flip0 (xor 01), flip7 (xor 80), set00, setff  at every stride-th offset    *)
(*   multi-byte:      zero4 (4 bytes := 0) at every 4*stride-th offset, swap (two sectors of the *)
(*                    multi-sector file exchange their stored bytes)                             *)
(* quick: a covering subset of the configurations (every value of every dimension, every pair    *)
(* crc x attrs, all four versions, signed), every offset, ONE rotating mutation kind per offset  *)
(* (kind = (offset + seed) mod 4); thorough: all 108 configurations, every offset x two kinds    *)
(* (flip0+set00 or flip7+setff, alternating with the offset);                                    *)
(* plus "sigbytes" cases: generate_weak_signature over random byte strings and every bit flip.   *)
EXTENDS IntegrityDefs, Json, IOUtils, SequencesExt

Thorough == IOEnv.VERIF_TIER = "thorough"
SeedN == atoi(IOEnv.VERIF_SEED)

\* quick subset: all versions x (crc, attrs) pairs with enc/comp derived so that each value occurs
QuickCfgs ==
    {c \in Cfgs : /\ ~c.signed
                  /\ c.enc  = ((c.ver + (IF c.crc THEN 1 ELSE 0)) % 2 = 0)
                  /\ c.comp = ((c.ver + (IF c.attrs = "none" THEN 0 ELSE IF c.attrs = "crc32" THEN 1 ELSE 2)) % 2 = 1)
                  /\ (c.ver \in {2, 3} => (c.crc /\ c.attrs = "none") \/ (~c.crc /\ c.attrs = "full"))}
    \cup {c \in Cfgs : c.signed /\ c.attrs = "none" /\ ~c.enc /\ c.comp}

Chosen == IF Thorough THEN Cfgs ELSE QuickCfgs

ArchiveCase(c) ==
    [kind |-> "archive", ver |-> c.ver, crc |-> c.crc, attrs |-> c.attrs, enc |-> c.enc, comp |-> c.comp,
     signed |-> c.signed,
     mkinds |-> <<"flip0", "flip7", "set00", "setff">>,
     perbyte |-> IF Thorough THEN 2 ELSE 1,   \* how many of the four kinds per offset (rotating with offset + seed)
     stride |-> 1,
     zero4 |-> TRUE, swap |-> TRUE, big |-> 0, sweep |-> "all"]

\* signed archives larger than one 64 KiB digest unit whose (signature) entry starts k bytes before the unit boundary
\* (k = 1, 36, 71: straddling; 300: inside the first unit); only the neighbourhood of the entry is altered, all kinds
BigSigned(k) ==
    [kind |-> "archive", ver |-> 1, crc |-> FALSE, attrs |-> "none", enc |-> FALSE, comp |-> TRUE, signed |-> TRUE,
     mkinds |-> <<"flip0", "flip7", "set00", "setff">>, perbyte |-> 4, stride |-> 1,
     zero4 |-> TRUE, swap |-> FALSE, big |-> k, sweep |-> "around_sig"]
BigCases == {BigSigned(k) : k \in {1, 36, 71, 300}}

\* intact => verifies, for tables around / above the 0x4000-byte raw chunk (block table = 16 bytes per file)
IntactCases == {[kind |-> "intact_only", ver |-> 4, attrs |-> a, nfiles |-> n]
                  : a \in {"none"}, n \in {1022, 1023, 1024, 1025, 1100, 2049}}
               \cup {[kind |-> "intact_only", ver |-> 4, attrs |-> "full", nfiles |-> 1100],
                     [kind |-> "intact_only", ver |-> 2, attrs |-> "crc32", nfiles |-> 1025]}

\* signatures of many distinct messages verify (about 1 RSA value in 256 has a zero top byte and needs left padding:
\* P(no such value among n messages) = (255/256)^n : n = 2000 -> 4.0e-4, n = 8000 -> 2.5e-14)
SigManyCases == {[kind |-> "sigmany", count |-> IF Thorough THEN 8000 ELSE 2000]}
\* the signature area at every alignment relative to the 64 KiB digest unit (74 placements incl. all 71 straddling ones)
SigAlignCases == {[kind |-> "sigalign", unit |-> 65536, after |-> 128]}

SigCases == {[kind |-> "sigbytes", len |-> l, allbits |-> Thorough] : l \in IF Thorough THEN {1, 64, 300, 1000} ELSE {64, 300}}

Cases == SetToSeq({ArchiveCase(c) : c \in Chosen}) \o SetToSeq(BigCases) \o SetToSeq(SigCases)
         \o SetToSeq(IntactCases) \o SetToSeq(SigManyCases) \o SetToSeq(SigAlignCases)
ASSUME ndJsonSerialize(IOEnv.CASES, Cases)
ASSUME PrintT(<<"GENERATED", Len(Cases), "archives", Cardinality(Chosen)>>)
=============================================================================
