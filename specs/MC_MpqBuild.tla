----------------------------- MODULE MC_MpqBuild -----------------------------
(* Stage (A) for C01: small-scope instance of MpqBuild.  Names are real byte strings hashed with the   *)
(* MpqCrypto reference (two characters over an alphabet closed under the spelling operations); three   *)
(* files, two of them sharing a home slot, in a 4-slot table; two absent names, one colliding with a   *)
(* present name; sector size 4 (or, in the "limits" configuration, 4096 so that the 1000:1 region of   *)
(* the codec layer is reachable).                                                                      *)
EXTENDS MpqBuild, MpqBuildNames, IOUtils

Alphabet == {97, 65, 66, 98, 47, 92, 120, 88, 46}
NameU == {<<c1, c2>> : c1 \in Alphabet, c2 \in Alphabet}
\* literal tables (module MpqBuildNames), re-derived from the MpqCrypto reference by MC_MpqBuildHash
MCNameHash(nm) == LitNameHash(nm)
MCFileKey(nm)  == LitFileKey(nm)
MCHet8(nm)     == LitHet8(nm)
MCBetL3(nm)    == LitBetL3(nm)
MCBetOaat(nm)  == LitBetOaat(nm)
NHTable == [nm \in NameU |-> LitNameHash(nm)]      \* (used by the ASSUMEs only)
FKTable == [nm \in NameU |-> LitFileKey(nm)]

SameName(n1, n2) == LitNameHash(n1).a = LitNameHash(n2).a /\ LitNameHash(n1).b = LitNameHash(n2).b
N1 == <<47, 97>>        \* "/a": plain name "a"; its slash-flipped spelling "\a" has the same plain name
N2 == <<66, 120>>       \* "Bx"
Others == {nm \in NameU : ~SameName(nm, N1) /\ ~SameName(nm, N2)}
\* literal (found by TLC with CHOOSE over Others; the conditions are ASSUMEd below)
N3 == <<46, 66>>        \* ".B": shares the home slot of N1
A1 == <<47, 46>>        \* "/.": absent, shares the home slot of N1 and N3
A2 == <<46, 46>>        \* "..": absent, other home slot
ASSUME {N3, A1, A2} \subseteq Others /\ ~SameName(A1, N3) /\ ~SameName(A2, N3) /\ NHTable[A2].home # NHTable[N1].home
AbsentNames == {A1, A2}
ASSUME NHTable[N3].home = NHTable[N1].home /\ NHTable[A1].home = NHTable[N1].home
\* the fold law the spellings rely on (MpqCrypto, also checked for all printable pairs in MC_MpqCrypto)
ASSUME \A nm \in NameU : \A sp \in Spellings : SameName(nm, Spell(nm, sp)) /\ FKTable[Spell(nm, sp)] = FKTable[nm]
                                               /\ NHTable[Spell(nm, sp)].home = NHTable[nm].home

\* (the quick tier drops two of the lengths and one method; VERIF_TIER is set by vcheck)
QuickTier == "VERIF_TIER" \in DOMAIN IOEnv /\ IOEnv.VERIF_TIER = "quick"
\* table compression (constant-level): whatever the codec achieves, the reader never gets the table back; it is
\* dropped when the codec shrank it by two bytes or more and parsed one byte off otherwise
ASSUME \A n \in {20, 100, 1000} : \A c \in {1, n \div 2, n - 2, n - 1, n, n + 5} :
          /\ DevTableCompression(n, c)
          /\ (TableOutcome(n, c) = "misaligned") <=> TableMisaligned(n, c)
          /\ (TableOutcome(n, c) = "ignored") <=> c < n - 2
Small == SectorSize = 4
MCLens == IF Small THEN (IF QuickTier THEN {0, 3, 4, 5, 9, 13} ELSE {0, 1, 3, 4, 5, 8, 9, 13}) ELSE {SectorSize, SectorSize + 1, 2 * SectorSize + 200}
MCMethods == {0, ZLIB, PKWARE, ADPCM_STEREO} \cup (IF QuickTier THEN {} ELSE {SPARSE, ADPCM_STEREO + BZIP2})
F1Set == {[name |-> N1, len |-> n, cls |-> cl, method |-> m, enc |-> en] :
            n \in MCLens, cl \in {"run", "edge", "random"}, m \in MCMethods, en \in {"plain", "enc", "encfix"}}
F2 == [name |-> N2, len |-> 5, cls |-> "run", method |-> ZLIB, enc |-> "encfix"]
F3 == [name |-> N3, len |-> 4, cls |-> "edge", method |-> ZLIB, enc |-> "enc"]
Dup == [name |-> Spell(N2, "lower"), len |-> 1, cls |-> "run", method |-> 0, enc |-> "plain"]
\* a name whose 8-bit HET hash is 0xFF, the free-slot marker (DevHet8FF)
FFName == <<120, 46>>      \* "x."
ASSUME LitHet8(FFName) = 255
FFf == [name |-> FFName, len |-> 3, cls |-> "run", method |-> ZLIB, enc |-> "plain"]
FileSeqs == {<<f1, F2, F3>> : f1 \in F1Set} \cup {<<F2, f1, F3>> : f1 \in F1Set} \cup {<<F2, Dup, F3>>}
            \cup {<<F2, FFf, F3>>, <<FFf, F3, F2>>}

\* Vacuity guard without TLC's -coverage (its cost-model construction does not terminate in reasonable time on
\* this module graph): every action reports itself once per worker through a TLC register.
Mark(reg, name) == IF TLCGet(reg) = 0 THEN TLCSet(reg, 1) /\ PrintT(<<"ACTION", name>>) ELSE TRUE
MCInit == BInitWith(FileSeqs) /\ \A reg \in 1..11 : TLCSet(reg, 0)
MCNext == \/ BuildFailCodec /\ Mark(1, "BuildFailCodec")
          \/ WriteSingleUnit /\ Mark(2, "WriteSingleUnit")
          \/ WriteSector /\ Mark(3, "WriteSector")
          \/ FinishFile /\ Mark(4, "FinishFile")
          \/ AddHash /\ Mark(5, "AddHash")
          \/ \E i \in 1..3 : \E sp \in (IF QuickTier /\ i > 1 THEN {"asis", "flip"} ELSE Spellings) :
                 ReadFile(i, sp) /\ Mark(6, "ReadFile")
          \/ \E nm \in AbsentNames : \E sp \in Spellings : ReadAbsent(nm, sp) /\ Mark(7, "ReadAbsent")
          \/ HetProbe /\ Mark(8, "HetProbe")
          \/ BetVerify /\ Mark(9, "BetVerify")
          \/ ClassicFallback /\ Mark(10, "ClassicFallback")
          \/ Deliver /\ Mark(11, "Deliver")

\* "final key 0" configurations (MC_MpqBuild_zkey / MC_MpqBuild_negzkey): the literal key of N1 is replaced by the value
\* that makes the FIX_KEY key (base + pos) XOR size of a 9-byte FIRST member (3 sectors, written at HeaderSize) exactly 0
ZKeyBase == <<65535, 65536 - HeaderSize + 9>>
ZFileKey(nm) == IF SameName(nm, N1) THEN ZKeyBase ELSE LitFileKey(nm)
ASSUME FixKey(ZKeyBase, WFromNat(HeaderSize), WFromNat(9)) = <<0, 0>>
ZF1Set == {[name |-> N1, len |-> n, cls |-> cl, method |-> m, enc |-> "encfix"] :
             n \in {4, 9}, cl \in {"run", "random"}, m \in {0, ZLIB}}
ZFileSeqs == {<<f1, F2, F3>> : f1 \in ZF1Set}
MCInitZ == BInitWith(ZFileSeqs) /\ \A reg \in 1..11 : TLCSet(reg, 0)
NegReaderDecryptsOn == "key"
\* a sectored encrypted block whose key is 0 exists in some reachable state (negative control of the configuration itself)
ZeroKeyBlock == \E j \in 1..Len(vblocks) : "ENCRYPTED" \in vblocks[j].flags /\ ~vblocks[j].single /\ vblocks[j].key = <<0, 0>>
\* every inexact read in these configurations is a read of a zero-key block
OnlyZeroKeyFails == (vlast.kind = "file" /\ vlast.out # "exact") => vblocks[vlast.file].key = <<0, 0>>

NegBetWidth == "fsize"
\* the driver's huge-member cases (Gen_MpqBuild!HugeCases) do cross the 64-bit entry width (the bound is an upper estimate
\* with one bit of slack per field: the ordinary shift-8 file set has a real width of 63 bits and a bound of 66)
ASSUME BetEntryWidthBound(2^22 - 100, 2^22 + 60) > 64 /\ BetEntryWidthBound(3 * 2^20 + 1, 3 * 2^20 + 200) > 64
\* Negative controls (cfg MC_MpqBuild_neg): invariants that MUST be violated on the as-is model -- they state the
\* absence of the named deviations.  The check fails stage A if TLC does not find the counterexamples.
NegNoFlagDeviation == \A j \in 1..Len(vblocks) : ~DevSectoredNoCompressFlag(vblocks[j])
NegStrictReadBack  == vlast.kind = "file" => vlast.out = "exact"

\* reads are observations: once one has been made the behaviour ends
MCNextOnce == vlast = NoObs /\ MCNext
=============================================================================
