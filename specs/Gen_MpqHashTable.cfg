CONSTANTS
  H <- GH
  UNames <- GUNames
  Home <- GHome
  InitSeq <- GInitSeq
  InitTok <- GInitTok
  InitRaw = {"pad"}
  SubOf <- GSubOf
  HasLF0 <- GLF
  HasAT0 <- GAT
  Slack <- GSlack
  FU = 32
  Ver <- GVer
  MaxCalls = 100000
INIT GInitState
NEXT GNext
CHECK_DEADLOCK FALSE
