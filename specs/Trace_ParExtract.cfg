CONSTANT PresentAt <- TracePresentAt
CONSTANT StaleReuse = FALSE
CONSTANT SharedHandle = FALSE
INIT Init
NEXT Next
POSTCONDITION Accepted
CHECK_DEADLOCK FALSE
