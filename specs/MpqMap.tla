------------------------------- MODULE MpqMap -------------------------------
(***************************************************************************************************)
(* C06, abstract (verdict) specification: an archive opened for modification is a persistent map   *)
(* from names to content tokens.                                                                   *)
(*                                                                                                 *)
(*   vdisk   what a fresh Archive::open of the file reads: name -> token, None for absent           *)
(*   vsess   the map as seen by the open MutableArchive session                                    *)
(*   vopen   a session is open                                                                     *)
(*   vdirty  the session holds changes that are not on disk yet                                    *)
(*   vcap    capacity of the name table (hash table size) ; vextra = live entries that are not in  *)
(*           the universe of names (special files): a map with capacity may refuse a NEW name only *)
(*           when it is full                                                                       *)
(*                                                                                                 *)
(* One action per public call of MutableArchive (modification.rs).  A call that reports failure    *)
(* is a *Fail action: it leaves every variable unchanged, and it is only enabled where a plain     *)
(* map with capacity would refuse the operation.  Close is flush-on-drop.                          *)
(* The refinement MpqHashTable => MpqMap is checked by TLC in MC_MpqHashTable; recorded runs of    *)
(* the real code are validated against this module by Trace_MpqMap.                                *)
(***************************************************************************************************)
EXTENDS Naturals, FiniteSets

CONSTANTS Names,      \* universe of names of the model instance (only used by Next / TypeOK)
          Toks        \* content tokens of the model instance (only used by Next / TypeOK)

None == "none"        \* absent; never a content token

VARIABLES vdisk, vsess, vopen, vdirty, vcap, vextra
mvars == <<vdisk, vsess, vopen, vdirty, vcap, vextra>>

Present(m) == {n \in DOMAIN m : m[n] # None}
Live(m)    == Cardinality(Present(m)) + vextra          \* occupied entries of the name table
Full(m)    == Live(m) >= vcap

MapInit(m0, cap, extra) ==
    /\ vdisk = m0 /\ vsess = m0 /\ vopen = FALSE /\ vdirty = FALSE /\ vcap = cap /\ vextra = extra

(* Every action is  guard /\ effect ; the guards are named (Can...) so that the trace specification *)
(* can tell "no action explains this event" without leaving TLC's evaluable fragment.              *)
CanOpen == ~vopen
Open == /\ CanOpen
        /\ vopen' = TRUE /\ vsess' = vdisk /\ vdirty' = FALSE
        /\ UNCHANGED <<vdisk, vcap, vextra>>

\* add_file_data(name, data, options): insert or (replace_existing) overwrite
CanAdd(n, rep) == /\ vopen
                  /\ \/ vsess[n] = None /\ ~Full(vsess)
                     \/ vsess[n] # None /\ rep
Add(n, c, rep) ==
        /\ CanAdd(n, rep) /\ c # None
        /\ vsess' = [vsess EXCEPT ![n] = c] /\ vdirty' = TRUE
        /\ UNCHANGED <<vdisk, vopen, vcap, vextra>>

\* Err(FileExists): the name is present and replace_existing = false
CanAddFailExists(n, rep) == vopen /\ vsess[n] # None /\ ~rep
AddFailExists(n, rep) == CanAddFailExists(n, rep) /\ UNCHANGED mvars
\* Err(table full): a new name and no free entry
CanAddFailFull(n) == vopen /\ vsess[n] = None /\ Full(vsess)
AddFailFull(n)    == CanAddFailFull(n) /\ UNCHANGED mvars

CanRemove(n) == vopen /\ vsess[n] # None
Remove(n) == /\ CanRemove(n)
             /\ vsess' = [vsess EXCEPT ![n] = None] /\ vdirty' = TRUE
             /\ UNCHANGED <<vdisk, vopen, vcap, vextra>>
CanRemoveFail(n) == vopen /\ vsess[n] = None
RemoveFail(n) == CanRemoveFail(n) /\ UNCHANGED mvars

CanRename(a, b) == vopen /\ a # b /\ vsess[a] # None /\ vsess[b] = None
Rename(a, b) == /\ CanRename(a, b)
                /\ vsess' = [vsess EXCEPT ![a] = None, ![b] = vsess[a]] /\ vdirty' = TRUE
                /\ UNCHANGED <<vdisk, vopen, vcap, vextra>>
CanRenameFail(a, b) == vopen /\ (vsess[a] = None \/ vsess[b] # None)
RenameFail(a, b) == CanRenameFail(a, b) /\ UNCHANGED mvars

\* flush(): everything the session did is on disk
Flush   == /\ vopen /\ vdisk' = vsess /\ vdirty' = FALSE /\ UNCHANGED <<vsess, vopen, vcap, vextra>>
\* compact(): same map in a new file (also makes it durable); the new file has a table of its own
\* size and its own special files, so the capacity figures are re-read, not preserved
CompactAny == /\ vopen /\ vdisk' = vsess /\ vdirty' = FALSE /\ UNCHANGED <<vsess, vopen>>
Compact(cap2, extra2) == CompactAny /\ vcap' = cap2 /\ vextra' = extra2
\* compact() refused (an archive whose files cannot all be named - no complete listfile - cannot be
\* rebuilt without losing names): like every refusal it changes nothing
CompactFail == vopen /\ UNCHANGED mvars
\* drop(MutableArchive): flush on drop
Close   == /\ vopen /\ vdisk' = vsess /\ vopen' = FALSE /\ vdirty' = FALSE /\ UNCHANGED <<vsess, vcap, vextra>>

\* Observation of a fresh Archive::open + read_file(n) while no session is open
ReadIs(n, res, t) == /\ ~vopen
                     /\ \/ vdisk[n] = None /\ res = "notfound"
                        \/ vdisk[n] # None /\ res = "ok" /\ t = vdisk[n]

MapNext == \/ Open \/ Flush \/ CompactAny \/ CompactFail \/ Close
           \/ \E n \in Names, c \in Toks, rep \in BOOLEAN : Add(n, c, rep)
           \/ \E n \in Names, rep \in BOOLEAN : AddFailExists(n, rep)
           \/ \E n \in Names : AddFailFull(n) \/ Remove(n) \/ RemoveFail(n)
           \/ \E a \in Names, b \in Names : Rename(a, b) \/ RenameFail(a, b)

TypeOK == /\ vdisk \in [Names -> Toks \cup {None}] /\ vsess \in [Names -> Toks \cup {None}]
          /\ vopen \in BOOLEAN /\ vdirty \in BOOLEAN
\* a clean session shows what is on disk; without a session nothing is pending
CleanMeansEqual == (~vdirty) => (vsess = vdisk)
=============================================================================
