\* as coded: update_attributes guesses the stored row count - TLC must exhibit a row that does not describe its block
CONSTANTS
  Names = {"a", "b"}
  Toks = {"t1"}
  LfBig = TRUE
  QDevs = {"parseshift"}
  MaxBlocks = 4
  StartKinds <- KindsQuick
SPECIFICATION MCSpec
CONSTRAINT Bound
INVARIANT AttrRowsDescribe
CHECK_DEADLOCK FALSE
