//! X02 driver: positional readers (plain / mmap / async) over one file, and the security session
//! state machine (SessionTracker, DecompressionMonitor, AsyncDecompressionMonitor,
//! AdaptiveCompressionLimits, validate_decompression_operation) of wow-mpq.
//! The driver replays the TLC-generated operation sequences on the real objects and records one
//! event per call. It never compares anything: Trace_MpqIo / Trace_MpqSecurity decide.
use std::io::{Read, Seek, SeekFrom, Write};
use std::pin::Pin;
use std::sync::atomic::{AtomicBool, AtomicUsize, Ordering};
use std::sync::Arc;
use std::task::{Context, Poll};
use std::time::Duration;

use tokio::io::{AsyncRead, AsyncSeek, ReadBuf};
use wverif_common::*;

use wow_mpq::io::{
    AsyncArchiveReader, AsyncConfig, AsyncDecompressionMonitor, AsyncOperationStats, BufferedMpqReader, MemoryMapConfig,
    MemoryMapManager, MemoryMappedArchive, MpqRead,
};
use wow_mpq::security::{
    validate_decompression_operation, AdaptiveCompressionLimits, DecompressionMonitor, SecurityLimits, SessionTracker,
};

// ---------------------------------------------------------------------------------------------
// numbers near both ends of u64: [0,n] = n, [1,k] = u64::MAX - k, [2,0] = anything in between
// ---------------------------------------------------------------------------------------------
const EDGE: u64 = 1 << 30;
fn n64(v: u64) -> Value {
    if v < EDGE {
        json!([0, v])
    } else if u64::MAX - v < EDGE {
        json!([1, u64::MAX - v])
    } else {
        json!([2, 0])
    }
}
fn un64(v: &Value) -> u64 {
    let a = v.as_array().unwrap_or_else(|| tool_error("n64: not an array"));
    let t = a[0].as_u64().unwrap();
    let x = a[1].as_u64().unwrap();
    match t {
        0 => x,
        1 => u64::MAX - x,
        _ => tool_error("n64: bad tag"),
    }
}

/// byte i of the test file (TLC regenerates it: MpqIo!Byte)
fn byte_at(i: u64, salt: u64) -> u8 {
    (((i % 251) + (i / 251) * 7 + salt) % 256) as u8
}

// ---------------------------------------------------------------------------------------------
// the async source: a real file read with blocking calls inside poll_* (deterministic, no
// spawn_blocking), with a per-call chunk limit (short reads) and a stall switch (never ready)
// ---------------------------------------------------------------------------------------------
struct Ctl {
    stall: AtomicBool,
    chunk: AtomicUsize,
}
struct Src {
    f: std::fs::File,
    ctl: Arc<Ctl>,
    pending: Option<std::io::Result<u64>>,
}
impl AsyncRead for Src {
    fn poll_read(self: Pin<&mut Self>, _cx: &mut Context<'_>, buf: &mut ReadBuf<'_>) -> Poll<std::io::Result<()>> {
        let me = self.get_mut();
        if me.ctl.stall.load(Ordering::SeqCst) {
            return Poll::Pending; // nobody wakes us: only a timer can end this call
        }
        let cap = buf.remaining();
        let chunk = me.ctl.chunk.load(Ordering::SeqCst);
        let lim = if chunk > 0 { cap.min(chunk) } else { cap };
        let dst = buf.initialize_unfilled_to(lim);
        match me.f.read(dst) {
            Ok(n) => {
                buf.advance(n);
                Poll::Ready(Ok(()))
            }
            Err(e) => Poll::Ready(Err(e)),
        }
    }
}
impl AsyncSeek for Src {
    fn start_seek(self: Pin<&mut Self>, pos: SeekFrom) -> std::io::Result<()> {
        let me = self.get_mut();
        me.pending = Some(me.f.seek(pos));
        Ok(())
    }
    fn poll_complete(self: Pin<&mut Self>, _cx: &mut Context<'_>) -> Poll<std::io::Result<u64>> {
        let me = self.get_mut();
        match me.pending.take() {
            Some(r) => Poll::Ready(r),
            None => Poll::Ready(me.f.stream_position()),
        }
    }
}

// ---------------------------------------------------------------------------------------------
// observations
// ---------------------------------------------------------------------------------------------
fn obs_bytes(r: &str, data: &[u8]) -> Value {
    let n = data.len();
    let head: Vec<u8> = data.iter().take(8).cloned().collect();
    let tail: Vec<u8> = data[n.saturating_sub(8)..].to_vec();
    json!({"r": r, "n": n, "head": head, "tail": tail, "tok": if r == "ok" { tok(data) } else { "-".to_string() }})
}
fn obs_fail(r: String) -> Value {
    json!({"r": r, "n": 0, "head": [], "tail": [], "tok": "-"})
}
fn stats_json(s: &AsyncOperationStats) -> Value {
    json!({"total": n64(s.total_operations), "completed": n64(s.completed_operations), "cancelled": n64(s.cancelled_operations),
           "timeout": n64(s.timeout_operations), "active": n64(s.active_operations), "bytes": n64(s.total_bytes_read),
           "peak": n64(s.peak_memory_usage)})
}
fn sess_json(s: &SessionTracker) -> Value {
    let (t, f, _) = s.get_stats();
    json!({"total": n64(t), "files": n64(f as u64)})
}
fn class<T>(o: &Outcome<wow_mpq::Result<T>>) -> String {
    match o {
        Outcome::Done(r) => res_class(r),
        Outcome::Panic(_) => "panic".into(),
        Outcome::Hang => "hang".into(),
    }
}
fn panic_msg<T>(o: &Outcome<T>) -> String {
    match o {
        Outcome::Panic(m) => m.clone(),
        _ => String::new(),
    }
}

fn limits_from(c: &Value) -> SecurityLimits {
    let mut l = SecurityLimits::default();
    if let Some(v) = c.get("maxarch") {
        l.max_archive_size = un64(v);
    }
    if let Some(v) = c.get("maxdec") {
        l.max_decompressed_size = un64(v);
    }
    if let Some(v) = c.get("maxsess") {
        l.max_session_decompressed = un64(v);
    }
    if let Some(v) = c.get("ratio") {
        l.max_compression_ratio = v.as_u64().unwrap() as u32;
    }
    if let Some(v) = c.get("pattern") {
        l.enable_pattern_detection = v.as_bool().unwrap();
    }
    if let Some(v) = c.get("adaptive") {
        l.enable_adaptive_limits = v.as_bool().unwrap();
    }
    l
}

fn new_rt() -> tokio::runtime::Runtime {
    tokio::runtime::Builder::new_current_thread()
        .enable_time()
        .start_paused(true)
        .build()
        .unwrap_or_else(|e| tool_error(&format!("tokio runtime: {e}")))
}

// ---------------------------------------------------------------------------------------------
// kind "io"
// ---------------------------------------------------------------------------------------------
fn run_io(t: &Trace, id: &str, c: &Value, scratch: &Scratch, idx: usize) {
    let len = gi(c, "len") as u64;
    let salt = gi(c, "salt") as u64;
    let cfg = &c["cfg"];
    let content: Vec<u8> = (0..len).map(|i| byte_at(i, salt)).collect();
    let path = scratch.file(&format!("f{idx}.bin"));
    {
        let mut f = std::fs::File::create(&path).unwrap_or_else(|e| tool_error(&format!("create: {e}")));
        f.write_all(&content).unwrap_or_else(|e| tool_error(&format!("write: {e}")));
    }
    let limits = limits_from(cfg);
    let mcfg = MemoryMapConfig {
        max_map_size: un64(&cfg["maxmap"]),
        enable_mapping: gb(cfg, "enable"),
        read_ahead: gb(cfg, "readahead"),
        advisory_locking: false,
    };
    let session = Arc::new(SessionTracker::new());
    let acfg = AsyncConfig {
        max_async_memory: gi(cfg, "maxasync") as usize,
        max_concurrent_extractions: gi(cfg, "maxext") as usize,
        max_concurrent_ops: gi(cfg, "maxops") as usize,
        collect_metrics: true,
        ..Default::default()
    };
    let ctl = Arc::new(Ctl { stall: AtomicBool::new(false), chunk: AtomicUsize::new(gi(cfg, "chunk") as usize) });
    let src = Src {
        f: std::fs::File::open(&path).unwrap_or_else(|e| tool_error(&format!("open: {e}"))),
        ctl: ctl.clone(),
        pending: None,
    };
    let rt = new_rt();
    let areader = {
        let _g = rt.enter();
        AsyncArchiveReader::with_security_limits(src, acfg, session.clone(), limits.clone())
    };
    let mut plain = BufferedMpqReader::new(std::fs::File::open(&path).unwrap_or_else(|e| tool_error(&format!("open: {e}"))));
    let mut manager = MemoryMapManager::new(mcfg.clone(), limits.clone(), session.clone());
    let mut mm: Option<MemoryMappedArchive> = None;

    t.ev(json!({"ev":"Reset","case":id,"kind":"io","len":len,"salt":salt,"ftok":tok(&content),"cfg":cfg}));

    for op in ga(c, "ops") {
        match gs(op, "op") {
            "open" => {
                let via = gs(op, "via");
                mm = None; // the previous mapping (if any) is dropped first
                let should = manager.should_attempt_mapping(len);
                let o = guarded(|| match via {
                    "new" => MemoryMappedArchive::new(&path, mcfg.clone(), limits.clone(), session.clone()),
                    "from_file" => match std::fs::File::open(&path) {
                        Ok(f) => MemoryMappedArchive::from_file(f, mcfg.clone(), limits.clone(), session.clone()),
                        Err(e) => tool_error(&format!("open: {e}")),
                    },
                    _ => manager.create_mapping(&path),
                });
                let r = class(&o);
                let g = manager.global_stats().clone();
                let mut e = json!({"ev":"Open","case":id,"via":via,"r":r,"should":should,"pmsg":panic_msg(&o),
                    "g_bytes": n64(g.bytes_mapped), "g_active": g.active_mappings, "g_failed": g.failed_mappings,
                    "fsize": n64(0), "mapped": n64(0), "active": 0, "healthy": false, "whole": obs_fail("-".into())});
                if let Outcome::Done(Ok(m)) = o {
                    e["fsize"] = n64(m.file_size());
                    e["mapped"] = n64(m.stats().bytes_mapped);
                    e["active"] = json!(m.stats().active_mappings);
                    e["healthy"] = json!(m.is_healthy());
                    e["whole"] = obs_bytes("ok", m.as_slice());
                    mm = Some(m);
                }
                t.ev(e);
            }
            "read" => {
                let off = un64(&op["off"]);
                let rl = gi(op, "len") as usize;
                let base = json!({"case":id,"off":op["off"],"len":rl});
                let mk = |ev: &str, res: Value, extra: Value| {
                    let mut e = base.clone();
                    e["ev"] = json!(ev);
                    e["res"] = res;
                    if let Some(m) = extra.as_object() {
                        for (k, v) in m {
                            e[k] = v.clone();
                        }
                    }
                    e
                };
                // plain reader: seek + read_exact
                {
                    let mut buf = vec![0xAAu8; rl];
                    let o = guarded(|| plain.read_at(off, &mut buf));
                    let r = class(&o);
                    let res = if r == "ok" { obs_bytes("ok", &buf) } else { obs_fail(r) };
                    t.ev(mk("PRead", res, json!({"pmsg": panic_msg(&o)})));
                }
                if let Some(m) = mm.as_ref() {
                    let mut buf = vec![0xAAu8; rl];
                    let o = guarded(|| m.read_at(off, &mut buf));
                    let r = class(&o);
                    let res = if r == "ok" { obs_bytes("ok", &buf) } else { obs_fail(r) };
                    t.ev(mk("MRead", res, json!({"api":"read_at","pmsg": panic_msg(&o)})));
                    let o = guarded(|| m.get_slice(off, rl).map(|s| s.to_vec()));
                    let r = class(&o);
                    let res = match &o {
                        Outcome::Done(Ok(v)) => obs_bytes("ok", v),
                        _ => obs_fail(r),
                    };
                    t.ev(mk("MRead", res, json!({"api":"get_slice","pmsg": panic_msg(&o)})));
                }
                // async read_at (may be short) and read_exact_at
                {
                    let mut buf = vec![0xAAu8; rl];
                    let o = guarded(|| rt.block_on(areader.read_at(off, &mut buf)));
                    let r = class(&o);
                    let res = match &o {
                        Outcome::Done(Ok(n)) if *n <= rl => obs_bytes("ok", &buf[..*n]),
                        Outcome::Done(Ok(_)) => obs_fail("overlong".into()),
                        _ => obs_fail(r),
                    };
                    t.ev(mk("ARead", res, json!({"st": stats_json(&areader.get_stats()), "pmsg": panic_msg(&o)})));
                    let mut buf = vec![0xAAu8; rl];
                    let o = guarded(|| rt.block_on(areader.read_exact_at(off, &mut buf)));
                    let r = class(&o);
                    let res = if r == "ok" { obs_bytes("ok", &buf) } else { obs_fail(r) };
                    t.ev(mk("AExact", res, json!({"st": stats_json(&areader.get_stats()), "pmsg": panic_msg(&o)})));
                }
            }
            "stall" => {
                // the source never becomes ready: only the reader's own operation timeout can end the call
                ctl.stall.store(true, Ordering::SeqCst);
                let mut buf = vec![0u8; 4];
                let o = guarded(|| rt.block_on(areader.read_at(0, &mut buf)));
                ctl.stall.store(false, Ordering::SeqCst);
                t.ev(json!({"ev":"ATimeout","case":id,"r":class(&o),"st":stats_json(&areader.get_stats()),"pmsg":panic_msg(&o)}));
            }
            "drop" => {
                // the caller gives up: the read future is dropped while the source is not ready
                ctl.stall.store(true, Ordering::SeqCst);
                let o = guarded(|| {
                    rt.block_on(async {
                        let mut buf = vec![0u8; 4];
                        let gave_up = tokio::time::timeout(Duration::from_millis(5), areader.read_at(0, &mut buf)).await.is_err();
                        tokio::task::yield_now().await;
                        gave_up
                    })
                });
                ctl.stall.store(false, Ordering::SeqCst);
                let r = match &o {
                    Outcome::Done(true) => "dropped",
                    Outcome::Done(false) => "completed",
                    Outcome::Panic(_) => "panic",
                    Outcome::Hang => "hang",
                };
                t.ev(json!({"ev":"ADrop","case":id,"r":r,"st":stats_json(&areader.get_stats()),"pmsg":panic_msg(&o)}));
            }
            "extract" => {
                let reqs: Vec<(String, u64, u64)> = ga(op, "reqs")
                    .iter()
                    .enumerate()
                    .map(|(i, q)| (format!("f{i}"), un64(&q[0]), un64(&q[1])))
                    .collect();
                let o = guarded(|| {
                    rt.block_on(async {
                        let r = areader.extract_files_concurrent(reqs.clone()).await;
                        // let detached tasks of a failed batch run to completion before the snapshot
                        for _ in 0..64 {
                            tokio::task::yield_now().await;
                        }
                        r
                    })
                });
                let r = class(&o);
                let items: Vec<Value> = match &o {
                    Outcome::Done(Ok(v)) => v.iter().map(|(name, d)| {
                        let mut b = obs_bytes("ok", d);
                        b["name"] = json!(name);
                        b
                    }).collect(),
                    _ => vec![],
                };
                t.ev(json!({"ev":"Extract","case":id,"reqs":op["reqs"],"r":r,"items":items,"st":stats_json(&areader.get_stats()),
                    "sess":sess_json(&session),"pmsg":panic_msg(&o)}));
            }
            "shutdown" => {
                let o = guarded(|| rt.block_on(areader.shutdown()));
                t.ev(json!({"ev":"Shutdown","case":id,"r":class(&o),"st":stats_json(&areader.get_stats()),"pmsg":panic_msg(&o)}));
            }
            other => tool_error(&format!("io: unknown op {other}")),
        }
    }
    drop(mm);
    let _ = std::fs::remove_file(&path);
}

// ---------------------------------------------------------------------------------------------
// kind "sec"
// ---------------------------------------------------------------------------------------------
enum Mon {
    Sync(DecompressionMonitor),
    Async(AsyncDecompressionMonitor),
}
impl Mon {
    fn bytes(&self) -> u64 {
        match self {
            Mon::Sync(m) => m.get_stats().0,
            Mon::Async(m) => m.get_stats().0,
        }
    }
}

fn run_sec(t: &Trace, id: &str, c: &Value) {
    let lim = &c["lim"];
    let limits = limits_from(lim);
    let session = SessionTracker::new();
    let rt = new_rt();
    let mut mon: Option<Mon> = None;
    t.ev(json!({"ev":"Reset","case":id,"kind":"sec","lim":lim}));
    for op in ga(c, "ops") {
        match gs(op, "op") {
            "record" => {
                let b = un64(&op["bytes"]);
                let o = guarded(|| session.record_decompression(b));
                let r = match o {
                    Outcome::Done(()) => "ok",
                    Outcome::Panic(_) => "panic",
                    Outcome::Hang => "hang",
                };
                t.ev(json!({"ev":"Record","case":id,"bytes":op["bytes"],"r":r,"sess":sess_json(&session)}));
            }
            "check" => {
                let o = guarded(|| session.check_session_limits(&limits));
                t.ev(json!({"ev":"Check","case":id,"r":class(&o),"sess":sess_json(&session)}));
            }
            "checkadd" => {
                let a = un64(&op["add"]);
                let o = guarded(|| session.check_session_limits_with_addition(a, &limits));
                t.ev(json!({"ev":"CheckAdd","case":id,"add":op["add"],"r":class(&o),"sess":sess_json(&session)}));
            }
            "validate" => {
                let cs = gi(op, "csize") as u64;
                let ds = gi(op, "dsize") as u64;
                let method = gi(op, "method") as u8;
                let p = match gs(op, "path") {
                    "none" => None,
                    "nested" => Some("Data\\inner.MPQ"),
                    _ => Some("Data\\file.txt"),
                };
                let o = guarded(|| validate_decompression_operation(cs, ds, method, p, &session, &limits));
                let r = class(&o);
                let mut mmax = n64(0);
                if let Outcome::Done(Ok(m)) = o {
                    mmax = n64(m.max_size);
                    mon = Some(Mon::Sync(m));
                }
                t.ev(json!({"ev":"Validate","case":id,"csize":cs,"dsize":ds,"method":method,"path":gs(op,"path"),"r":r,
                    "mmax":mmax,"sess":sess_json(&session)}));
            }
            "amon" => {
                // AsyncArchiveReader::create_decompression_monitor over an in-memory source
                let ds = gi(op, "dsize") as u64;
                let method = gi(op, "method") as u8;
                let o = guarded(|| {
                    let _g = rt.enter();
                    let rd = AsyncArchiveReader::with_security_limits(
                        std::io::Cursor::new(vec![0u8; 16]),
                        AsyncConfig::default(),
                        Arc::new(session.clone()),
                        limits.clone(),
                    );
                    rd.create_decompression_monitor(ds, method, Some("Data\\file.txt")).map(|m| m.get_buffer_size())
                });
                t.ev(json!({"ev":"AMon","case":id,"dsize":ds,"method":method,"r":class(&o),"sess":sess_json(&session)}));
            }
            "mon_new" => {
                let max = un64(&op["max"]);
                let zero = gs(op, "tmo") == "zero";
                let tmo = if zero { Duration::from_nanos(0) } else { Duration::from_secs(86400) };
                let kind = gs(op, "mkind");
                let m = if kind == "async" {
                    let _g = rt.enter();
                    Mon::Async(AsyncDecompressionMonitor::new(max, tmo, 4096))
                } else {
                    Mon::Sync(DecompressionMonitor::new(max, tmo))
                };
                if zero {
                    // a zero time budget is exhausted as soon as any time has passed: let it pass now,
                    // on both clocks, so that the first check is deterministic
                    std::thread::sleep(Duration::from_millis(2));
                    rt.block_on(async { tokio::time::advance(Duration::from_millis(2)).await });
                }
                let b = m.bytes();
                mon = Some(m);
                t.ev(json!({"ev":"MonNew","case":id,"max":op["max"],"tmo":gs(op,"tmo"),"mkind":kind,"bytes":n64(b)}));
            }
            "mon_tick" => {
                // time passes (environment step): real sleep for the std clock, advance for tokio's paused clock
                std::thread::sleep(Duration::from_millis(2));
                rt.block_on(async { tokio::time::advance(Duration::from_millis(2)).await });
                let b = mon.as_ref().map(|m| m.bytes()).unwrap_or(0);
                t.ev(json!({"ev":"MonTick","case":id,"bytes":n64(b)}));
            }
            "mon_check" => {
                let size = un64(&op["size"]);
                let Some(m) = mon.as_ref() else { continue };
                let o = guarded(|| match m {
                    Mon::Sync(m) => m.check_progress(size),
                    Mon::Async(m) => rt.block_on(m.check_progress(size)),
                });
                t.ev(json!({"ev":"MonCheck","case":id,"size":op["size"],"r":class(&o),"bytes":n64(m.bytes())}));
            }
            "mon_cancel" => {
                let Some(m) = mon.as_ref() else { continue };
                match m {
                    Mon::Sync(m) => m.request_cancellation(),
                    Mon::Async(m) => m.request_cancellation(),
                }
                t.ev(json!({"ev":"MonCancel","case":id,"bytes":n64(m.bytes())}));
            }
            "calc" => {
                let base = gi(op, "base") as u32;
                let en = gb(op, "enabled");
                let method = gi(op, "method") as u8;
                let sizes: Vec<u64> = ga(op, "sizes").iter().map(|v| v.as_u64().unwrap()).collect();
                let a = AdaptiveCompressionLimits::new(base, en);
                let mut vals = vec![];
                let mut r = "ok".to_string();
                let mut pm = String::new();
                for s in &sizes {
                    match guarded(|| a.calculate_limit(*s, method)) {
                        Outcome::Done(v) => vals.push(if v <= i32::MAX as u32 { v as i64 } else { -1 }),
                        Outcome::Panic(m) => {
                            r = "panic".into();
                            pm = m;
                            vals.push(-2);
                        }
                        Outcome::Hang => {
                            r = "hang".into();
                            vals.push(-2);
                        }
                    }
                }
                t.ev(json!({"ev":"Calc","case":id,"base":base,"enabled":en,"method":method,"sizes":sizes,"r":r,"vals":vals,"pmsg":pm}));
            }
            other => tool_error(&format!("sec: unknown op {other}")),
        }
    }
}

fn main() {
    let a = args();
    install_quiet_panic_hook();
    let cases = read_cases(&a.cases);
    let trace = Trace::create(&a.trace);
    let scratch = Scratch::new("x02");
    for (i, c) in cases.iter().enumerate() {
        let id = format!("{}:{}", i, gs(c, "label"));
        match gs(c, "kind") {
            "io" => run_io(&trace, &id, c, &scratch, i),
            "sec" => run_sec(&trace, &id, c),
            k => tool_error(&format!("unknown case kind {k}")),
        }
    }
    trace.flush();
}
