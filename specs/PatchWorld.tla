------------------------------ MODULE PatchWorld ------------------------------
(* The fixed set of archives used by MC_PatchChain (stage A) and Gen_PatchChain (stage B; the    *)
(* driver builds exactly these archives as real .mpq files).  Overlapping membership, a name in  *)
(* no archive, and four names whose versions include binary patches:                             *)
(*   p1  base in A1; COPY b1->q2 in A2; BSD0 q2->q3 in A3; BSD0 b1->q4 in A4                     *)
(*   p2  base in A1; BSD0 with a backward seek b2->r3 in A3                                      *)
(*   p3  base in A1; an entry flagged as patch that is not a PTCH file in A2                     *)
(*   p4  base in A4; COPY b4->s2 in A2; a patch whose payload fails its digest in A1             *)
(* "lf" is the (listfile), which every archive contains.                                         *)
EXTENDS PatchChain
\* (instances bind the constant Cont of PatchChain to StdWorld in their cfg: CONSTANT Cont <- StdWorld)

WorldNames == <<"n1", "n2", "n3", "n4", "n5", "p1", "p2", "p3", "p4", "lf">>
Row(f) == [n \in {WorldNames[i] : i \in 1..Len(WorldNames)} |-> IF n \in DOMAIN f THEN f[n] ELSE NoEntry]
StdWorld ==
  [A1 |-> Row([n1 |-> Plain("c11"), n2 |-> Plain("c21"), n5 |-> Plain("c51"),
               p1 |-> Plain("b1"), p2 |-> Plain("b2"), p3 |-> Plain("b3"),
               p4 |-> Patch("s2", "t1", "corrupt"), lf |-> Plain("lfA1")]),
   A2 |-> Row([n1 |-> Plain("c12"), n3 |-> Plain("c32"),
               p1 |-> Patch("b1", "q2", "copy"), p3 |-> Patch("b3", "u2", "garbage"),
               p4 |-> Patch("b4", "s2", "copy"), lf |-> Plain("lfA2")]),
   A3 |-> Row([n1 |-> Plain("c13"), n2 |-> Plain("c23"),
               p1 |-> Patch("q2", "q3", "bsd0"), p2 |-> Patch("b2", "r3", "bsd0neg"), lf |-> Plain("lfA3")]),
   A4 |-> Row([n1 |-> Plain("c14"), n5 |-> Plain("c54"),
               p1 |-> Patch("b1", "q4", "bsd0"), p4 |-> Plain("b4"), lf |-> Plain("lfA4")])]
StdArchives == {"A1", "A2", "A3", "A4"}
Bogus       == "AX"          \* an archive whose file does not exist
StdPrios    == {-1, 0, 5}
=============================================================================
