CONSTANT Dev = {"CreateMisplaced", "StaleGroupIndex", "DanglingZero", "ErrUnderflow", "NamesCountDrift", "VertexNoFlag", "AttrsNotParallel"}
CONSTANT Budget = 3
CONSTANT Inits = {0, 1, 2, 3}
CONSTANT MaxIx = 2
INIT Init
NEXT Next
CHECK_DEADLOCK FALSE
INVARIANT IAsCodedHolds
