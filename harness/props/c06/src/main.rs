//! C06 driver: replay TLC-generated operation histories on real `MutableArchive` objects.
//!
//! One case = one history over a small universe of abstract names (each with a requested home
//! slot in the hash table, so the histories TLC chose really collide / fill the table), a starting
//! archive class (format version, listfile, attributes, slack between the block table and the first
//! append position) and a list of operations. The driver records one event per operation with its
//! result class and, at every close (mid-history `reopen` and at the end), opens the file with a
//! fresh `Archive::open` and records a `Read` for EVERY name of the universe plus a `List`.
//! It decides nothing: Trace_MpqMap.tla does.
//!
//! Hangs: a history runs on the main thread of a worker process; a watchdog thread turns an
//! operation that exceeds the limit into `res:"hang"`, flushes the trace and exits the worker with
//! status 77; the parent restarts a worker after that history.
use std::path::{Path, PathBuf};
use std::sync::{Arc, Mutex};
use std::time::{Duration, Instant};
use wow_mpq::compression::CompressionMethod;
use wow_mpq::crypto::{hash_string, hash_type};
use wow_mpq::{AddFileOptions, Archive, ArchiveBuilder, AttributesOption, Error, FormatVersion, ListfileOption, MutableArchive};
use wverif_common::*;

const HANG_EXIT: i32 = 77;

fn version(v: i64) -> FormatVersion {
    match v {
        1 => FormatVersion::V1,
        2 => FormatVersion::V2,
        3 => FormatVersion::V3,
        _ => FormatVersion::V4,
    }
}

fn classify<T>(r: &Result<T, Error>) -> String {
    match r {
        Ok(_) => "ok".into(),
        Err(Error::FileNotFound(_)) => "notfound".into(),
        Err(Error::FileExists(_)) => "exists".into(),
        Err(e) => format!("err:{}", variant_name(e)),
    }
}

/// Concrete archive name for abstract name `n` whose TABLE_OFFSET hash lands on slot `home` of a
/// table with `hsize` slots. The spelling rotates with the seed.
fn concretise(n: &str, home: u64, hsize: u64, seed: u64, taken: &[String], long: bool) -> String {
    let dirs = ["data", "Interface\\Glue", "world\\maps", "sound", "x"];
    let exts = ["bin", "blp", "txt", "m2", "dbc"];
    let mut rng = Rng::derive(seed, &format!("name:{n}"));
    let mut d = dirs[rng.below(dirs.len() as u64) as usize].to_string();
    if long {
        // name-length class "long" (case attribute `longnames`): paths of 220..250 characters, so that the (listfile) of even
        // a three-file archive is larger than one 512-byte allocation unit
        let words = ["Textures", "Backgrounds", "HighResolution", "Expansion03", "Northrend", "Dungeons", "Interface", "Module"];
        let want = 215 + rng.below(30) as usize;
        while d.len() < want {
            d.push('\\');
            d.push_str(words[rng.below(words.len() as u64) as usize]);
        }
    }
    let d = d.as_str();
    let e = exts[rng.below(exts.len() as u64) as usize];
    let start = rng.below(500);
    for k in start..start + 100_000 {
        let cand = format!("{d}\\{n}_{k}.{e}");
        if (hash_string(&cand, hash_type::TABLE_OFFSET) as u64) & (hsize - 1) == home % hsize && !taken.contains(&cand) {
            return cand;
        }
    }
    tool_error("no name with the requested home slot found");
}

struct Uni {
    abs: Vec<String>,     // abstract names, universe order ("pad" last)
    conc: Vec<String>,    // concrete archive names
}
impl Uni {
    fn conc_of(&self, a: &str) -> &str {
        let i = self.abs.iter().position(|x| x == a).unwrap_or_else(|| tool_error(&format!("name {a} not in universe")));
        &self.conc[i]
    }
    fn abs_of(&self, c: &str) -> String {
        let norm = c.replace('/', "\\");
        match self.conc.iter().position(|x| x.eq_ignore_ascii_case(&norm)) {
            Some(i) => self.abs[i].clone(),
            None => format!("?{c}"),
        }
    }
}

/// Deterministic content of one add. `compressible` (compression requested / builder default):
/// text or runs of at least 64 bytes, so that the stored form IS compressed (the model of the code
/// distinguishes raw from compressed-or-encrypted blocks). Otherwise any class, incl. tiny files.
/// Sizes range from 1 byte to several sectors (the size restriction of round 1 - one 512-byte unit
/// per file, needed to predict the table overrun - was lifted when c4da446 fixed the overrun).
fn content(seed: u64, label: &str, compressible: bool, want_big: bool) -> Vec<u8> {
    let mut rng = Rng::derive(seed, label);
    // `want_big` (chosen by TLC): larger than one 16 KiB sector; otherwise always smaller
    let big = if want_big {
        rng.range(17_000, 70_000)
    } else {
        match rng.below(8) {
            0 => rng.range(1_500, 6_000),
            _ => 0,
        }
    } as usize;
    let (class, len) = if compressible {
        (if rng.below(3) == 0 { "run" } else { "text" }, if big > 0 { big } else { rng.range(64, 1500) as usize })
    } else {
        let class = match rng.below(3) {
            0 => "random",
            1 => "run",
            _ => "text",
        };
        let len = match rng.below(4) {
            0 => rng.range(1, 7),
            1 => rng.range(8, 64),
            _ => rng.range(65, 1500),
        } as usize;
        (class, if big > 0 { big } else { len })
    };
    let mut v = if want_big && compressible {
        // compresses well as ONE unit (zlib window) but not sector by sector: an incompressible block of 20 000 bytes,
        // repeated - the sectored copy compact() writes is several times larger than the single-unit original
        let block = rng.bytes(20_000);
        let total = rng.range(60_000, 200_000) as usize;
        block.iter().cycle().take(total).cloned().collect()
    } else {
        gen_content(class, len, &mut rng)
    };
    // make every content unique: overwrite a few leading bytes with label-derived hex digits
    let t = tok(label.as_bytes());
    for (i, b) in t.bytes().take(v.len().min(6)).enumerate() {
        v[i] = b;
    }
    v
}

/// Storage class of the j-th starting file (chosen by TLC, see Gen_MpqHashTable `initcls`): 0 small compressed;
/// 1..6 longer than a 16 KiB sector (sectored by the builder) x {compressible, incompressible} x {plain, encrypted, fix-key}.
fn init_class(c: &Value, j: usize) -> i64 {
    c.get("initcls").and_then(|x| x.as_array()).and_then(|a| a.get(j)).and_then(|x| x.as_i64()).unwrap_or(0)
}
fn init_content(seed: u64, case: &str, n: &str, cls: i64) -> Vec<u8> {
    let label = format!("{case}:init:{n}");
    if cls >= 7 {
        return vec![];          // content class "empty": a file of length 0
    }
    if cls == 0 {
        return content(seed, &label, true, false);
    }
    let mut rng = Rng::derive(seed, &label);
    let len = rng.range(17_000, 70_000) as usize;
    let mut v = gen_content(if cls % 2 == 1 { "text" } else { "random" }, len, &mut rng);
    let t = tok(label.as_bytes());
    for (i, b) in t.bytes().take(6).enumerate() {
        v[i] = b;
    }
    v
}


/// Spelling variant of a concrete archive name: MPQ names are case-insensitive, so `sp` = 1 (upper case)
/// names the same file as `sp` = 0 (the canonical spelling the universe was built with).
fn spell(cn: &str, sp: i64) -> String {
    if sp == 1 { cn.to_ascii_uppercase() } else { cn.to_string() }
}

fn hex_or_zero(b: &[u8]) -> String {
    if b.iter().all(|x| *x == 0) { "zero".to_string() } else { b.iter().map(|x| format!("{x:02x}")).collect() }
}
fn crc_hex(d: &[u8]) -> String {
    hex_or_zero(&crc32fast::hash(d).to_be_bytes())
}
fn md5_of_hex(d: &[u8]) -> String {
    md5_hex(d)
}

/// Projection of the special files of a freshly opened archive (observations only):
/// `lf`: has / lines of the raw (listfile) as [abstract name, spelling] (special names as they are, unknown lines "?<line>");
/// `at`: has / loaded / flags / rows [crc, md5, filetime class] per block / block index (1-based) of every universe name
/// and of both special files / block count.
fn specials_obs(arch: &mut Archive, uni: &Uni) -> (Value, Value) {
    let has_lf = matches!(arch.find_file("(listfile)"), Ok(Some(_)));
    let mut lines: Vec<Value> = vec![];
    let mut lf_res = "none".to_string();
    if has_lf {
        match guarded(|| arch.read_file("(listfile)")) {
            Outcome::Done(Ok(d)) => {
                lf_res = "ok".into();
                for l in String::from_utf8_lossy(&d).lines() {
                    let l = l.trim();
                    if l.is_empty() {
                        continue;
                    }
                    if l == "(listfile)" || l == "(attributes)" {
                        lines.push(json!([l, 0]));
                        continue;
                    }
                    match uni.conc.iter().position(|c| c.eq_ignore_ascii_case(l)) {
                        Some(i) => {
                            let sp = if uni.conc[i] == l { 0 } else if uni.conc[i].to_ascii_uppercase() == l { 1 } else { 2 };
                            lines.push(json!([uni.abs[i], sp]));
                        }
                        None => lines.push(json!([format!("?{l}"), 2])),
                    }
                }
            }
            Outcome::Done(Err(e)) => lf_res = format!("err:{}", variant_name(&e)),
            _ => lf_res = "panic".into(),
        }
    }
    let lf = json!({"has":has_lf,"res":lf_res,"lines":lines});
    let nblk = arch.block_table().map(|t| t.entries().len()).unwrap_or(0);
    let mut blk = Map::new();
    for (a, c) in uni.abs.iter().zip(uni.conc.iter()).map(|(a, c)| (a.clone(), c.clone())).chain([("(listfile)".to_string(), "(listfile)".to_string()), ("(attributes)".to_string(), "(attributes)".to_string())]) {
        let b = match arch.find_file(&c) {
            Ok(Some(fi)) => fi.block_index as i64 + 1,
            _ => 0,
        };
        blk.insert(a, json!(b));
    }
    let has_at = matches!(arch.find_file("(attributes)"), Ok(Some(_)));
    let mut loaded = false;
    let mut flags: Vec<&str> = vec![];
    let mut rows: Vec<Value> = vec![];
    if has_at {
        loaded = matches!(guarded(|| arch.load_attributes()), Outcome::Done(Ok(())));
        if let (true, Some(at)) = (loaded, arch.attributes()) {
            if at.flags.has_crc32() { flags.push("crc"); }
            if at.flags.has_filetime() { flags.push("ft"); }
            if at.flags.has_md5() { flags.push("md5"); }
            for r in &at.file_attributes {
                let crc = r.crc32.map(|c| hex_or_zero(&c.to_be_bytes())).unwrap_or("-".into());
                let md5 = r.md5.map(|m| hex_or_zero(&m)).unwrap_or("-".into());
                let ft = r.filetime.map(|t| if t == 0 { "zero" } else { "set" }).unwrap_or("-");
                rows.push(json!([crc, md5, ft]));
            }
        }
    }
    let at = json!({"has":has_at,"loaded":loaded,"flags":flags,"nrows":rows.len(),"rows":rows,"blk":Value::Object(blk),"nblk":nblk});
    (lf, at)
}

struct Start {
    slack_bytes: i64,
    hsize: u64,
    nblocks0: u64,
    nspecial: u64,
    tail: u64,
}

/// Build the starting archive. For V1/V2 the `pad` file's length is tuned so that the distance
/// between the end of the block table and the first append position (the next 512 boundary) is
/// exactly `16*slack` bytes (slack < 0: untuned).
fn build_start(path: &Path, c: &Value, uni: &Uni, seed: u64, case: &str) -> Result<Start, String> {
    let ver = gi(c, "ver");
    let lf = gb(c, "lf");
    let at = gb(c, "at");
    let slack = gi(c, "slack");
    let init: Vec<String> = ga(c, "init").iter().map(|x| x.as_str().unwrap().to_string()).collect();
    let mut pad_len: usize = 300;
    let mut last: Option<Start> = None;
    for attempt in 0..4 {
        let mut b = ArchiveBuilder::new()
            .version(version(ver))
            .listfile_option(if lf { ListfileOption::Generate } else { ListfileOption::None })
            .attributes_option(match (at, c.get("atfull").and_then(|x| x.as_bool()).unwrap_or(false)) {
                (false, _) => AttributesOption::None,
                (true, false) => AttributesOption::GenerateCrc32,
                (true, true) => AttributesOption::GenerateFull,
            });
        for (j, n) in init.iter().enumerate() {
            let cls = init_class(c, j);
            let data = init_content(seed, case, n, cls);
            let comp = wow_mpq::compression::flags::ZLIB;
            b = match cls {
                3 | 4 => b.add_file_data_with_options(data, uni.conc_of(n), comp, true, 0),
                5 | 6 => b.add_file_data_with_encryption(data, uni.conc_of(n), comp, true, 0),
                8 => b.add_file_data_with_options(data, uni.conc_of(n), comp, true, 0),
                _ => b.add_file_data_with_options(data, uni.conc_of(n), comp, false, 0),
            };
        }
        let mut prng = Rng::derive(seed, &format!("{case}:pad"));
        let pad = prng.bytes(pad_len);
        b = b.add_file_data_with_options(pad, uni.conc_of("pad"), 0, false, 0);
        let _ = std::fs::remove_file(path);
        b.build(path).map_err(|e| format!("build: {e:?}"))?;
        let a = Archive::open(path).map_err(|e| format!("open: {e:?}"))?;
        let h = a.header();
        let off = a.archive_offset();
        let hend = off + h.get_hash_table_pos() + 16 * h.hash_table_size as u64;
        let bend = off + h.get_block_table_pos() + 16 * h.block_table_size as u64;
        let end = hend.max(bend);
        let aligned = (end + 511) & !511;
        let flen = std::fs::metadata(path).map(|m| m.len()).unwrap_or(0);
        let st = Start {
            slack_bytes: if bend >= hend { (aligned - bend) as i64 } else { -1 },
            hsize: h.hash_table_size as u64,
            nblocks0: h.block_table_size as u64,
            nspecial: 1 + lf as u64 + at as u64,
            tail: flen.saturating_sub(end),
        };
        if slack < 0 || ver > 2 {
            return Ok(st);
        }
        let want = (16 * slack) % 512;
        if st.slack_bytes == want {
            return Ok(st);
        }
        // growing pad by d moves `bend` by d: need (aligned' - bend') = want  <=>  bend' = -want (mod 512)
        let cur = (bend % 512) as i64;
        let target = (512 - want) % 512;
        let d = (target - cur).rem_euclid(512);
        pad_len += d as usize;
        last = Some(st);
        if attempt == 3 {
            break;
        }
    }
    let st = last.unwrap();
    Err(format!("could not tune slack: got {} want {}", st.slack_bytes, 16 * slack))
}

/// Projection of the in-memory state through the optional hook (D-level diagnostics only).
#[cfg(has_c06_hook)]
fn state_of(m: &MutableArchive) -> Value {
    let (slots, blocks, cursor, dirty) = m.verif_state();
    let live = slots.iter().filter(|s| s.0 == 2).count();
    let deleted = slots.iter().filter(|s| s.0 == 1).count();
    json!({"has":true,"live":live,"deleted":deleted,"blocks":blocks,"cursor":cursor.unwrap_or(0) as i64,"dirty":dirty})
}
#[cfg(not(has_c06_hook))]
fn state_of(_m: &MutableArchive) -> Value {
    json!({"has":false,"live":0,"deleted":0,"blocks":0,"cursor":0,"dirty":false})
}

fn no_state() -> Value {
    json!({"has":false,"live":0,"deleted":0,"blocks":0,"cursor":0,"dirty":false})
}

struct Pending {
    since: Instant,
    ev: Value,
}

struct Ctx<'a> {
    trace: &'a Trace,
    pending: Arc<Mutex<Option<Pending>>>,
}

impl<'a> Ctx<'a> {
    /// Run one operation of the code under test: panics become `res:"panic"`, overlong runs are
    /// turned into `res:"hang"` by the watchdog thread (which also ends the worker).
    fn op<T>(&self, ev: Value, f: impl FnOnce() -> (String, T)) -> (String, Option<T>) {
        self.op_with(ev, f, |_, _| {})
    }
    /// As `op`, with `patch` adding observed fields to the event before it is written.
    fn op_with<T>(&self, mut ev: Value, f: impl FnOnce() -> (String, T), patch: impl FnOnce(&mut Value, &T)) -> (String, Option<T>) {
        {
            let mut g = self.pending.lock().unwrap();
            *g = Some(Pending { since: Instant::now(), ev: ev.clone() });
        }
        let out = guarded(f);
        let mut g = self.pending.lock().unwrap();
        *g = None;
        let (res, val, msg) = match out {
            Outcome::Done((r, v)) => (r, Some(v), String::new()),
            Outcome::Panic(m) => ("panic".to_string(), None, m),
            Outcome::Hang => unreachable!(),
        };
        ev["res"] = json!(res);
        ev["msg"] = json!(msg);
        if let Some(v) = &val {
            patch(&mut ev, v);
        }
        self.trace.ev(ev);
        (res, val)
    }
}

/// `Check`: a fresh `Archive::open` of the file, then one Read per universe name and a List.
fn checkpoint(cx: &Ctx, case: &str, path: &Path, uni: &Uni, fin: bool, ck: usize) {
    let p = path.to_path_buf();
    let (res, arch) = cx.op(json!({"ev":"Check","case":case,"fin":fin,"ck":ck}), move || {
        let r = Archive::open(&p);
        (classify(&r), r.ok())
    });
    let mut arch = match (res.as_str(), arch) {
        ("ok", Some(Some(a))) => a,
        _ => return,
    };
    for (a, c) in uni.abs.iter().zip(uni.conc.iter()) {
        let r = guarded(|| arch.read_file(c));
        let (res, len, t) = match &r {
            Outcome::Done(Ok(d)) => ("ok".to_string(), d.len() as i64, tok(d)),
            Outcome::Done(e) => (classify(e), -1, "none".to_string()),
            Outcome::Panic(_) => ("panic".to_string(), -1, "none".to_string()),
            Outcome::Hang => unreachable!(),
        };
        // stored form of the file as the block table shows it (flags COMPRESS / ENCRYPTED / FIX_KEY / SINGLE_UNIT, sizes)
        let (fl, csz, fsz) = match arch.find_file(c) {
            Ok(Some(fi)) => (json!({"c":fi.flags & 0x0000_0200 != 0 || fi.flags & 0x0000_0100 != 0,"e":fi.flags & 0x0001_0000 != 0,"k":fi.flags & 0x0002_0000 != 0,"s":fi.flags & 0x0100_0000 != 0}), fi.compressed_size as i64, fi.file_size as i64),
            _ => (json!({"c":false,"e":false,"k":false,"s":false}), -1, -1),
        };
        cx.trace.ev(json!({"ev":"Read","case":case,"n":a,"res":res,"len":len,"tok":t,"fin":fin,"ck":ck,"fl":fl,"csz":csz,"fsz":fsz}));
    }
    // the special files as a fresh open finds them: raw (listfile) lines and the parsed (attributes) rows
    let (lfo, ato) = specials_obs(&mut arch, uni);
    cx.trace.ev(json!({"ev":"LfRaw","case":case,"ck":ck,"fin":fin,"has":lfo["has"],"res":lfo["res"],"lines":lfo["lines"]}));
    cx.trace.ev(json!({"ev":"Attrs","case":case,"ck":ck,"fin":fin,"has":ato["has"],"loaded":ato["loaded"],"flags":ato["flags"],"nrows":ato["nrows"],
        "rows":ato["rows"],"blk":ato["blk"],"nblk":ato["nblk"]}));
    let r = guarded(|| arch.list());
    let (res, names) = match r {
        Outcome::Done(Ok(l)) => {
            let mut v: Vec<String> = l.iter().map(|e| uni.abs_of(&e.name)).collect();
            v.sort();
            ("ok".to_string(), v)
        }
        Outcome::Done(Err(e)) => (format!("err:{}", variant_name(&e)), vec![]),
        _ => ("panic".to_string(), vec![]),
    };
    cx.trace.ev(json!({"ev":"List","case":case,"res":res,"names":names,"fin":fin,"ck":ck}));
}

/// MutableArchive::read_file of the subject of the call just made, inside the session.
fn session_read(cx: &Ctx, case: &str, ma: &mut MutableArchive, n: &str, cn: &str, oi: usize) {
    if !SREAD.with(|s| s.get()) {
        return;
    }
    cx.op_with(
        json!({"ev":"SRead","case":case,"oi":oi,"n":n,"tok":"none"}),
        || match ma.read_file(cn) {
            Ok(d) => ("ok".to_string(), tok(&d)),
            Err(e) => (classify::<()>(&Err(e)), "none".to_string()),
        },
        |ev, t| ev["tok"] = json!(t),
    );
}

thread_local! {
    /// whether the current history observes MutableArchive::read_file after each call (case attribute `sread`)
    static SREAD: std::cell::Cell<bool> = const { std::cell::Cell::new(true) };
}

fn run_history(cx: &Ctx, c: &Value, dir: &Path, seed: u64) {
    let case = gs(c, "id").to_string();
    SREAD.with(|s| s.set(c.get("sread").and_then(|x| x.as_bool()).unwrap_or(true)));
    // universe and concrete names
    let lf = gb(c, "lf");
    let at = gb(c, "at");
    let init: Vec<String> = ga(c, "init").iter().map(|x| x.as_str().unwrap().to_string()).collect();
    let nfiles = init.len() + 1 + lf as usize + at as usize;
    let hsize = ((nfiles * 2).max(16) as u64).next_power_of_two();
    let mut uni = Uni { abs: vec![], conc: vec![] };
    let long = c.get("longnames").and_then(|x| x.as_bool()).unwrap_or(false);
    // pairs (n, inside): the spelling of `n` must be a substring of the spelling of `inside`
    // (update_listfile tests `content.contains(name)`): both are found together, `inside` = "x" + n
    let mut forced: std::collections::HashMap<String, String> = std::collections::HashMap::new();
    if let Some(subs) = c.get("sub").and_then(|x| x.as_array()) {
        let home_of = |x: &str| ga(c, "names").iter().find(|nm| gs(nm, "n") == x).map(|nm| gi(nm, "home") as u64);
        for sp in subs {
            let (n, inside) = (gs(sp, "n"), gs(sp, "inside"));
            if let (Some(hn), Some(hi)) = (home_of(n), home_of(inside)) {
                let mut rng = Rng::derive(seed, &format!("sub:{n}"));
                let start = rng.below(500);
                let mut found = false;
                for k in start..start + 400_000 {
                    let cn = format!("data\\{n}_{k}.bin");
                    let ci = format!("x{cn}");
                    let h = |x: &str| (hash_string(x, hash_type::TABLE_OFFSET) as u64) & (hsize - 1);
                    if h(&cn) == hn % hsize && h(&ci) == hi % hsize {
                        forced.insert(n.to_string(), cn);
                        forced.insert(inside.to_string(), ci);
                        found = true;
                        break;
                    }
                }
                if !found {
                    tool_error("no substring name pair with the requested home slots found");
                }
            }
        }
    }
    for nm in ga(c, "names") {
        let n = gs(nm, "n");
        let home = gi(nm, "home") as u64;
        let cn = match forced.get(n) {
            Some(f) => f.clone(),
            None => concretise(n, home, hsize, seed, &uni.conc, long),
        };
        uni.abs.push(n.to_string());
        uni.conc.push(cn);
    }
    let padhome = c.get("padhome").and_then(|x| x.as_i64()).unwrap_or(0) as u64;
    let cn = concretise("pad", padhome, hsize, seed, &uni.conc, long);
    uni.abs.push("pad".into());
    uni.conc.push(cn);

    let path: PathBuf = dir.join(format!("{}.mpq", case.replace(|ch: char| !ch.is_ascii_alphanumeric(), "_")));
    let st = match build_start(&path, c, &uni, seed, &case) {
        Ok(s) => s,
        Err(e) => tool_error(&format!("case {case}: starting archive: {e}")),
    };
    // initial map: tokens of what a fresh open reads (recorded before the history)
    let mut initial = Map::new();
    let mut toks = Map::new();
    let mut dig = Map::new();
    let (lf0, at0);
    {
        let mut a = Archive::open(&path).unwrap_or_else(|e| tool_error(&format!("open start: {e:?}")));
        for (ab, cn) in uni.abs.iter().zip(uni.conc.iter()) {
            let t = match a.read_file(cn) {
                Ok(d) => tok(&d),
                Err(_) => "none".to_string(),
            };
            let expect_present = ab == "pad" || init.contains(ab);
            if expect_present != (t != "none") {
                // the builder's own output is not readable: C01 territory, not a C06 observation
                tool_error(&format!("case {case}: starting archive does not read back {ab}"));
            }
            if t != "none" {
                toks.insert(format!("i:{ab}"), json!(t));
            }
            if let Ok(d) = a.read_file(cn) {
                dig.insert(t.clone(), json!([crc_hex(&d), md5_of_hex(&d)]));
            }
            initial.insert(ab.clone(), json!(t));
        }
        let (l, t) = specials_obs(&mut a, &uni);
        lf0 = l;
        at0 = t;
    }
    let homes: Vec<Value> = uni.conc.iter().map(|cn| json!((hash_string(cn, hash_type::TABLE_OFFSET) as u64) & (st.hsize - 1))).collect();
    let devs: Vec<String> = c.get("devs").and_then(|d| d.as_array()).map(|a| a.iter().filter_map(|x| x.as_str().map(String::from)).collect()).unwrap_or_default();
    let mut devs = devs;
    devs.sort();
    cx.trace.ev(json!({"ev":"Reset","case":case,"cls":gs(c,"cls"),"ver":gi(c,"ver"),"lf":lf,"at":at,
        "slack":st.slack_bytes,"hsize":st.hsize,"nblocks0":st.nblocks0,"nspecial":st.nspecial - 1,"tail":st.tail,
        "universe":uni.abs,"concrete":uni.conc,"homes":homes,"initial":Value::Object(initial),
        "devs":devs.join("+"),"preds":c.get("preds").cloned().unwrap_or(json!([])),"toks":Value::Object(toks),"pres":c.get("pres").cloned().unwrap_or(json!([])),"psr":c.get("psr").cloned().unwrap_or(json!([])),"nops":ga(c,"ops").len(),
        "atfull":c.get("atfull").and_then(|x| x.as_bool()).unwrap_or(false),"longnames":long,"dig":Value::Object(dig),"lf0":lf0,"at0":at0}));

    let mut m: Option<MutableArchive> = None;
    let open = |cx: &Ctx, m: &mut Option<MutableArchive>, oi: usize| -> bool {
        let p = path.clone();
        let (res, v) = cx.op(json!({"ev":"Open","case":case,"oi":oi}), move || {
            let r = MutableArchive::open(&p);
            (classify(&r), r.ok())
        });
        *m = v.flatten();
        res == "ok" && m.is_some()
    };
    // content values by token key ("i:<name>" = what the starting archive holds)
    let mut by_key: std::collections::HashMap<String, Vec<u8>> = std::collections::HashMap::new();
    for (j, n) in init.iter().enumerate() {
        by_key.insert(format!("i:{n}"), init_content(seed, &case, n, init_class(c, j)));
    }
    let mut alive = open(cx, &mut m, 0);
    let mut ck = 0usize;
    let ops = ga(c, "ops");
    for (oi, o) in ops.iter().enumerate() {
        if !alive {
            break;
        }
        let kind = gs(o, "op");
        match kind {
            "add" => {
                let n = gs(o, "n");
                let comp = gs(o, "comp");
                let enc = gs(o, "enc");
                let rep = gb(o, "rep");
                let big = o.get("big").and_then(|x| x.as_bool()).unwrap_or(false);
                // the content VALUE is named by the op's token key: a fresh one ("o<k>") or one this name held before
                let key = match o.get("tok").and_then(|x| x.as_str()) {
                    Some(k) if !k.is_empty() => k.to_string(),
                    _ => format!("o{}", oi + 1),
                };
                let data = by_key
                    .entry(key.clone())
                    .or_insert_with(|| if key == "empty" { vec![] } else { content(seed, &format!("{case}:op{oi}:{n}"), comp != "none", big) })
                    .clone();
                let mut opts = AddFileOptions::new()
                    .compression(match comp {
                        "none" => CompressionMethod::None,
                        "bzip2" => CompressionMethod::BZip2,
                        _ => CompressionMethod::Zlib,
                    })
                    .replace_existing(rep);
                if enc == "enc" {
                    opts = opts.encrypt();
                } else if enc == "fix" {
                    opts = opts.fix_key();
                }
                let sp = o.get("sp").and_then(|x| x.as_i64()).unwrap_or(0);
                let cn = spell(uni.conc_of(n), sp);
                let ev = json!({"ev":"Add","case":case,"oi":oi + 1,"okey":key,"n":n,"sp":sp,"tok":tok(&data),"len":data.len(),"rep":rep,"comp":comp,"enc":enc,
                    "crc":crc_hex(&data),"md5":md5_of_hex(&data),"st":no_state()});
                let ma = m.as_mut().unwrap();
                let (ares, _) = cx.op_with(ev, || { let r = classify(&ma.add_file_data(&data, &cn, opts)); (r, state_of(ma)) }, |ev, st| ev["st"] = st.clone());
                let _ = ares;
                session_read(cx, &case, m.as_mut().unwrap(), n, &cn, oi + 1);
            }
            "remove" => {
                let n = gs(o, "n");
                let sp = o.get("sp").and_then(|x| x.as_i64()).unwrap_or(0);
                let cn = spell(uni.conc_of(n), sp);
                let ma = m.as_mut().unwrap();
                cx.op_with(json!({"ev":"Remove","case":case,"oi":oi + 1,"n":n,"sp":sp,"st":no_state()}), || { let r = classify(&ma.remove_file(&cn)); (r, state_of(ma)) }, |ev, st| ev["st"] = st.clone());
                session_read(cx, &case, m.as_mut().unwrap(), n, &cn, oi + 1);
            }
            "rename" => {
                let a = gs(o, "n");
                let b = gs(o, "m");
                let sp = o.get("sp").and_then(|x| x.as_i64()).unwrap_or(0);
                let spm = o.get("spm").and_then(|x| x.as_i64()).unwrap_or(0);
                let (ca, cb) = (spell(uni.conc_of(a), sp), spell(uni.conc_of(b), spm));
                let ma = m.as_mut().unwrap();
                cx.op_with(json!({"ev":"Rename","case":case,"oi":oi + 1,"n":a,"m":b,"sp":sp,"spm":spm,"st":no_state()}), || { let r = classify(&ma.rename_file(&ca, &cb)); (r, state_of(ma)) }, |ev, st| ev["st"] = st.clone());
                session_read(cx, &case, m.as_mut().unwrap(), b, &cb, oi + 1);
            }
            "compact" => {
                let ma = m.as_mut().unwrap();
                // the compacted file has its own table size / special files: re-read the capacity figures
                cx.op_with(
                    json!({"ev":"Compact","case":case,"oi":oi + 1,"hsize":0,"nspecial":0}),
                    || {
                        let r = ma.compact();
                        let a = ma.archive();
                        let hs = a.header().hash_table_size;
                        let sp = ["(listfile)", "(attributes)"].iter().filter(|n| matches!(a.find_file(n), Ok(Some(_)))).count();
                        (classify(&r), (hs, sp))
                    },
                    |ev, v| {
                        ev["hsize"] = json!(v.0);
                        ev["nspecial"] = json!(v.1);
                    },
                );
            }
            "flush" => {
                let ma = m.as_mut().unwrap();
                cx.op_with(json!({"ev":"Flush","case":case,"oi":oi + 1,"st":no_state()}), || { let r = classify(&ma.flush()); (r, state_of(ma)) }, |ev, st| ev["st"] = st.clone());
            }
            "reopen" => {
                let ma = m.take().unwrap();
                cx.op(json!({"ev":"Close","case":case}), move || {
                    drop(ma);
                    ("ok".to_string(), ())
                });
                ck += 1;
                checkpoint(cx, &case, &path, &uni, false, ck);
                alive = open(cx, &mut m, oi + 1);
            }
            other => tool_error(&format!("unknown op {other}")),
        }
    }
    if let Some(ma) = m.take() {
        cx.op(json!({"ev":"Close","case":case}), move || {
            drop(ma);
            ("ok".to_string(), ())
        });
    }
    checkpoint(cx, &case, &path, &uni, true, ck + 1);
    let _ = std::fs::remove_file(&path);
}

fn worker(cases_path: &Path, part: &Path, lo: usize, hi: usize) {
    install_quiet_panic_hook();
    let cases = read_cases(cases_path);
    let trace = Arc::new(Trace::create(part));
    let pending: Arc<Mutex<Option<Pending>>> = Arc::new(Mutex::new(None));
    let current = Arc::new(Mutex::new(lo));
    let limit = Duration::from_millis(
        std::env::var("C06_HANG_MS").ok().and_then(|s| s.parse().ok()).unwrap_or(5000),
    );
    {
        let (trace, pending, current, part) = (trace.clone(), pending.clone(), current.clone(), part.to_path_buf());
        std::thread::spawn(move || loop {
            std::thread::sleep(Duration::from_millis(50));
            let g = pending.lock().unwrap();
            if let Some(p) = g.as_ref() {
                if p.since.elapsed() > limit {
                    let mut ev = p.ev.clone();
                    ev["res"] = json!("hang");
                    ev["msg"] = json!("");
                    trace.ev(ev);
                    trace.flush();
                    let cur = *current.lock().unwrap();
                    let _ = std::fs::write(format!("{}.next", part.display()), format!("{}", cur + 1));
                    std::process::exit(HANG_EXIT);
                }
            }
        });
    }
    let scratch = Scratch::new("c06");
    let seed = seed();
    let cx = Ctx { trace: &trace, pending };
    for i in lo..hi.min(cases.len()) {
        *current.lock().unwrap() = i;
        run_history(&cx, &cases[i], &scratch.path, seed);
    }
    trace.flush();
}

fn main() {
    let a = args();
    if a.extra.first().map(|s| s.as_str()) == Some("worker") {
        let lo: usize = a.extra[1].parse().unwrap();
        let hi: usize = a.extra[2].parse().unwrap();
        worker(&a.cases, &a.trace, lo, hi);
        return;
    }
    let n = read_cases(&a.cases).len();
    let threads = ncpu().min(12).max(1);
    let chunk = ((n + threads * 4 - 1) / (threads * 4)).max(1);
    let chunks: Vec<(usize, usize)> = (0..n).step_by(chunk).map(|lo| (lo, (lo + chunk).min(n))).collect();
    let exe = std::env::current_exe().unwrap();
    let parts: Mutex<Vec<(usize, usize, PathBuf)>> = Mutex::new(vec![]);
    par_for(chunks.len(), threads, |ci| {
        let (mut lo, hi) = chunks[ci];
        let mut r = 0;
        while lo < hi {
            let part = PathBuf::from(format!("{}.part{ci}_{r}", a.trace.display()));
            let st = std::process::Command::new(&exe)
                .arg(&a.cases)
                .arg(&part)
                .arg("worker")
                .arg(lo.to_string())
                .arg(hi.to_string())
                .status()
                .unwrap_or_else(|e| tool_error(&format!("spawn worker: {e}")));
            parts.lock().unwrap().push((ci, r, part.clone()));
            match st.code() {
                Some(0) => break,
                Some(HANG_EXIT) => {
                    let nxp = format!("{}.next", part.display());
                    let nx = std::fs::read_to_string(&nxp).unwrap_or_default();
                    let _ = std::fs::remove_file(&nxp);
                    lo = nx.trim().parse().unwrap_or_else(|_| tool_error("worker hang without next index"));
                    r += 1;
                }
                other => tool_error(&format!("worker for cases {lo}..{hi} ended with {other:?}")),
            }
        }
    });
    let mut ps = parts.into_inner().unwrap();
    ps.sort();
    use std::io::Write;
    let mut out = std::io::BufWriter::new(std::fs::File::create(&a.trace).unwrap());
    for (_, _, p) in ps {
        let d = std::fs::read(&p).unwrap_or_default();
        out.write_all(&d).unwrap();
        let _ = std::fs::remove_file(&p);
    }
    out.flush().unwrap();
}
