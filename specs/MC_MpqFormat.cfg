CONSTANT SectorBase = 8
INIT Init
NEXT Next
INVARIANT LayoutOk
CHECK_DEADLOCK FALSE
