--------------------------- MODULE Gen_MpqCrypto ---------------------------
(* Stage (B) for C04: TLC enumerates the abstract cases the harness must evaluate on the real   *)
(* code.  Concrete byte values of "cls" buffers are derived by the harness from (cls, len,     *)
(* VERIF_SEED); every logged input is then re-evaluated by TLC in stage (D).                   *)
EXTENDS Integers, Sequences, SequencesExt, FiniteSets, Json, IOUtils, TLC

Thorough == IOEnv.VERIF_TIER = "thorough"

\* keys: every low byte (each crypt-table entry 0x400..0x4FF is used as first seed increment),
\* three high halves, plus the special keys 0, 1, 0xFFFFFFFF.
KeyLows  == IF Thorough THEN 0..255 ELSE {0, 1, 2, 127, 128, 129, 254, 255} \cup {16 * x + 5 : x \in 0..15}
KeyHighs == {0, 4660, 65535}
Keys     == {<<hi, 256 * 9 + lo>> : hi \in KeyHighs, lo \in KeyLows} \cup {<<0,0>>, <<0,1>>, <<65535,65535>>}
Lens     == 0..17
Classes  == IF Thorough THEN {"zeros", "ones", "ramp", "random", "ascii", "high"} ELSE {"zeros", "random", "high"}

EncCases == {[kind |-> "enc", key |-> key, len |-> len, cls |-> cls] : key \in Keys, len \in Lens, cls \in Classes}
            \cup
            \* every initial low byte in every tier (the key schedule never regenerates some low bytes,
            \* so they are reachable only as the first key): one word, two words + tail, 17 bytes
            {[kind |-> "enc", key |-> <<hi, 256 * 171 + lo>>, len |-> len, cls |-> "random"] :
                 hi \in {43981}, lo \in 0..255, len \in {3, 4, 9, 17}}

Fixed == { [kind |-> "table"], [kind |-> "fold"],
           [kind |-> "hash_exh", maxlen |-> 2, stride |-> IF Thorough THEN 1 ELSE 7],
           [kind |-> "hash_rand", count |-> IF Thorough THEN 3000 ELSE 400, maxlen |-> 64],
           [kind |-> "enc_rand", count |-> IF Thorough THEN 200 ELSE 30, maxlen |-> IF Thorough THEN 4096 ELSE 600],
           \* byte-level entry points (simd::scalar::hash_string_scalar, SimdOps::hash_string_simd, jenkins_hash_batch)
           \* take &[u8]: here EVERY byte value 0..255 is reachable, so all strings of <= 2 bytes are enumerated
           [kind |-> "hashb_exh", maxlen |-> 2, stride |-> IF Thorough THEN 1 ELSE 11],
           [kind |-> "hashb_rand", count |-> IF Thorough THEN 2000 ELSE 300, maxlen |-> 200],
           [kind |-> "het", count |-> IF Thorough THEN 300 ELSE 60, widths |-> <<8, 16, 32, 48, 56, 64>>] }

\* buffers beyond 1 MiB (e.g. big single-unit files, hash tables with > 65536 entries): constant plaintext,
\* probe words checked against the reference keystream
BigCases == IF Thorough
            THEN {[kind |-> "enc_big", key |-> <<4660, 22136>>, byte |-> 0, len |-> 1048580],
                  [kind |-> "enc_big", key |-> <<51966, 47806>>, byte |-> 65, len |-> 2097157],
                  [kind |-> "enc_big", key |-> <<1, 2>>, byte |-> 255, len |-> 4194310]}
            ELSE {[kind |-> "enc_big", key |-> <<4660, 22136>>, byte |-> 65, len |-> 1048586]}

Cases == SetToSeq(Fixed) \o SetToSeq(EncCases) \o SetToSeq(BigCases)
ASSUME ndJsonSerialize(IOEnv.CASES, Cases)
ASSUME PrintT(<<"GENERATED", Len(Cases)>>)
=============================================================================
