------------------------------- MODULE MC_Ptch -------------------------------
(* Stage (A) for the patch applier of C08: every plan over small files -- old files of 2..3 bytes, 1..2 *)
(* control triples with add 0..2, copy 0..1, seek in {-2, 0, 1}, data/extra blocks of the exact or a wrong      *)
(* length, matching / mismatching base digest, right / wrong declared result -- is run through the      *)
(* applier state machine of Ptch.tla.  SeekMode = "signed": safety, liveness for well-formed plans,     *)
(* iteration = fold = closed form.  SeekMode = "saturate" (the code's deviation d3): safety still holds, *)
(* liveness does not (witness below).                                                                    *)
EXTENDS Ptch

Olds    == {<<7, 250>>, <<7, 250, 9>>}
Triples == [add : 0..2, mov : 0..1, seek : {-2, 0, 1}]
Ctrls   == {<<t>> : t \in Triples} \cup {<<t, u>> : t, u \in Triples}
SumAdd(c) == DataPre(c, Len(c) + 1)
SumMov(c) == ExtPre(c, Len(c) + 1)
Datas(c)  == {[j \in 1..SumAdd(c) |-> (3 * j) % 256]}
             \cup (IF SumAdd(c) > 0 THEN {[j \in 1..(SumAdd(c) - 1) |-> 1]} ELSE {})
Extras(c) == {[j \in 1..SumMov(c) |-> 100 + j], [j \in 1..(SumMov(c) + 1) |-> 100 + j]}
Decls(o, c, d, e) ==
  IF WellFormedPlan(o, c, d, e)
  THEN {DeclNew(o, c, d, e), [j \in 1..NewPre(c, Len(c) + 1) |-> 1]}
  ELSE {[j \in 1..NewPre(c, Len(c) + 1) |-> 1]}
Bsd0Plans == UNION { UNION { UNION { { [kind |-> "bsd0", old |-> o, ctrl |-> c, data |-> d, extra |-> e, copy |-> <<>>,
                                        baseOk |-> b, decl |-> n] : b \in BOOLEAN, n \in Decls(o, c, d, e) }
                                     : e \in Extras(c) } : d \in Datas(c) } : o \in Olds, c \in Ctrls }
CopyPlans == { [kind |-> "copy", old |-> o, ctrl |-> <<>>, data |-> <<>>, extra |-> <<>>, copy |-> n,
                baseOk |-> b, decl |-> m] : o \in Olds, b \in BOOLEAN, n \in {<<>>, <<1, 2>>}, m \in {<<>>, <<1, 2>>} }

Init == pplan \in (Bsd0Plans \cup CopyPlans) /\ pphase = "start" /\ pacc = Acc0 /\ pci = 0
Next == PtchNext

\* d3 in the model: a well-formed patch with a backward seek that the saturating variant rejects although the
\* signed reference produces the declared file -- and still never returns other bytes
WOld == <<1, 2, 3, 4>>
WCtrl == <<[add |-> 3, mov |-> 0, seek |-> -1], [add |-> 1, mov |-> 0, seek |-> 0]>>
WData == <<0, 0, 0, 0>>
ASSUME Witness ==
  /\ WellFormedPlan(WOld, WCtrl, WData, <<>>)
  /\ DeclNew(WOld, WCtrl, WData, <<>>) = <<1, 2, 3, 3>>
  /\ LET r == RunCtrl(WOld, WCtrl, WData, <<>>, 4).no
     IN  IF SeekMode = "signed" THEN r = <<1, 2, 3, 3>> ELSE r = <<1, 2, 3, 1>>
\* RLE: decode inverts the two canonical encodings of every short string over {0, 1, 255}
RleLit(s)  == IF s = <<>> THEN <<>> ELSE <<127 + Len(s)>> \o s
RleEach(s) == FoldLeft(LAMBDA acc, x : acc \o (IF x = 0 THEN <<0>> ELSE <<128, x>>), <<>>, s)
ASSUME RleRoundTrip ==
  \A n \in 0..4 : \A s \in [1..n -> {0, 1, 255}] :
     /\ RleDecode(RleLit(s), n) = [ok |-> TRUE, out |-> s]
     /\ RleDecode(RleEach(s), n) = [ok |-> TRUE, out |-> s]
     /\ ~RleDecode(RleEach(s), n + 1).ok
\* round 4 -- the whole control-byte space: for every control byte cb a string holding exactly one run of
\* RunLen(cb) bytes of cb's kind between delimiters of the other kind; the canonical encoding uses cb, and
\* decoding inverts it; decoding the run alone yields RunLen(cb) bytes of that kind
RunOf(cb)   == [j \in 1..RunLen(cb) |-> IF RunIsLit(cb) THEN 1 + (j % 255) ELSE 0]
Framed(cb)  == IF RunIsLit(cb) THEN <<0>> \o RunOf(cb) \o <<0>> ELSE <<9>> \o RunOf(cb) \o <<7>>
ASSUME RleCtlSpace ==
  \A cb \in 0..255 :
     /\ cb \in CtlBytes(RleEncode(Framed(cb)))
     /\ RleDecode(RleEncode(Framed(cb)), Len(Framed(cb))) = [ok |-> TRUE, out |-> Framed(cb)]
     /\ RleDecode(<<cb>> \o (IF RunIsLit(cb) THEN RunOf(cb) ELSE <<>>), RunLen(cb)) = [ok |-> TRUE, out |-> RunOf(cb)]
     /\ ~RleDecode(<<cb>> \o (IF RunIsLit(cb) THEN RunOf(cb) ELSE <<>>), RunLen(cb) + 1).ok
\* runs longer than one control byte can express are cut into maximal pieces (0xFF / 0x7F first)
LongRun(lit, n) == <<(IF lit THEN 0 ELSE 5)>> \o [j \in 1..n |-> IF lit THEN 1 + (j % 255) ELSE 0] \o <<(IF lit THEN 0 ELSE 5)>>
ASSUME RleLongRuns ==
  \A n \in {129, 255, 256, 257, 384, 400} : \A lit \in BOOLEAN :
     /\ RleDecode(RleEncode(LongRun(lit, n)), n + 2) = [ok |-> TRUE, out |-> LongRun(lit, n)]
     /\ (IF lit THEN 255 ELSE 127) \in CtlBytes(RleEncode(LongRun(lit, n)))
\* the image encoder and the image parser are inverse
ASSUME ImageRoundTrip ==
  \A c \in {<<>>, <<[add |-> 3, mov |-> 2, seek |-> 1]>>, <<[add |-> 300, mov |-> 0, seek |-> 70000]>>,
             <<[add |-> 1, mov |-> 0, seek |-> 0], [add |-> 2, mov |-> 129, seek |-> 5]>>} :
     LET d  == [j \in 1..DataPre(c, Len(c) + 1) |-> j % 256]
         e  == [j \in 1..ExtPre(c, Len(c) + 1) |-> (7 * j) % 256]
         im == Bsd0Image(ImageOf(c, d, e, Len(d) + Len(e)))
     IN  im.ok /\ im.ctrl = c /\ im.data = d /\ im.extra = e /\ im.newSize = Len(d) + Len(e)
ASSUME RleZeros == RleDecode(<<4, 129, 9, 8, 0>>, 8) = [ok |-> TRUE, out |-> <<0, 0, 0, 0, 0, 9, 8, 0>>]
=============================================================================
