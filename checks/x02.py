"""X02 (extra) -- positional readers (plain / mmap / async) over one file and the security session state of wow-mpq."""
import json
import re

from vlib import core

META = {
    "level": "model_checking",
    "level_text": "Two explicit TLA+ machines, MpqIo (the positional-read contract shared by BufferedMpqReader, MemoryMappedArchive/"
                  "MemoryMapManager and AsyncArchiveReader over one file, with the async metrics and the shared session) and MpqSecurity "
                  "(SessionTracker, DecompressionMonitor/AsyncDecompressionMonitor, AdaptiveCompressionLimits, "
                  "validate_decompression_operation), are model-checked by TLC on small scopes (contract and reader agreement for every "
                  "(off,len) in every reachable state, counter conservation/monotonicity, session and monitor limits; every named "
                  "deviation of the current code must be REFUTED by TLC), TLC generates boundary sweeps and all operation sequences up "
                  "to length 3, the driver replays them on the real objects (tokio current-thread runtime with a paused clock), and "
                  "TLC validates every recorded call against the machines.",
    "level_note": "Trusted: TLC; the 64-bit values are modelled relative to the two ends of u64 (MpqIoNum), so only values within 2^30 "
                  "of 0 or of u64::MAX are exercised. File contents are a function of the position (TLC regenerates head and tail of "
                  "every returned slice; equal ranges must have equal SHA-1 tokens across readers). Time is driven by the driver "
                  "(paused tokio clock; a zero time budget for expiry), no real timeouts are waited for.",
    "technique": "TLC model checking of MpqIo/MpqSecurity + TLC-generated operation sequences replayed on the real readers + TLC trace validation",
    "design_ref": "notes/X02.md",
    "crates": ["x02"],
    "extra": True,
}

DEVS = [("MC_MpqIo", "MC_MpqIo_dev1", "InvContract"), ("MC_MpqIo", "MC_MpqIo_dev2", "InvCounters"),
        ("MC_MpqIo", "MC_MpqIo_dev3", "InvCounters"), ("MC_MpqIo", "MC_MpqIo_dev4", "InvNoPanic"),
        ("MC_MpqSecurity", "MC_MpqSecurity_dev1", "PropGrow")]


def sig(b):
    label = str(b.get("case", "")).split(":")[-1]
    return {"ev": b["ev"], "why": str(b.get("why", "")).strip().strip('"'), "kind": label.split("-")[0]}


def must_refute(ctx, module, cfg, what):
    rc, text = ctx.tlc(module, cfg, workers=4, timeout=600, tag="dev-" + cfg)
    if not re.search(r"(Invariant|property) " + what + r" is violated", text):
        raise core.ToolError(f"stage A: deviation config {cfg} was not refuted on {what}:\n" + core._tail(text))
    core.log(f"(A) {cfg}: {what} refuted as required")


def run(ctx, io_cases=None, sec_cases=None):
    overridden = io_cases is not None or sec_cases is not None
    ctx.mc("MC_MpqIo", workers=4, timeout=900, allow_uncovered=("ExtractPanics",))
    ctx.mc("MC_MpqSecurity", workers=4, timeout=600)
    for module, cfg, what in DEVS:
        must_refute(ctx, module, cfg, what)
    if io_cases is None:
        io_cases, n_io = ctx.gen("Gen_MpqIo", cases_name="cases-io.ndjson")
    else:
        n_io = sum(1 for _ in open(io_cases))
    if sec_cases is None:
        sec_cases, n_sec = ctx.gen("Gen_MpqSecurity", cases_name="cases-sec.ndjson")
    else:
        n_sec = sum(1 for _ in open(sec_cases))
    binary = ctx.build("x02")
    t_io = ctx.harness(binary, io_cases, trace_name="trace-io.ndjson", timeout=900)
    t_sec = ctx.harness(binary, sec_cases, trace_name="trace-sec.ndjson", timeout=900)
    r_io = ctx.validate("Trace_MpqIo", t_io, shards=4)
    r_sec = ctx.validate("Trace_MpqSecurity", t_sec, shards=4)
    kinds, samples, classes = {}, [], set()
    for tr in (t_io, t_sec):
        with open(tr) as f:
            for line in f:
                r = json.loads(line)
                if r["ev"] == "Reset":
                    continue
                kinds[r["ev"]] = kinds.get(r["ev"], 0) + 1
                if kinds[r["ev"]] == 1:
                    samples.append(r)
                rr = r.get("r") or (r.get("res") or {}).get("r") or "-"
                classes.add((r["ev"], str(r.get("case", "")).split(":")[-1], "ok" if rr == "ok" else "other"))
    if len(kinds) < 18 and not overridden:
        raise core.ToolError(f"vacuous run: only {sorted(kinds)} event kinds in the traces")
    events = r_io["events"] + r_sec["events"]
    traces = r_io["traces"] + r_sec["traces"]
    cov = {
        "traces_validated_against_impl": traces,
        "samples": samples[:24],
        "events_by_kind": kinds,
        "cases_generated_by_tlc": {"io": n_io, "sec": n_sec},
        "evaluations": events - traces,
        "distinct_nontrivial": len(classes),
        "rule": "one evaluation = one recorded call validated by TLC; distinct = (event kind, case class, outcome class) triples seen",
        "exhaustive": False,
    }
    assumptions = ["u64 quantities are exercised only within 2^30 of either end of the range",
                   "the async source is a real file read synchronously inside poll_read (chunk-limited, stallable); tokio::fs::File is not used",
                   "a single sequential caller: concurrency of the async reader is not explored"]
    bad = r_io["bad"] + r_sec["bad"]
    return core.finish(ctx, "model_checking", cov, assumptions, bad, sig_fn=sig, trace=t_io)


def replay(ctx, payload):
    # regenerate all cases and keep the rejected one (case id = "<index>:<label>")
    idx = int(str(payload.get("case", "0:")).split(":")[0])
    sec = payload.get("reset", {}).get("kind") == "sec"
    cases, _ = ctx.gen("Gen_MpqSecurity" if sec else "Gen_MpqIo", cases_name="all.ndjson")
    lines = open(cases).read().splitlines()
    sel = ctx.path("replay-cases.ndjson")
    with open(sel, "w") as f:
        f.write(lines[idx] + "\n")
    keep = ctx.path("keep.ndjson")
    # the other machine still needs one (trivial) trace
    oc, _ = ctx.gen("Gen_MpqIo" if sec else "Gen_MpqSecurity", cases_name="other.ndjson")
    with open(keep, "w") as f:
        f.write(open(oc).readline())
    return run(ctx, io_cases=keep if sec else sel, sec_cases=sel if sec else keep)
