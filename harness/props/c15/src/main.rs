//! C15 driver: WMO root / group write -> parse -> write, conversions, and an independent chunk
//! walker over the produced bytes.  Records observations only; Trace_WmoLayout.tla decides.
//!
//! Cases come from Gen_WmoLayout (TLC).  The first case (`kind = "layout"`) carries the numbers
//! of the *specification* (record sizes, MOHD field offsets, container header sizes, offsets of the
//! string references inside records); the walker uses only those and the generic framing rule.
use std::collections::{BTreeMap, HashMap};
use std::io::Cursor;
use wow_wmo::{
    parse_wmo, BoundingBox, Color, ParsedWmo, TexCoord, Vec3, WmoBatch, WmoBspNode, WmoConverter,
    WmoDoodadDef, WmoDoodadSet, WmoFlags, WmoGroup, WmoGroupFlags, WmoGroupHeader, WmoGroupInfo,
    WmoGroupParser, WmoHeader, WmoLight, WmoLightProperties, WmoLightType, WmoLiquid,
    WmoLiquidVertex, WmoMaterial, WmoMaterialFlags, WmoParser, WmoPlane, WmoPortal,
    WmoEditor, WmoPortalReference, WmoRoot, WmoVersion, WmoWriter,
};
use wverif_common::*;

// ------------------------------------------------------------------------------------------
// layout numbers emitted by the specification
// ------------------------------------------------------------------------------------------
struct Layout {
    mohd_fields: Vec<String>,
    mohd_offs: Vec<usize>,
    containers: HashMap<String, usize>,
    elem: HashMap<String, usize>,
    mobn: HashMap<String, usize>,
    mopr: HashMap<String, usize>,
    momt_tex1: usize,
    momt_tex2: usize,
    mogi_name: usize,
    modd_name: usize,
}

fn layout_from(c: &Value) -> Layout {
    let mut containers = HashMap::new();
    for (k, v) in c["containers"].as_object().unwrap_or_else(|| tool_error("layout.containers")) {
        containers.insert(k.clone(), v.as_u64().unwrap() as usize);
    }
    let mut elem = HashMap::new();
    for (k, v) in c["elem"].as_object().unwrap_or_else(|| tool_error("layout.elem")) {
        elem.insert(k.clone(), v.as_u64().unwrap() as usize);
    }
    let mut mobn = HashMap::new();
    for (k, v) in c["mobn"].as_object().unwrap_or_else(|| tool_error("layout.mobn")) {
        mobn.insert(k.clone(), v.as_u64().unwrap() as usize);
    }
    let mut mopr = HashMap::new();
    for (k, v) in c["mopr"].as_object().unwrap_or_else(|| tool_error("layout.mopr")) {
        mopr.insert(k.clone(), v.as_u64().unwrap() as usize);
    }
    Layout {
        mobn,
        mopr,
        mohd_fields: ga(c, "mohd_fields").iter().map(|x| x.as_str().unwrap().to_string()).collect(),
        mohd_offs: ga(c, "mohd_offs").iter().map(|x| x.as_u64().unwrap() as usize).collect(),
        containers,
        elem,
        momt_tex1: gi(c, "momt_tex1") as usize,
        momt_tex2: gi(c, "momt_tex2") as usize,
        mogi_name: gi(c, "mogi_name") as usize,
        modd_name: gi(c, "modd_name") as usize,
    }
}

// ------------------------------------------------------------------------------------------
// value generator: distinct element values everywhere
// ------------------------------------------------------------------------------------------
struct Gen {
    rng: Rng,
    ctr: u32,
    xf: bool,
    /// how flag fields are filled: "rand" | "ones" | "single"
    bits: String,
}
const EXTREMES: [f32; 10] = [
    f32::MAX,
    f32::MIN,
    f32::MIN_POSITIVE,
    -0.0,
    1.0e-40,
    f32::INFINITY,
    f32::NEG_INFINITY,
    -1.0e-38,
    16777217.0,
    f32::EPSILON,
];
impl Gen {
    fn f(&mut self) -> f32 {
        self.ctr += 1;
        if self.xf && self.ctr % 4 == 0 {
            return EXTREMES[(self.rng.below(EXTREMES.len() as u64)) as usize];
        }
        let sign = if self.rng.chance(1, 3) { -1.0 } else { 1.0 };
        sign * (self.ctr as f32 + self.rng.f32() * 0.5)
    }
    fn v3(&mut self) -> Vec3 {
        Vec3 { x: self.f(), y: self.f(), z: self.f() }
    }
    fn bbox(&mut self) -> BoundingBox {
        BoundingBox { min: self.v3(), max: self.v3() }
    }
    fn color(&mut self) -> Color {
        self.ctr += 1;
        Color { r: self.rng.byte(), g: (self.ctr & 0xFF) as u8, b: self.rng.byte(), a: self.rng.byte() }
    }
    fn u16(&mut self) -> u16 {
        self.ctr += 1;
        // distinct, never 0xFFFF (list terminator of MOVB)
        (self.ctr.wrapping_mul(7) % 0xFF00) as u16
    }
    fn u32(&mut self) -> u32 {
        self.ctr += 1;
        self.ctr.wrapping_mul(2654435761) >> 4
    }
    /// A flag word over the bits of `mask`: random, all ones, or exactly one bit (rotating with the
    /// seed-derived stream and the position in the object).
    fn flags(&mut self, mask: u32) -> u32 {
        self.ctr += 1;
        match self.bits.as_str() {
            "ones" => mask,
            "single" => {
                let set: Vec<u32> = (0..32).filter(|b| mask >> b & 1 == 1).collect();
                1u32 << set[(self.rng.below(set.len() as u64) as usize + self.ctr as usize) % set.len()]
            }
            _ => self.rng.next_u32() & mask,
        }
    }
    fn small(&mut self, n: u64) -> u32 {
        self.rng.below(n) as u32
    }
}

fn names(class: &str, what: &str, n: usize, g: &mut Gen) -> Vec<String> {
    // empty_first / empty_mid / empty_last: plain names with an empty string at that position
    let empty_at = match class {
        "empty_first" => Some(0),
        "empty_mid" => Some(n / 2),
        "empty_last" => Some(n.saturating_sub(1)),
        _ => None,
    };
    (0..n)
        .map(|i| match class {
            _ if empty_at == Some(i) => String::new(),
            "prefix" => {
                // each name extends the previous one
                let base = format!("Dungeons\\Textures\\{what}\\wall");
                match i % 3 {
                    0 => base,
                    1 => format!("{base}01"),
                    _ => format!("{base}01b_{}", i),
                }
            }
            "rprefix" => {
                // each LATER name is a proper prefix of an earlier one
                let full = format!("Dungeons\\Textures\\{what}\\Room_01_big");
                let cut = [0usize, 4, 7, 12][i.min(3)];
                full[..full.len() - cut].to_string()
            }
            "substr" => {
                // later names are inner substrings / suffixes of the first one, down to one character
                let full = format!("Dungeons\\Textures\\{what}\\Room_01_big.blp");
                match i {
                    0 => full,
                    1 => "Room_01".to_string(),
                    2 => "o".to_string(),
                    _ => full[full.len() - 7..].to_string(),
                }
            }
            "dup" => format!("World\\wmo\\{what}\\same_name.blp"),
            "long" => {
                let mut s = format!("World\\wmo\\{what}\\{i}_");
                while s.len() < 240 + 17 * i {
                    s.push_str("very_long_directory_name\\");
                }
                s.push_str(".blp");
                s
            }
            "nonascii" => format!("Textures\\Gr\u{f6}\u{df}e_{what}_{i}_\u{e9}.blp"),
            _ => format!("World\\wmo\\{what}\\item_{i}_{:x}.blp", g.rng.below(0xFFFF)),
        })
        .collect()
}

fn version_of(v: i64) -> WmoVersion {
    match v {
        1 => WmoVersion::Classic,
        2 => WmoVersion::Tbc,
        3 => WmoVersion::Wotlk,
        4 => WmoVersion::Cataclysm,
        5 => WmoVersion::Mop,
        _ => tool_error("version index out of range"),
    }
}

fn str_offsets(strs: &[String]) -> Vec<u32> {
    let mut o = 0u32;
    strs.iter()
        .map(|s| {
            let r = o;
            o += s.len() as u32 + 1;
            r
        })
        .collect()
}

// ------------------------------------------------------------------------------------------
// object construction from a shape
// ------------------------------------------------------------------------------------------
fn build_root(c: &Value, g: &mut Gen) -> WmoRoot {
    let ver = version_of(gi(c, "ver"));
    let class = gs(c, "names");
    let n = |k: &str| gi(c, k) as usize;
    let textures = names(class, "tex", n("ntex"), g);
    let toffs = str_offsets(&textures);
    let mut texture_offset_index_map = HashMap::new();
    for (i, o) in toffs.iter().enumerate() {
        texture_offset_index_map.insert(*o, i as u32);
    }
    let mat_flag_bits: u32 = 0xFFF;
    let materials: Vec<WmoMaterial> = (0..n("nmat"))
        .map(|i| WmoMaterial {
            flags: WmoMaterialFlags::from_bits_truncate(g.flags(mat_flag_bits) | if g.bits == "rand" { 0x100 } else { 0 }),
            shader: 1 + g.small(16) + 16 * i as u32,
            blend_mode: g.small(8) + 8 * (i as u32 + 1),
            texture1: if toffs.is_empty() { 1000 + g.u32() % 1000 } else { toffs[i % toffs.len()] },
            emissive_color: g.color(),
            sidn_color: g.color(),
            framebuffer_blend: g.color(),
            texture2: if toffs.is_empty() { 3000 + g.u32() % 1000 } else { toffs[(i + 1) % toffs.len()] },
            diffuse_color: g.color(),
            ground_type: g.u32(),
        })
        .collect();
    let gnames = names(class, "grp", n("ngrp"), g);
    let groups: Vec<WmoGroupInfo> = gnames
        .into_iter()
        .map(|name| WmoGroupInfo {
            flags: WmoGroupFlags::from_bits_truncate(g.flags(0x3FFFF)),
            bounding_box: g.bbox(),
            name,
        })
        .collect();
    // pvpat / vblpat: bit i set <=> inner list i is non-empty
    let (npv, pvpat) = (n("npv"), gi(c, "pvpat"));
    let portals: Vec<WmoPortal> = (0..n("nport"))
        .map(|i| WmoPortal { vertices: if (pvpat >> i) & 1 == 1 { (0..npv).map(|_| g.v3()).collect() } else { Vec::new() }, normal: g.v3() })
        .collect();
    let prefs: Vec<Vec<i64>> = c.get("prefs").and_then(|x| x.as_array()).map(|rows| {
        rows.iter().map(|r| r.as_array().map(|a| a.iter().map(|v| v.as_i64().unwrap_or(0)).collect()).unwrap_or_default()).collect()
    }).unwrap_or_default();
    let portal_references: Vec<WmoPortalReference> = if !prefs.is_empty() {
        // a structurally valid portal graph enumerated by the specification: [portal, group, side]
        prefs.iter().map(|r| WmoPortalReference { portal_index: r[0] as u16, group_index: r[1] as u16, side: r[2] as u16 }).collect()
    } else {
        (0..n("npref")).map(|_| WmoPortalReference { portal_index: g.u16(), group_index: g.u16(), side: g.u16() & 1 }).collect()
    };
    let (vbl, vblpat) = (n("vbl"), gi(c, "vblpat"));
    let visible_block_lists: Vec<Vec<u16>> = (0..n("nvbl"))
        .map(|i| if (vblpat >> i) & 1 == 1 { (0..vbl).map(|_| g.u16()).collect() } else { Vec::new() })
        .collect();
    let lights: Vec<WmoLight> = (0..n("nlight"))
        .map(|i| {
            let light_type = match i % 4 {
                0 => WmoLightType::Omni,
                1 => WmoLightType::Spot,
                2 => WmoLightType::Directional,
                _ => WmoLightType::Ambient,
            };
            let properties = match light_type {
                WmoLightType::Omni => WmoLightProperties::Omni,
                WmoLightType::Ambient => WmoLightProperties::Ambient,
                WmoLightType::Spot => WmoLightProperties::Spot { direction: g.v3(), hotspot: g.f(), falloff: g.f() },
                WmoLightType::Directional => WmoLightProperties::Directional { direction: g.v3() },
            };
            WmoLight {
                light_type,
                position: g.v3(),
                color: g.color(),
                intensity: g.f(),
                rotation: [g.f(), g.f(), g.f(), g.f()],
                attenuation_start: g.f(),
                attenuation_end: g.f(),
                use_attenuation: i % 2 == 0,
                properties,
            }
        })
        .collect();
    // doodad names are not part of the legacy object model; name offsets are what a parsed file
    // would carry: offsets of distinct names in a MODN table
    let dnames = names(class, "dd", n("ndd"), g);
    let doffs = str_offsets(&dnames);
    let doodad_defs: Vec<WmoDoodadDef> = (0..n("ndd"))
        .map(|i| WmoDoodadDef {
            name_offset: doffs[i],
            position: g.v3(),
            orientation: [g.f(), g.f(), g.f(), g.f()],
            scale: g.f(),
            color: g.color(),
            set_index: (i as u16) + 1,
        })
        .collect();
    let nds = n("nds");
    let doodad_sets: Vec<WmoDoodadSet> = (0..nds)
        .map(|i| WmoDoodadSet {
            name: format!("Set_{}_{:x}", i, g.rng.below(0xFFFF)),
            start_doodad: g.u32() % 1000,
            n_doodads: g.u32() % 100,
        })
        .collect();
    let skybox = if gi(c, "sky") == 1 {
        // the skybox is a single path, not a name table: never empty
        Some(names(if class.starts_with("empty") { "plain" } else { class }, "sky", 1, g).remove(0).replace(".blp", ".m2"))
    } else {
        None
    };
    let bounding_box = union_box(&groups);
    let header = WmoHeader {
        n_materials: materials.len() as u32,
        n_groups: groups.len() as u32,
        n_portals: portals.len() as u32,
        n_lights: lights.len() as u32,
        n_doodad_names: doodad_defs.len() as u32,
        n_doodad_defs: doodad_defs.len() as u32,
        n_doodad_sets: doodad_sets.len() as u32,
        // every defined bit; HAS_SKYBOX is set or not at random: the writer derives it from `skybox`
        flags: WmoFlags::from_bits_truncate(g.flags(0x3FF)),
        ambient_color: g.color(),
    };
    WmoRoot {
        version: ver,
        materials,
        groups,
        portals,
        portal_references,
        visible_block_lists,
        lights,
        doodad_defs,
        doodad_sets,
        bounding_box,
        textures,
        texture_offset_index_map,
        header,
        skybox,
        convex_volume_planes: None,
    }
}

/// Union of the group boxes, computed exactly like a reader has to (fold of min / max).
fn union_box(groups: &[WmoGroupInfo]) -> BoundingBox {
    if groups.is_empty() {
        let z = Vec3 { x: 0.0, y: 0.0, z: 0.0 };
        return BoundingBox { min: z, max: z };
    }
    let (mut a, mut b, mut c) = (f32::MAX, f32::MAX, f32::MAX);
    let (mut d, mut e, mut f) = (f32::MIN, f32::MIN, f32::MIN);
    for gr in groups {
        a = a.min(gr.bounding_box.min.x);
        b = b.min(gr.bounding_box.min.y);
        c = c.min(gr.bounding_box.min.z);
        d = d.max(gr.bounding_box.max.x);
        e = e.max(gr.bounding_box.max.y);
        f = f.max(gr.bounding_box.max.z);
    }
    BoundingBox { min: Vec3 { x: a, y: b, z: c }, max: Vec3 { x: d, y: e, z: f } }
}

fn build_group(c: &Value, g: &mut Gen) -> WmoGroup {
    let n = |k: &str| gi(c, k);
    let cnt = |k: &str| n(k).max(0) as usize;
    let opt = |k: &str| n(k) >= 0;
    let vertices: Vec<Vec3> = (0..cnt("nvert")).map(|_| g.v3()).collect();
    let indices: Vec<u16> = (0..cnt("nidx")).map(|_| g.u16()).collect();
    let normals: Vec<Vec3> = (0..cnt("nnorm")).map(|_| g.v3()).collect();
    let tex_coords: Vec<TexCoord> = (0..cnt("ntc")).map(|_| TexCoord { u: g.f(), v: g.f() }).collect();
    let vertex_colors = if opt("ncol") { Some((0..cnt("ncol")).map(|_| g.color()).collect()) } else { None };
    let batches: Vec<WmoBatch> = (0..cnt("nbatch"))
        .map(|i| {
            let mut flags = [0u8; 10];
            g.rng.fill(&mut flags);
            WmoBatch {
                flags,
                material_id: (i as u16) + 1 + (g.small(3) as u16) * 16,
                start_index: g.u32() % 60000,
                count: g.u16(),
                start_vertex: g.u16(),
                end_vertex: g.u16(),
                use_large_material_id: i % 2 == 1,
            }
        })
        .collect();
    let tree: Vec<Vec<i64>> = c.get("bsp").and_then(|x| x.as_array()).map(|rows| {
        rows.iter().map(|r| r.as_array().map(|a| a.iter().map(|v| v.as_i64().unwrap_or(0)).collect()).unwrap_or_default()).collect()
    }).unwrap_or_default();
    let bsp_nodes = if !tree.is_empty() {
        // a well-formed tree enumerated by the specification: [axis, leaf, neg, pos, nfaces, fstart]
        Some(tree.iter().map(|r| {
            let normal = match r[0] { 0 => Vec3 { x: 1.0, y: 0.0, z: 0.0 }, 1 => Vec3 { x: 0.0, y: 1.0, z: 0.0 }, _ => Vec3 { x: 0.0, y: 0.0, z: 1.0 } };
            WmoBspNode { plane: WmoPlane { normal, distance: g.f() }, children: [r[2] as i16, r[3] as i16], first_face: r[5] as u16, num_faces: r[4] as u16 }
        }).collect())
    } else if opt("nbsp") {
        Some(
            (0..cnt("nbsp"))
                .map(|i| {
                    let normal = match i % 4 {
                        0 => Vec3 { x: 1.0, y: 0.0, z: 0.0 },
                        1 => Vec3 { x: 0.0, y: 1.0, z: 0.0 },
                        2 => Vec3 { x: 0.0, y: 0.0, z: 1.0 },
                        _ => Vec3 { x: 0.5, y: 0.5, z: 0.70710677 },
                    };
                    WmoBspNode {
                        plane: WmoPlane { normal, distance: g.f() },
                        children: [g.u16() as i16, -(g.u16() as i16 / 2)],
                        first_face: g.u16(),
                        num_faces: g.u16(),
                    }
                })
                .collect(),
        )
    } else {
        None
    };
    let liq = n("liq");
    let liquid = if liq > 0 {
        let (w, h) = (n("lw") as u32, n("lh") as u32);
        Some(WmoLiquid {
            liquid_type: g.u32() % 20,
            flags: g.flags(0xFFFF_FFFF), // every bit, including 0x2 (the converter's "V2" marker from WoD on)
            width: w,
            height: h,
            vertices: (0..(w * h)).map(|_| WmoLiquidVertex { position: g.v3(), height: g.f() }).collect(),
            tile_flags: if liq == 2 { Some((0..((w - 1) * (h - 1))).map(|_| g.rng.byte()).collect()) } else { None },
        })
    } else {
        None
    };
    let doodad_refs = if opt("ndref") { Some((0..cnt("ndref")).map(|_| g.u16()).collect()) } else { None };
    WmoGroup {
        header: WmoGroupHeader {
            // rand: the version-gated bits are always set; ones / single: per the bit class
            flags: WmoGroupFlags::from_bits_truncate(if g.bits == "rand" { g.u32() | 0x3C000 } else { g.flags(0x3FFFF) }),
            bounding_box: g.bbox(),
            name_offset: g.u32() % 4096,
            group_index: g.u32() % 512,
        },
        materials: (0..cnt("nbatch")).map(|_| g.u16()).collect(),
        vertices,
        normals,
        tex_coords,
        batches,
        indices,
        vertex_colors,
        bsp_nodes,
        liquid,
        doodad_refs,
    }
}

// ------------------------------------------------------------------------------------------
// content tokens (per section)
// ------------------------------------------------------------------------------------------
type Toks = BTreeMap<&'static str, String>;

fn resolve_tex(r: &WmoRoot, off: u32) -> String {
    match r.texture_offset_index_map.get(&off) {
        Some(i) => r.textures.get(*i as usize).cloned().unwrap_or_else(|| "?index".into()),
        None => "?offset".into(),
    }
}

/// `gmask[i]` = the group name at position i was empty in the object written (the parser replaces an empty name
/// by a placeholder; the `_named` sections compare everything else position by position).
fn root_tokens_m(r: &WmoRoot, gmask: &[bool]) -> Toks {
    let mut t = root_tokens(r);
    t.insert("textures_named", dtok(&r.textures.iter().filter(|s| !s.is_empty()).cloned().collect::<Vec<_>>()));
    t.insert(
        "group_names_named",
        dtok(&r.groups.iter().enumerate()
            .map(|(i, g)| if gmask.get(i).copied().unwrap_or(false) { "<empty in the object written>".to_string() } else { g.name.clone() })
            .collect::<Vec<_>>()),
    );
    t
}
fn root_tokens(r: &WmoRoot) -> Toks {
    let mut t = Toks::new();
    let hflags = r.header.flags & !WmoFlags::HAS_SKYBOX; // derived from `skybox` by the writer
    t.insert("header", dtok(&(hflags, r.header.ambient_color)));
    t.insert("bounds", dtok(&r.bounding_box));
    t.insert("textures", dtok(&r.textures));
    let res: Vec<(String, String)> =
        r.materials.iter().map(|m| (resolve_tex(r, m.texture1), resolve_tex(r, m.texture2))).collect();
    t.insert("tex_resolve", dtok(&res));
    let mat = |m: &WmoMaterial, mask: u32| {
        (
            m.flags.bits() & mask,
            m.shader,
            m.blend_mode,
            m.texture1,
            m.emissive_color,
            m.sidn_color,
            m.texture2,
            m.diffuse_color,
            m.ground_type,
        )
    };
    t.insert("materials", dtok(&r.materials.iter().map(|m| mat(m, !0)).collect::<Vec<_>>()));
    t.insert("materials_noshadow", dtok(&r.materials.iter().map(|m| mat(m, !0x300)).collect::<Vec<_>>()));
    t.insert("materials_fbblend", dtok(&r.materials.iter().map(|m| m.framebuffer_blend).collect::<Vec<_>>()));
    t.insert("group_geom", dtok(&r.groups.iter().map(|g| (g.flags, g.bounding_box)).collect::<Vec<_>>()));
    t.insert("group_names", dtok(&r.groups.iter().map(|g| g.name.clone()).collect::<Vec<_>>()));
    t.insert("portals", dtok(&r.portals));
    t.insert("portal_refs", dtok(&r.portal_references));
    t.insert("visible_lists", dtok(&r.visible_block_lists));
    t.insert(
        "lights",
        dtok(
            &r.lights
                .iter()
                .map(|l| {
                    (
                        l.light_type,
                        l.position,
                        l.color,
                        l.intensity,
                        l.rotation,
                        l.attenuation_start,
                        l.attenuation_end,
                        l.use_attenuation,
                    )
                })
                .collect::<Vec<_>>(),
        ),
    );
    t.insert("light_props", dtok(&r.lights.iter().map(|l| l.properties.clone()).collect::<Vec<_>>()));
    t.insert(
        "doodad_geom",
        dtok(&r.doodad_defs.iter().map(|d| (d.position, d.orientation, d.scale, d.color)).collect::<Vec<_>>()),
    );
    t.insert("doodad_name_offsets", dtok(&r.doodad_defs.iter().map(|d| d.name_offset).collect::<Vec<_>>()));
    t.insert("doodad_set_index", dtok(&r.doodad_defs.iter().map(|d| d.set_index).collect::<Vec<_>>()));
    t.insert("doodad_sets", dtok(&r.doodad_sets));
    t.insert("skybox", dtok(&r.skybox));
    t
}

fn v3bits(v: &Vec3) -> [u32; 3] {
    [v.x.to_bits(), v.y.to_bits(), v.z.to_bits()]
}

fn group_tokens(g: &WmoGroup) -> Toks {
    let mut t = Toks::new();
    t.insert("ghdr", dtok(&g.header));
    let mut hb = g.header.clone();
    hb.flags &= !(WmoGroupFlags::HAS_MORE_MOTION_TYPES
        | WmoGroupFlags::USE_SCENE_GRAPH
        | WmoGroupFlags::EXTERIOR_BSP
        | WmoGroupFlags::MOUNT_ALLOWED);
    t.insert("ghdr_base", dtok(&hb));
    let mut hm = g.header.clone();
    hm.flags &= !WmoGroupFlags::MOUNT_ALLOWED;
    t.insert("ghdr_nomount", dtok(&hm));
    t.insert("gmaterials", dtok(&g.materials));
    t.insert("vertices", dtok(&g.vertices));
    t.insert("indices", dtok(&g.indices));
    t.insert("normals", dtok(&g.normals));
    t.insert("tex_coords", dtok(&g.tex_coords));
    t.insert("vertex_colors", dtok(&g.vertex_colors));
    t.insert("batches", dtok(&g.batches));
    t.insert("bsp_nodes", dtok(&g.bsp_nodes));
    t.insert("liquid", dtok(&g.liquid));
    t.insert("doodad_refs", dtok(&g.doodad_refs));
    t
}

/// Projection of a legacy group onto what the binrw object model (parse_wmo) can express.
fn group_api_tokens_in(g: &WmoGroup) -> Toks {
    let mut t = Toks::new();
    t.insert("vertices", dtok(&g.vertices.iter().map(v3bits).collect::<Vec<_>>()));
    t.insert("indices", dtok(&g.indices));
    t.insert("normals", dtok(&g.normals.iter().map(v3bits).collect::<Vec<_>>()));
    t.insert("tex_coords", dtok(&g.tex_coords.iter().map(|c| [c.u.to_bits(), c.v.to_bits()]).collect::<Vec<_>>()));
    let cols: Vec<[u8; 4]> =
        g.vertex_colors.clone().unwrap_or_default().iter().map(|c| [c.b, c.g, c.r, c.a]).collect();
    t.insert("vertex_colors", dtok(&cols));
    t.insert("doodad_refs", dtok(&g.doodad_refs.clone().unwrap_or_default()));
    let bb = &g.header.bounding_box;
    t.insert("ghdr", dtok(&(g.header.name_offset, g.header.flags.bits(), v3bits(&bb.min), v3bits(&bb.max))));
    t.insert("batch_count", dtok(&(g.batches.len() as u32)));
    t.insert(
        "batches",
        dtok(&g.batches.iter().map(|b| (b.start_index, b.count, b.start_vertex, b.end_vertex, b.material_id as u8)).collect::<Vec<_>>()),
    );
    // BSP nodes: split axis (index of the dominant normal component; BSP planes of the format are
    // axis aligned), children, face range, plane distance
    let axis = |n: &Vec3| {
        let (x, y, z) = (n.x.abs(), n.y.abs(), n.z.abs());
        if x >= y && x >= z { 0u16 } else if y >= z { 1 } else { 2 }
    };
    t.insert(
        "bsp_nodes",
        dtok(&g.bsp_nodes.clone().unwrap_or_default().iter()
            .map(|n| (axis(&n.plane.normal), n.children[0], n.children[1], n.num_faces, n.first_face as u32, n.plane.distance.to_bits()))
            .collect::<Vec<_>>()),
    );
    t
}
fn group_api_tokens_out(g: &wow_wmo::group_parser::WmoGroup) -> Toks {
    let mut t = Toks::new();
    t.insert("vertices", dtok(&g.vertex_positions.iter().map(|v| [v.x.to_bits(), v.y.to_bits(), v.z.to_bits()]).collect::<Vec<_>>()));
    t.insert("indices", dtok(&g.vertex_indices));
    t.insert("normals", dtok(&g.vertex_normals.iter().map(|v| [v.x.to_bits(), v.y.to_bits(), v.z.to_bits()]).collect::<Vec<_>>()));
    t.insert("tex_coords", dtok(&g.texture_coords.iter().map(|c| [c.u.to_bits(), c.v.to_bits()]).collect::<Vec<_>>()));
    t.insert("vertex_colors", dtok(&g.vertex_colors.iter().map(|c| [c.b, c.g, c.r, c.a]).collect::<Vec<_>>()));
    t.insert("doodad_refs", dtok(&g.doodad_refs));
    let bb: Vec<u32> = g.bounding_box.iter().map(|f| f.to_bits()).collect();
    let (mn, mx) = if bb.len() == 6 { ([bb[0], bb[1], bb[2]], [bb[3], bb[4], bb[5]]) } else { ([0; 3], [0; 3]) };
    t.insert("ghdr", dtok(&(g.group_name_index, g.flags, mn, mx)));
    t.insert("batch_count", dtok(&(g.trans_batch_count as u32 + g.int_batch_count as u32 + g.ext_batch_count as u32)));
    t.insert(
        "batches",
        dtok(&g.render_batches.iter().map(|b| (b.start_index, b.count, b.min_index, b.max_index, b.material_id)).collect::<Vec<_>>()),
    );
    t.insert(
        "bsp_nodes",
        dtok(&g.bsp_nodes.iter().map(|n| (n.flags & 3, n.neg_child, n.pos_child, n.n_faces, n.face_start, n.plane_distance.to_bits())).collect::<Vec<_>>()),
    );
    t
}
fn f3(v: &Vec3) -> [u32; 3] {
    v3bits(v)
}
fn root_api_tokens_in(r: &WmoRoot) -> Toks {
    let mut t = Toks::new();
    let rgba = |c: &Color| [c.r, c.g, c.b, c.a];
    let bgra = |c: &Color| [c.b, c.g, c.r, c.a];
    t.insert(
        "materials",
        dtok(&r.materials.iter().map(|m| (m.flags.bits(), m.shader, m.blend_mode, m.texture1, rgba(&m.emissive_color), rgba(&m.sidn_color), m.texture2, rgba(&m.diffuse_color), m.ground_type)).collect::<Vec<_>>()),
    );
    t.insert(
        "portals",
        dtok(&r.portals.iter().map(|p| (p.vertices.iter().map(f3).collect::<Vec<_>>(), f3(&p.normal))).collect::<Vec<_>>()),
    );
    t.insert("portal_refs", dtok(&r.portal_references.iter().map(|p| (p.portal_index, p.group_index, p.side)).collect::<Vec<_>>()));
    t.insert(
        "lights",
        dtok(&r.lights.iter().map(|l| (l.light_type as u8, l.use_attenuation as u8, bgra(&l.color), f3(&l.position), l.intensity.to_bits(),
            [l.rotation[0].to_bits(), l.rotation[1].to_bits(), l.rotation[2].to_bits(), l.rotation[3].to_bits()],
            l.attenuation_start.to_bits(), l.attenuation_end.to_bits())).collect::<Vec<_>>()),
    );
    t.insert("doodad_sets", dtok(&r.doodad_sets.iter().map(|d| (d.name.clone(), d.start_doodad, d.n_doodads)).collect::<Vec<_>>()));
    t.insert(
        "doodad_geom",
        dtok(&r.doodad_defs.iter().map(|d| (f3(&d.position), [d.orientation[0].to_bits(), d.orientation[1].to_bits(), d.orientation[2].to_bits(), d.orientation[3].to_bits()],
            d.scale.to_bits(), bgra(&d.color))).collect::<Vec<_>>()),
    );
    t.insert("group_geom", dtok(&r.groups.iter().map(|g| (g.flags.bits(), f3(&g.bounding_box.min), f3(&g.bounding_box.max))).collect::<Vec<_>>()));
    t.insert("textures", dtok(&r.textures));
    t.insert("group_names", dtok(&r.groups.iter().map(|g| g.name.clone()).collect::<Vec<_>>()));
    let n = r.doodad_defs.len() as u32;
    t.insert(
        "counts",
        dtok(&[
            r.materials.len() as u32,
            r.groups.len() as u32,
            r.portals.len() as u32,
            r.lights.len() as u32,
            n,
            n,
            r.doodad_sets.len() as u32,
        ]),
    );
    t
}
fn root_api_tokens_out(r: &wow_wmo::root_parser::WmoRoot) -> Toks {
    let mut t = Toks::new();
    let a3 = |v: &[f32; 3]| [v[0].to_bits(), v[1].to_bits(), v[2].to_bits()];
    t.insert(
        "materials",
        dtok(&r.materials.iter().map(|m| (m.flags, m.shader, m.blend_mode, m.texture_1, m.emissive_color, m.frame_emissive_color, m.texture_2, m.diff_color, m.ground_type)).collect::<Vec<_>>()),
    );
    t.insert(
        "portals",
        dtok(&r.portals.iter().map(|p| {
            let vs: Vec<[u32; 3]> = (0..p.n_vertices as usize)
                .filter_map(|i| r.portal_vertices.get(p.start_vertex as usize + i))
                .map(|v| [v.x.to_bits(), v.y.to_bits(), v.z.to_bits()])
                .collect();
            (vs, [p.normal.x.to_bits(), p.normal.y.to_bits(), p.normal.z.to_bits()])
        }).collect::<Vec<_>>()),
    );
    t.insert("portal_refs", dtok(&r.portal_refs.iter().map(|p| (p.portal_index, p.group_index, p.side as u16)).collect::<Vec<_>>()));
    t.insert(
        "lights",
        dtok(&r.lights.iter().map(|l| (l.light_type, l.use_attenuation, l.color, a3(&l.position), l.intensity.to_bits(),
            [l.rotation[0].to_bits(), l.rotation[1].to_bits(), l.rotation[2].to_bits(), l.rotation[3].to_bits()],
            l.attenuation_start.to_bits(), l.attenuation_end.to_bits())).collect::<Vec<_>>()),
    );
    t.insert(
        "doodad_sets",
        dtok(&r.doodad_sets.iter().map(|d| {
            let n = d.name.iter().position(|&b| b == 0).unwrap_or(20);
            (String::from_utf8_lossy(&d.name[..n]).to_string(), d.start_index, d.count)
        }).collect::<Vec<_>>()),
    );
    t.insert(
        "doodad_geom",
        dtok(&r.doodad_defs.iter().map(|d| (a3(&d.position), [d.orientation[0].to_bits(), d.orientation[1].to_bits(), d.orientation[2].to_bits(), d.orientation[3].to_bits()],
            d.scale.to_bits(), d.color)).collect::<Vec<_>>()),
    );
    t.insert("group_geom", dtok(&r.group_info.iter().map(|g| (g.flags, a3(&g.bounding_box_min), a3(&g.bounding_box_max))).collect::<Vec<_>>()));
    t.insert("textures", dtok(&r.textures));
    t.insert("group_names", dtok(&r.group_names));
    t.insert(
        "counts",
        dtok(&[r.n_materials, r.n_groups, r.n_portals, r.n_lights, r.n_doodad_names, r.n_doodad_defs, r.n_doodad_sets]),
    );
    t
}

// ------------------------------------------------------------------------------------------
// the independent chunk walker (generic framing rule + container header sizes from the spec)
// ------------------------------------------------------------------------------------------
#[derive(Clone)]
struct Ck {
    tag: String,
    off: usize,
    size: usize,
    depth: u32,
}

fn tag_of(b: &[u8]) -> (String, bool) {
    let t = [b[3], b[2], b[1], b[0]];
    if t.iter().all(|c| c.is_ascii_uppercase() || c.is_ascii_digit()) {
        (String::from_utf8_lossy(&t).to_string(), true)
    } else {
        (format!("x{:02x}{:02x}{:02x}{:02x}", t[0], t[1], t[2], t[3]), false)
    }
}

/// Walk `bytes[start..end)`; returns false when the range is not tiled by well-formed chunks.
/// `brk` receives the tag of the last well-placed chunk before the first anomaly.
fn walk(bytes: &[u8], start: usize, end: usize, depth: u32, parent: &str, lay: &Layout, out: &mut Vec<Ck>, brk: &mut Option<String>) {
    let mut off = start;
    let mut last = parent.to_string();
    while off < end && out.len() < 96 {
        if off + 8 > end {
            brk.get_or_insert(last.clone());
            return;
        }
        let (tag, known) = tag_of(&bytes[off..off + 4]);
        let size = u32::from_le_bytes([bytes[off + 4], bytes[off + 5], bytes[off + 6], bytes[off + 7]]) as usize;
        out.push(Ck { tag: tag.clone(), off, size: size.min(0x3FFF_FFFF), depth });
        if !known || off + 8 + size > end {
            brk.get_or_insert(last.clone());
            if off + 8 + size > end {
                return;
            }
        }
        if let Some(h) = lay.containers.get(&tag) {
            if *h <= size && off + 8 + size <= end {
                walk(bytes, off + 8 + h, off + 8 + size, depth + 1, &tag, lay, out, brk);
            } else {
                brk.get_or_insert(tag.clone());
            }
        }
        last = tag;
        off += 8 + size;
    }
}

fn find<'a>(cs: &'a [Ck], tag: &str) -> Option<&'a Ck> {
    cs.iter().find(|c| c.tag == tag)
}
fn payload<'a>(bytes: &'a [u8], c: &Ck) -> &'a [u8] {
    let a = (c.off + 8).min(bytes.len());
    let b = (c.off + 8 + c.size).min(bytes.len());
    &bytes[a..b]
}
fn rd32(b: &[u8], o: usize) -> Option<u32> {
    if o + 4 <= b.len() {
        Some(u32::from_le_bytes([b[o], b[o + 1], b[o + 2], b[o + 3]]))
    } else {
        None
    }
}
/// NUL-terminated strings of a table: (offset, length, token of the bytes)
fn strtab(b: &[u8]) -> Vec<Value> {
    let mut v = Vec::new();
    let mut s = 0usize;
    for i in 0..b.len() {
        if b[i] == 0 {
            // every NUL ends a string, also an empty one
            v.push(json!({"off": s, "len": i - s, "tok": tok(&b[s..i])}));
            s = i + 1;
        }
    }
    if s < b.len() {
        v.push(json!({"off": s, "len": b.len() - s, "tok": "unterminated"}));
    }
    v
}
/// the u32 at `field` of every `elem`-sized record of the chunk
fn refs_of(bytes: &[u8], c: Option<&Ck>, elem: usize, field: usize, mask: u32) -> Vec<i64> {
    match c {
        None => vec![],
        Some(c) => {
            let p = payload(bytes, c);
            (0..p.len() / elem.max(1)).map(|i| rd32(p, i * elem + field).map(|v| (v & mask) as i64).unwrap_or(-1)).collect()
        }
    }
}

fn layout_events(case: &str, bytes: &[u8], lay: &Layout, lens: &BTreeMap<&str, usize>, want: &Wants, evs: &mut Vec<Value>) -> String {
    let mut cs = Vec::new();
    let mut brk = None;
    walk(bytes, 0, bytes.len(), 1, "", lay, &mut cs, &mut brk);
    let brk = brk.unwrap_or_default();
    evs.push(json!({"ev":"Chunks","case":case,"len":bytes.len(),"brk":brk,
        "cs": cs.iter().map(|c| json!({"tag":c.tag,"off":c.off,"size":c.size,"depth":c.depth})).collect::<Vec<_>>()}));
    if lens.is_empty() {
        // group file: the MOBN records, read with the field offsets of the specification
        let e = lay.elem.get("MOBN").copied().unwrap_or(16);
        let f = |k: &str| lay.mobn.get(k).copied().unwrap_or(0);
        let nodes: Vec<Value> = match find(&cs, "MOBN") {
            None => vec![],
            Some(c) => {
                let p = payload(bytes, c);
                (0..p.len() / e).map(|i| {
                    let r = &p[i * e..(i + 1) * e];
                    let u16at = |o: usize| u16::from_le_bytes([r[o], r[o + 1]]);
                    json!([u16at(f("flags")), u16at(f("neg")) as i16, u16at(f("pos")) as i16, u16at(f("nfaces")),
                           rd32(r, f("fstart")).unwrap_or(0).min(0x3FFF_FFFF)])
                }).collect()
            }
        };
        evs.push(json!({"ev":"Bsp","case":case,"nodes":nodes}));
    }
    if !lens.is_empty() {
        // root file: the MOPR records, read with the field offsets of the specification
        let e = lay.elem.get("MOPR").copied().unwrap_or(8);
        let f = |k: &str| lay.mopr.get(k).copied().unwrap_or(0);
        let refs: Vec<Value> = match find(&cs, "MOPR") {
            None => vec![],
            Some(c) => {
                let p = payload(bytes, c);
                (0..p.len() / e).map(|i| {
                    let r = &p[i * e..(i + 1) * e];
                    let u16at = |o: usize| u16::from_le_bytes([r[o], r[o + 1]]);
                    json!([u16at(f("portal")), u16at(f("group")), u16at(f("side")) as i16])
                }).collect()
            }
        };
        evs.push(json!({"ev":"PortalRefs","case":case,"refs":refs}));
    }
    if !lens.is_empty() {
        // MOHD counts against list lengths and record counts
        let mohd = find(&cs, "MOHD");
        for (j, f) in lay.mohd_fields.iter().enumerate() {
            let val = mohd.and_then(|m| rd32(payload(bytes, m), lay.mohd_offs[j])).map(|v| v.min(0x7FFF_FFFF) as i64).unwrap_or(-1);
            let chunk = want.count_chunk.get(f.as_str()).cloned().unwrap_or_default();
            let ck = find(&cs, &chunk);
            let nstr = if chunk == "MODN" { ck.map(|c| strtab(payload(bytes, c)).len() as i64).unwrap_or(0) } else { -1 };
            evs.push(json!({"ev":"Count","case":case,"field":f,"mohd":val,"list":lens.get(f.as_str()).copied().unwrap_or(0),
                "chunk":chunk,"present":ck.is_some(),"size":ck.map(|c| c.size).unwrap_or(0),"nstr":nstr}));
        }
        // string tables and the offsets that point into them
        let e = |t: &str| lay.elem.get(t).copied().unwrap_or(1);
        let tabs: [(&str, &str, Vec<i64>, &Vec<String>); 4] = [
            ("MOTX", "tex1", refs_of(bytes, find(&cs, "MOMT"), e("MOMT"), lay.momt_tex1, !0), &want.tex1),
            ("MOTX", "tex2", refs_of(bytes, find(&cs, "MOMT"), e("MOMT"), lay.momt_tex2, !0), &want.tex2),
            ("MOGN", "gname", refs_of(bytes, find(&cs, "MOGI"), e("MOGI"), lay.mogi_name, !0), &want.gname),
            ("MODN", "dname", refs_of(bytes, find(&cs, "MODD"), e("MODD"), lay.modd_name, 0x00FF_FFFF), &want.dname),
        ];
        for (table, what, refs, wants) in tabs.iter() {
            let strs = find(&cs, table).map(|c| strtab(payload(bytes, c))).unwrap_or_default();
            evs.push(json!({"ev":"StrRef","case":case,"table":table,"what":what,"strs":strs,"refs":refs,"want":wants}));
        }
    }
    brk
}

/// Second-write identity chunk by chunk: payload token of every chunk of the first and of the second
/// write, keyed by (tag, occurrence).  "-" = the chunk does not exist in that file.
fn rewrite_chunk_events(case: &str, b1: &[u8], b2: &[u8], lay: &Layout, evs: &mut Vec<Value>) {
    let index = |bytes: &[u8]| {
        let mut cs = Vec::new();
        let mut brk = None;
        walk(bytes, 0, bytes.len(), 1, "", lay, &mut cs, &mut brk);
        let mut seen: HashMap<String, usize> = HashMap::new();
        let mut m: Vec<(String, String)> = Vec::new();
        for c in cs.iter().filter(|c| c.depth == 1) {
            let n = seen.entry(c.tag.clone()).or_insert(0);
            *n += 1;
            let key = if *n == 1 { c.tag.clone() } else { format!("{}#{}", c.tag, n) };
            m.push((key, format!("{}:{}", c.size, tok(payload(bytes, c)))));
        }
        m
    };
    let (m1, m2) = (index(b1), index(b2));
    let mut keys: Vec<String> = m1.iter().map(|x| x.0.clone()).collect();
    for (k, _) in &m2 {
        if !keys.contains(k) {
            keys.push(k.clone());
        }
    }
    let get = |m: &Vec<(String, String)>, k: &str| m.iter().find(|x| x.0 == k).map(|x| x.1.clone()).unwrap_or_else(|| "-".into());
    for k in keys {
        evs.push(json!({"ev":"RwChunk","case":case,"tag":k,"a":get(&m1, &k),"b":get(&m2, &k)}));
    }
}

#[derive(Default)]
struct Wants {
    count_chunk: HashMap<&'static str, String>,
    tex1: Vec<String>,
    tex2: Vec<String>,
    gname: Vec<String>,
    dname: Vec<String>,
}

fn sec_events(case: &str, phase: &str, a: &Toks, b: &Toks, evs: &mut Vec<Value>) {
    for (k, va) in a {
        let vb = b.get(k).cloned().unwrap_or_else(|| "-".into());
        evs.push(json!({"ev":"Sec","case":case,"phase":phase,"name":k,"a":va,"b":vb}));
    }
}

fn outcome<T, E: std::fmt::Debug>(o: Outcome<Result<T, E>>) -> (String, Option<T>) {
    match o {
        Outcome::Done(Ok(v)) => ("ok".into(), Some(v)),
        Outcome::Done(Err(e)) => (format!("err:{}", variant_name(&e)), None),
        Outcome::Panic(m) => (format!("panic:{m}"), None),
        Outcome::Hang => ("hang".into(), None),
    }
}

fn write_root(r: &WmoRoot, v: WmoVersion) -> (String, Vec<u8>) {
    let mut cur = Cursor::new(Vec::new());
    let (res, _) = outcome(guarded(|| WmoWriter::new().write_root(&mut cur, r, v)));
    (res, cur.into_inner())
}
fn write_group(g: &WmoGroup, v: WmoVersion) -> (String, Vec<u8>) {
    let mut cur = Cursor::new(Vec::new());
    let (res, _) = outcome(guarded(|| WmoWriter::new().write_group(&mut cur, g, v)));
    (res, cur.into_inner())
}

fn shape_attrs(c: &Value) -> Value {
    let mut m = c.as_object().cloned().unwrap_or_default();
    m.remove("id");
    Value::Object(m)
}

// ------------------------------------------------------------------------------------------
// case drivers
// ------------------------------------------------------------------------------------------
fn run_root(case: &str, c: &Value, lay: &Layout, seed: u64) -> Vec<Value> {
    let mut g = Gen { rng: Rng::derive(seed, case), ctr: 0, xf: gi(c, "xf") == 1, bits: c.get("bits").and_then(|x| x.as_str()).unwrap_or("rand").to_string() };
    let ver = gi(c, "ver");
    let v = version_of(ver);
    let root = build_root(c, &mut g);
    let gmask: Vec<bool> = root.groups.iter().map(|x| x.name.is_empty()).collect();
    let tin = root_tokens_m(&root, &gmask);
    let mut evs = Vec::new();
    let (wres, bytes) = write_root(&root, v);
    let mut lens: BTreeMap<&str, usize> = BTreeMap::new();
    lens.insert("n_materials", root.materials.len());
    lens.insert("n_groups", root.groups.len());
    lens.insert("n_portals", root.portals.len());
    lens.insert("n_lights", root.lights.len());
    lens.insert("n_doodad_names", root.doodad_defs.len());
    lens.insert("n_doodad_defs", root.doodad_defs.len());
    lens.insert("n_doodad_sets", root.doodad_sets.len());
    let mut want = Wants::default();
    for (f, t) in [("n_materials", "MOMT"), ("n_groups", "MOGI"), ("n_portals", "MOPT"), ("n_lights", "MOLT"),
                   ("n_doodad_names", "MODN"), ("n_doodad_defs", "MODD"), ("n_doodad_sets", "MODS")] {
        want.count_chunk.insert(f, t.to_string());
    }
    // "-" = the object itself references no texture name at that offset (no obligation)
    let want_tex = |o: u32| if root.texture_offset_index_map.contains_key(&o) { tok(resolve_tex(&root, o).as_bytes()) } else { "-".to_string() };
    want.tex1 = root.materials.iter().map(|m| want_tex(m.texture1)).collect();
    want.tex2 = root.materials.iter().map(|m| want_tex(m.texture2)).collect();
    want.gname = root.groups.iter().map(|x| tok(x.name.as_bytes())).collect();
    want.dname = root.doodad_defs.iter().map(|_| "-".to_string()).collect();
    let mut body = Vec::new();
    body.push(json!({"ev":"Write","case":case,"kind":"root","res":wres,"len":bytes.len(),"tok":tok(&bytes)}));
    // every public way of producing the bytes: the editor's save_root on an identical object
    {
        let mut g2 = Gen { rng: Rng::derive(seed, case), ctr: 0, xf: gi(c, "xf") == 1, bits: c.get("bits").and_then(|x| x.as_str()).unwrap_or("rand").to_string() };
        let root2 = build_root(c, &mut g2);
        let mut cur = Cursor::new(Vec::new());
        let (ares, _) = outcome(guarded(|| WmoEditor::new(root2).save_root(&mut cur)));
        let b = cur.into_inner();
        body.push(json!({"ev":"AltWrite","case":case,"api":"editor.save_root","res":ares,"len":b.len(),"tok":tok(&b)}));
    }
    let mut brk = String::new();
    if wres == "ok" {
        brk = layout_events(case, &bytes, lay, &lens, &want, &mut body);
        // legacy parser (the one the writer mirrors)
        let (pres, parsed) = outcome(guarded(|| WmoParser::new().parse_root(&mut Cursor::new(&bytes))));
        body.push(json!({"ev":"Parse","case":case,"api":"legacy","res":pres}));
        if let Some(p) = &parsed {
            sec_events(case, "parse", &tin, &root_tokens_m(p, &gmask), &mut body);
            let (rres, b2) = write_root(p, v);
            body.push(json!({"ev":"Rewrite","case":case,"res":rres,"len":b2.len(),"tok":tok(&b2)}));
            if rres == "ok" {
                rewrite_chunk_events(case, &bytes, &b2, lay, &mut body);
            }
        }
        // second public parser
        let (ares, aparsed) = outcome(guarded(|| parse_wmo(&mut Cursor::new(&bytes))));
        let ares = match (&ares[..], &aparsed) {
            ("ok", Some(ParsedWmo::Group(_))) => "err:DetectedAsGroup".to_string(),
            _ => ares,
        };
        body.push(json!({"ev":"Parse","case":case,"api":"binrw","res":ares}));
        if let Some(ParsedWmo::Root(r)) = &aparsed {
            sec_events(case, "api", &root_api_tokens_in(&root), &root_api_tokens_out(r), &mut body);
        }
    }
    body.push(json!({"ev":"End","case":case}));
    evs.push(json!({"ev":"Reset","case":case,"kind":"root","ver":ver,"to":0,"brk":brk,"shape":shape_attrs(c)}));
    evs.extend(body);
    evs
}

fn run_group(case: &str, c: &Value, lay: &Layout, seed: u64) -> Vec<Value> {
    let mut g = Gen { rng: Rng::derive(seed, case), ctr: 0, xf: gi(c, "xf") == 1, bits: c.get("bits").and_then(|x| x.as_str()).unwrap_or("rand").to_string() };
    let ver = gi(c, "ver");
    let v = version_of(ver);
    let grp = build_group(c, &mut g);
    let tin = group_tokens(&grp);
    let (wres, bytes) = write_group(&grp, v);
    let mut body = Vec::new();
    body.push(json!({"ev":"Write","case":case,"kind":"group","res":wres,"len":bytes.len(),"tok":tok(&bytes)}));
    let mut brk = String::new();
    if wres == "ok" {
        brk = layout_events(case, &bytes, lay, &BTreeMap::new(), &Wants::default(), &mut body);
        let gi_ = grp.header.group_index;
        let (pres, parsed) = outcome(guarded(|| WmoGroupParser::new().parse_group(&mut Cursor::new(&bytes), gi_)));
        body.push(json!({"ev":"Parse","case":case,"api":"legacy","res":pres}));
        if let Some(p) = &parsed {
            sec_events(case, "parse", &tin, &group_tokens(p), &mut body);
            let (rres, b2) = write_group(p, v);
            body.push(json!({"ev":"Rewrite","case":case,"res":rres,"len":b2.len(),"tok":tok(&b2)}));
        }
        let (ares, aparsed) = outcome(guarded(|| parse_wmo(&mut Cursor::new(&bytes))));
        let ares = match (&ares[..], &aparsed) {
            ("ok", Some(ParsedWmo::Root(_))) => "err:DetectedAsRoot".to_string(),
            _ => ares,
        };
        body.push(json!({"ev":"Parse","case":case,"api":"binrw","res":ares}));
        if let Some(ParsedWmo::Group(pg)) = &aparsed {
            sec_events(case, "api", &group_api_tokens_in(&grp), &group_api_tokens_out(pg), &mut body);
        }
    }
    body.push(json!({"ev":"End","case":case}));
    let mut evs = vec![json!({"ev":"Reset","case":case,"kind":"group","ver":ver,"to":0,"brk":brk,"shape":shape_attrs(c)})];
    evs.extend(body);
    evs
}

fn run_conv(case: &str, c: &Value, seed: u64) -> Vec<Value> {
    let mut g = Gen { rng: Rng::derive(seed, case), ctr: 0, xf: gi(c, "xf") == 1, bits: c.get("bits").and_then(|x| x.as_str()).unwrap_or("rand").to_string() };
    let (from, to) = (gi(c, "ver"), gi(c, "to"));
    let kind = gs(c, "kind");
    let mut evs = vec![json!({"ev":"Reset","case":case,"kind":kind,"ver":from,"to":to,"brk":"","shape":shape_attrs(c)})];
    if kind == "rootconv" {
        let mut root = build_root(c, &mut g);
        let gmask: Vec<bool> = root.groups.iter().map(|x| x.name.is_empty()).collect();
        let tin = root_tokens_m(&root, &gmask);
        let (res, _) = outcome(guarded(|| WmoConverter::new().convert_root(&mut root, version_of(to))));
        let vres = if root.version == version_of(to) { "ok" } else { "stale" };
        evs.push(json!({"ev":"Convert","case":case,"from":from,"to":to,"res":res,"version_field":vres}));
        if res == "ok" {
            let tconv = root_tokens_m(&root, &gmask);
            sec_events(case, "convert", &tin, &tconv, &mut evs);
            // the converted object written in the target version and parsed back
            let (wres, bytes) = write_root(&root, version_of(to));
            evs.push(json!({"ev":"Write","case":case,"kind":"rootconv","res":wres,"len":bytes.len(),"tok":tok(&bytes)}));
            if wres == "ok" {
                let (pres, parsed) = outcome(guarded(|| WmoParser::new().parse_root(&mut Cursor::new(&bytes))));
                evs.push(json!({"ev":"Parse","case":case,"api":"legacy","res":pres}));
                if let Some(p) = &parsed {
                    sec_events(case, "convparse", &tconv, &root_tokens_m(p, &gmask), &mut evs);
                }
                // the editor's conversion path (what `wmo convert` uses): same object, convert_to_version + save_root
                let mut g2 = Gen { rng: Rng::derive(seed, case), ctr: 0, xf: gi(c, "xf") == 1, bits: c.get("bits").and_then(|x| x.as_str()).unwrap_or("rand").to_string() };
                let root2 = build_root(c, &mut g2);
                let mut ed = WmoEditor::new(root2);
                let (eres, _) = outcome(guarded(|| ed.convert_to_version(version_of(to))));
                let mut cur = Cursor::new(Vec::new());
                let (sres, _) = outcome(guarded(|| ed.save_root(&mut cur)));
                let b = cur.into_inner();
                let res = if eres == "ok" { sres } else { eres };
                evs.push(json!({"ev":"AltWrite","case":case,"api":"editor.convert_to_version+save_root","res":res,"len":b.len(),"tok":tok(&b)}));
                sec_events(case, "convert_editor", &tin, &root_tokens_m(ed.root(), &gmask), &mut evs);
            }
        }
    } else {
        let mut grp = build_group(c, &mut g);
        let tin = group_tokens(&grp);
        let (res, _) = outcome(guarded(|| WmoConverter::new().convert_group(&mut grp, version_of(to), version_of(from))));
        evs.push(json!({"ev":"Convert","case":case,"from":from,"to":to,"res":res,"version_field":"ok"}));
        if res == "ok" {
            sec_events(case, "convert", &tin, &group_tokens(&grp), &mut evs);
        }
    }
    evs.push(json!({"ev":"End","case":case}));
    evs
}

fn main() {
    let a = args();
    install_quiet_panic_hook();
    let cases = read_cases(&a.cases);
    let trace = Trace::create(&a.trace);
    let seed = seed();
    if cases.is_empty() || gs(&cases[0], "kind") != "layout" {
        tool_error("first case must be the layout record of the specification");
    }
    let lay = layout_from(&cases[0]);
    for (ci, c) in cases.iter().enumerate().skip(1) {
        let kind = gs(c, "kind");
        let case = format!("{}:{}", c.get("id").and_then(|x| x.as_i64()).unwrap_or(ci as i64), kind);
        let evs = match kind {
            "root" => run_root(&case, c, &lay, seed),
            "group" => run_group(&case, c, &lay, seed),
            "rootconv" | "groupconv" => run_conv(&case, c, seed),
            _ => tool_error(&format!("unknown case kind {kind}")),
        };
        trace.block(evs);
    }
    trace.flush();
}
