//! Counting global allocator of the C05 worker: largest single request, peak live bytes, and a
//! refusal threshold. A request above the threshold is reported with a raw `H <input> <size>` line
//! on stdout (no allocation, survives the abort that usually follows) and answered with null, so a
//! hostile 4 GB `with_capacity` never thrashes the shared machine.
use std::alloc::{GlobalAlloc, Layout, System};
use std::sync::atomic::{AtomicBool, AtomicUsize, Ordering::Relaxed};

pub struct Counting;

pub static LIVE: AtomicUsize = AtomicUsize::new(0);
pub static PEAK: AtomicUsize = AtomicUsize::new(0);
pub static MAXREQ: AtomicUsize = AtomicUsize::new(0);
pub static LIMIT: AtomicUsize = AtomicUsize::new(usize::MAX);
pub static INPUT: AtomicUsize = AtomicUsize::new(0);
pub static REFUSED: AtomicUsize = AtomicUsize::new(0);

static REPORTING: AtomicBool = AtomicBool::new(false);
/// load bias of the executable (runtime address - static address), set once at worker start
pub static BIAS: AtomicUsize = AtomicUsize::new(0);

/// Call once before accounting starts: glibc's backtrace() loads libgcc on first use (allocates).
pub fn warm_up() {
    let mut buf = [std::ptr::null_mut::<libc::c_void>(); 4];
    unsafe {
        libc::backtrace(buf.as_mut_ptr(), 4);
    }
    // the first mapping of the executable in /proc/self/maps starts at the load bias
    if let (Ok(maps), Ok(exe)) = (std::fs::read_to_string("/proc/self/maps"), std::env::current_exe()) {
        let exe = exe.to_string_lossy().to_string();
        for line in maps.lines() {
            if line.ends_with(&exe) {
                if let Some(start) = line.split('-').next().and_then(|x| usize::from_str_radix(x, 16).ok()) {
                    BIAS.store(start, Relaxed);
                }
                break;
            }
        }
    }
}

/// Record who asked for the refused block: `S <input> <static return addresses...>` (hex, raw
/// write, no allocation). The parent resolves the distinct addresses once with addr2line and keys
/// the finding by the first `wow_*` function (no line numbers, so the key survives edits).
fn report_site() {
    if REPORTING.swap(true, Relaxed) {
        return;
    }
    let mut frames = [std::ptr::null_mut::<libc::c_void>(); 40];
    let n = unsafe { libc::backtrace(frames.as_mut_ptr(), 40) } as usize;
    let bias = BIAS.load(Relaxed);
    let mut buf = [0u8; 40 * 18 + 40];
    let mut p = 0;
    let mut put = |b: u8, p: &mut usize| {
        if *p < buf.len() {
            buf[*p] = b;
            *p += 1;
        }
    };
    put(b'S', &mut p);
    put(b' ', &mut p);
    // input index, decimal
    let mut d = [0u8; 20];
    let mut k = 0;
    let mut x = INPUT.load(Relaxed);
    loop {
        d[k] = b'0' + (x % 10) as u8;
        k += 1;
        x /= 10;
        if x == 0 {
            break;
        }
    }
    while k > 0 {
        k -= 1;
        put(d[k], &mut p);
    }
    for f in frames.iter().take(n) {
        let a = (*f as usize).wrapping_sub(bias);
        put(b' ', &mut p);
        let mut started = false;
        for sh in (0..16).rev() {
            let nib = ((a >> (4 * sh)) & 0xF) as u8;
            if nib != 0 || started || sh == 0 {
                started = true;
                put(if nib < 10 { b'0' + nib } else { b'a' + nib - 10 }, &mut p);
            }
        }
    }
    put(b'\n', &mut p);
    unsafe {
        libc::write(1, buf.as_ptr() as *const libc::c_void, p);
    }
    REPORTING.store(false, Relaxed);
}

fn raw_line(tag: u8, a: usize, b: usize) {
    // "<tag> <a> <b>\n" without allocating
    let mut buf = [0u8; 64];
    let mut p = 0;
    buf[p] = tag;
    p += 1;
    for v in [a, b] {
        buf[p] = b' ';
        p += 1;
        let mut d = [0u8; 20];
        let mut n = 0;
        let mut x = v;
        loop {
            d[n] = b'0' + (x % 10) as u8;
            n += 1;
            x /= 10;
            if x == 0 {
                break;
            }
        }
        while n > 0 {
            n -= 1;
            buf[p] = d[n];
            p += 1;
        }
    }
    buf[p] = b'\n';
    p += 1;
    unsafe {
        libc::write(1, buf.as_ptr() as *const libc::c_void, p);
    }
}

#[inline]
fn note(size: usize) -> bool {
    if size > MAXREQ.load(Relaxed) {
        MAXREQ.fetch_max(size, Relaxed);
    }
    if size > LIMIT.load(Relaxed) {
        REFUSED.fetch_max(size, Relaxed);
        raw_line(b'H', INPUT.load(Relaxed), size);
        report_site();
        return false;
    }
    let live = LIVE.fetch_add(size, Relaxed) + size;
    if live > PEAK.load(Relaxed) {
        PEAK.fetch_max(live, Relaxed);
    }
    true
}

unsafe impl GlobalAlloc for Counting {
    unsafe fn alloc(&self, l: Layout) -> *mut u8 {
        if !note(l.size()) {
            return std::ptr::null_mut();
        }
        let p = System.alloc(l);
        if p.is_null() {
            LIVE.fetch_sub(l.size(), Relaxed);
        }
        p
    }
    unsafe fn alloc_zeroed(&self, l: Layout) -> *mut u8 {
        if !note(l.size()) {
            return std::ptr::null_mut();
        }
        let p = System.alloc_zeroed(l);
        if p.is_null() {
            LIVE.fetch_sub(l.size(), Relaxed);
        }
        p
    }
    unsafe fn dealloc(&self, p: *mut u8, l: Layout) {
        LIVE.fetch_sub(l.size(), Relaxed);
        System.dealloc(p, l)
    }
    unsafe fn realloc(&self, p: *mut u8, l: Layout, new: usize) -> *mut u8 {
        if new > MAXREQ.load(Relaxed) {
            MAXREQ.fetch_max(new, Relaxed);
        }
        if new > l.size() && new > LIMIT.load(Relaxed) {
            REFUSED.fetch_max(new, Relaxed);
            raw_line(b'H', INPUT.load(Relaxed), new);
            report_site();
            return std::ptr::null_mut();
        }
        let q = System.realloc(p, l, new);
        if !q.is_null() {
            if new >= l.size() {
                let live = LIVE.fetch_add(new - l.size(), Relaxed) + (new - l.size());
                if live > PEAK.load(Relaxed) {
                    PEAK.fetch_max(live, Relaxed);
                }
            } else {
                LIVE.fetch_sub(l.size() - new, Relaxed);
            }
        }
        q
    }
}

/// Start accounting for one entry-point call: peak restarts at the current live level.
pub fn begin(input: usize, limit: usize) -> usize {
    INPUT.store(input, Relaxed);
    let live = LIVE.load(Relaxed);
    PEAK.store(live, Relaxed);
    MAXREQ.store(0, Relaxed);
    REFUSED.store(0, Relaxed);
    LIMIT.store(limit, Relaxed);
    live
}

/// (largest single request, peak live above the level at `begin`)
pub fn end(live0: usize) -> (usize, usize) {
    LIMIT.store(usize::MAX, Relaxed);
    let m = MAXREQ.load(Relaxed).max(REFUSED.load(Relaxed));
    (m, PEAK.load(Relaxed).saturating_sub(live0))
}
