CONSTANT GridN = 64
INIT GInit
NEXT GNext
CHECK_DEADLOCK FALSE
