CONSTANTS
  SectorSize <- TrS
  TableSize = 16
  FlagFix <- TrFlagFix
  LibFileKey <- TrKey
INIT Init
NEXT Next
POSTCONDITION Accepted
CHECK_DEADLOCK FALSE
