"""C07 -- rebuilding an archive preserves its file set and contents."""
import json

from vlib import core

META = {
    "disabled": False,
    "level": "model_checking",
    "level_text": "Rebuild.tla models rebuild_archive as a state machine (Enumerate, Skip(reason), Extract, ListOnly, Build, Verify, Finish) over an abstract "
                  "source (listed files with tokens and flags); TLC checks for every option set and processing order that the designed machine yields "
                  "target = listed minus excluded with equal tokens, truthful counts (extracted + skipped = source), skips only for reasons an option names, "
                  "verify => equal, termination; and that the implementation machine (the code's deviations as named actions) violates them. TLC enumerates "
                  "source classes (V1..V4 x attributes x empty file x weak (signature) file x source sector size 512 B / 16 KiB x provenance (built, modified in place, embedded at 512/1024, superset listfile) x composition of the source's (listfile) (names itself or not, names (attributes) or not, leaves out ordinary files of the archive); plain, raw, encrypted, "
                  "fix-key compressed / raw, multi-sector files sized so that every class changes between single-unit and multi-sector layout; store-raw "
                  "boundary files) x rebuild options (target version, compression / sector-size override 512 B / 4 KiB / 16 KiB, skip filters, verify, "
                  "list-only: full product in thorough, all single deviations plus selected pairs in quick); every case is run through the real rebuild_archive, then every listed source name is read from the target, the target is listed and "
                  "compare_archives is called; TLC validates the recorded run against the specification's oracle (ExpectedOf / ExcludedOf).",
    "level_note": "The model is small (hundreds of states): its weight is as the oracle of trace validation; its former-code machine (HET/BET enumeration, block-count summary) is refuted by TLC. "
                  "File contents are compared as SHA-1 tokens. Sources are produced by ArchiveBuilder; a source that does not hold what was given to the builder is rejected "
                  "with reason source-not-as-built (overlaps C01/C03). (signature) files are weak-signature files by name only.",
    "technique": "TLA+ state machine + exhaustive TLC check; TLC-enumerated source x option cases replayed on rebuild_archive / compare_archives; TLC trace validation",
    "design_ref": "DESIGN.md section 5, C07",
    "crates": ["c07"],
}


def _ncls(n):
    n = str(n or "")
    for k in ("plain", "fixraw", "raw", "secret", "fixkey", "edge", "pow2", "sp\\s", "lit128k", "mod\\", "_\u00c4", "big", "empty", "listfile", "attributes", "signature"):
        if k in n:
            return k
    return n


def sig(b):
    r = b.get("reset") or {}
    rec = b.get("rec") or {}
    rb = b.get("rebuild") or {}
    o = rb.get("opts") or rec.get("opts") or {}
    return {"ev": b.get("ev"), "why": str(b.get("why", "")).strip().strip('"'), "ver": "v12" if r.get("ver", 1) <= 2 else "v34",
            "empty": bool(r.get("empty")), "sigfile": bool(r.get("sigfile")), "sbs": r.get("sbs", -1), "bs": o.get("bs", -1), "edge": bool(r.get("edge")), "pow": r.get("pow", 0), "prov": r.get("prov", "built"), "skipSig": bool(o.get("skipSig")), "n": _ncls(rec.get("n")), "comp": o.get("comp", ""), "skipEnc": bool(o.get("skipEnc")), "verify": bool(o.get("verify")),
            "res": str(rec.get("res", "")).split(":")[0], "msg": rec.get("msg", ""),
            # round 4: composition of the source's (listfile): names itself / names (attributes) / leaves out ordinary files
            "lfself": bool((r.get("lf") or {}).get("lfself", True)), "lfattr": bool((r.get("lf") or {}).get("lfattr", True)) or not r.get("at"),
            "lfhide": bool((r.get("lf") or {}).get("lfhide", False)), "unl": bool(r.get("unlisted"))}


def run(ctx, cases_override=None):
    # two source classes: the (listfile) names itself (copied) / it does not and further names are unlisted (generated)
    ctx.mc("MC_Rebuild", timeout=300, workers=2, allow_uncovered=("VerifyFail", "BuildGenerateListfile"))
    ctx.mc("MC_Rebuild", cfg="MC_Rebuild_noself", timeout=300, workers=2, allow_uncovered=("VerifyFail", "BuildCopyListfile"))
    for cfg, what in (("MC_Rebuild_codeA", "Invariant TargetExact is violated"), ("MC_Rebuild_codeB", "Invariant NeverFails is violated"),
                      ("MC_Rebuild_codeC", "Invariant TargetEnumerable is violated"), ("MC_Rebuild_codeD", "Invariant NeverFails is violated"),
                      ("MC_Rebuild_codeE", "Invariant CountsTruthful is violated")):
        rc, text = ctx.tlc("MC_Rebuild", cfg, workers=1, timeout=300, tag="mc-" + cfg)
        if what not in text:
            raise core.ToolError(f"stage A: {cfg}: expected `{what}`:\n" + core._tail(text))
        ctx.notes.append(f"{cfg}: TLC exhibits `{what}` on the implementation machine")
    if cases_override:
        cases, n = cases_override, sum(1 for _ in open(cases_override))
    else:
        cases, n = ctx.gen("Gen_Rebuild")
    binary = ctx.build("c07")
    trace = ctx.harness(binary, cases, timeout=1500)
    res = ctx.validate("Trace_Rebuild", trace, timeout=900)
    # attach the Rebuild event of the trace to every rejection (the options are class attributes of the case)
    recs = [json.loads(l) for l in open(trace)]
    for b in res["bad"]:
        j = b.get("reset_line", 0)
        if 0 < j < len(recs) and recs[j].get("ev") == "Rebuild":
            b["rebuild"] = recs[j]
    kinds = {}
    samples = []
    srcs = set()
    for r in recs:
        kinds[r["ev"]] = kinds.get(r["ev"], 0) + 1
        if r["ev"] == "Reset":
            srcs.add((r["ver"], r["at"], r["empty"], r.get("prov"), json.dumps(r.get("lf"), sort_keys=True)))
        if r["ev"] in ("Rebuild", "Compare") and len(samples) < 6:
            samples.append(r)
    cov = {
        "traces_validated_against_impl": res["traces"],
        "samples": samples,
        "evaluations": res["events"],
        "events_by_kind": kinds,
        "cases_generated_by_tlc": n,
        "source_classes": len(srcs),
        "distinct_nontrivial": kinds.get("Rebuild", 0),
        "rule": "one case = one (source class, option set) pair replayed on rebuild_archive; all are distinct by construction (TLC set enumeration)",
        "exhaustive": bool(ctx.thorough),
        "exhaustive_part": "thorough: full product of source classes x options (minus combinations that list_only / skip_signatures make equivalent); "
                           "quick: all single deviations from the default options and the pairs target x compression, target x verify, skip_encrypted x verify, compression x sector size, compression x verify",
    }
    assumptions = ["sources are ArchiveBuilder products, optionally modified in place through MutableArchive, embedded behind a prefix, or built with an external listfile (superset; not naming itself / (attributes) / two ordinary files); sources without any listfile are not covered; files of the source that its (listfile) does not name are not demanded in the target; the summary counts are over the listed files", "signature files are weak-signature files by name ((signature), 72 bytes, listed); their cryptographic validity is not part of C07",
                   "single process; the file system does not fail"]
    return core.finish(ctx, "model_checking", cov, assumptions, res["bad"], sig_fn=sig, trace=trace)


def replay(ctx, payload):
    ctx.seed = payload.get("seed", ctx.seed)
    ctx.env["VERIF_SEED"] = str(ctx.seed)
    cases, _ = ctx.gen("Gen_Rebuild")
    idx = int(str(payload.get("case", "r0"))[1:])
    lines = open(cases).read().splitlines()
    sel = ctx.path("replay-cases.ndjson")
    with open(sel, "w") as f:
        # the driver derives contents from the case index: keep positions, make the others list-only no-ops
        for i, l in enumerate(lines[: idx + 1]):
            if i == idx:
                f.write(l + "\n")
            else:
                c = json.loads(l)
                c["opts"]["listOnly"] = True
                f.write(json.dumps(c) + "\n")
    return run(ctx, cases_override=sel)
