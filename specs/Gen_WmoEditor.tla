---------------------------- MODULE Gen_WmoEditor ----------------------------
(* Stage (B) for X03: TLC simulates behaviours of the editor machine AS CODED (Dev = AsCoded in the cfg, so that the      *)
(* references the generated calls pass are valid on the real object) and prints the history of every behaviour as one     *)
(* case: {init, ops: [{op, id, a, b, c}]}.  Arguments range over 0..MaxIx (in range, at the end, out of range).            *)
(* GEN_MODE = "enum": constant-level families around every removal (every index x every start object, removal down to    *)
(* the empty list, removal on the empty object, create / remove group orders, references above / at / below the removed  *)
(* index in every referrer list).                                                                                        *)
EXTENDS MC_WmoEditor, Json, IOUtils, SequencesExt
VARIABLES ghist, ginit, gdone
GInit == /\ Init /\ ghist = <<>> /\ gdone = FALSE
         /\ ginit = CHOOSE k \in Inits : vwst = InitState(k)
GStep == /\ ~gdone /\ vwbud > 0
         /\ \E o \in Cand(vwst, vwnid) : Do(o) /\ ghist' = Append(ghist, o)
         /\ UNCHANGED <<ginit, gdone>>
GDone == /\ ~gdone /\ vwbud = 0 /\ gdone' = TRUE
         /\ PrintT("CASE " \o ToJson([kind |-> "sim", init |-> ginit, ops |-> ghist]))
         /\ UNCHANGED <<mcvars, ghist, ginit>>
GNext == GStep \/ GDone
EnumMode == "GEN_MODE" \in DOMAIN IOEnv /\ IOEnv.GEN_MODE = "enum"
Case(k, ops) == [kind |-> "enum", init |-> k, ops |-> ops]
R(name, i) == O(name, 0, i, 0, 0)
G(id, g, nv, m) == [O("add_group", id, g, nv, m) EXCEPT !.d = 0]
Save == <<O("save_root", 0, 0, 0, 0), O("save_group", 0, 0, 0, 0), O("save_group", 0, 1, 0, 0)>>
Removers == {"remove_texture", "remove_material", "remove_group", "remove_doodad", "remove_doodad_set"}
\* every removal at every index of objects 1 / 2 with both groups loaded, then save
Singles == {Case(k, <<G(40, 0, 3, 0), G(41, IF k = 1 THEN 1 ELSE 0, 2, 0), R(n, i)>> \o Save) : k \in {1, 2}, n \in Removers, i \in 0..3}
\* two removals in a row (down to the empty list on object 2; renumbering twice on object 1)
Doubles == {Case(k, <<G(40, 0, 3, 0), R(n, i), R(n, j)>> \o Save) : k \in {1, 2}, n \in Removers, i \in 0..2, j \in 0..1}
\* vertices: remove each of the three, then the rest, on a loaded group and on a placeholder slot
Verts == {Case(1, <<G(40, 1, 3, 1), O("remove_vertex", 0, 1, i, 0), O("remove_vertex", 0, 1, j, 0), O("remove_vertex", 0, 1, 0, 0),
                    O("remove_vertex", 0, 1, 0, 0), O("add_vertex", 50, 0, 0, 0), O("add_vertex", 51, 1, 0, 0), O("add_vertex", 52, 2, 0, 0)>> \o Save) :
          i \in 0..3, j \in 0..2}
\* every failing call on the empty object
Empties == {Case(0, <<O(n, 0, 0, 0, 0)>> \o Save) : n \in Removers \cup {"remove_vertex", "add_vertex", "save_group", "add_group"}}
\* create / remove group orders, with and without loaded groups
Groups == {Case(k, <<O("create_group", 60, 0, 0, 0), O("add_vertex", 61, g, 0, 0), O("create_group", 62, 0, 0, 0), R("remove_group", i),
                     O("add_vertex", 63, g, 0, 0), O("convert", 0, 2, 0, 0), O("convert", 0, 2, 0, 0), O("convert", 0, 0, 0, 0)>> \o Save) :
           k \in {0, 1}, g \in 0..3, i \in 0..3}
         \cup {Case(1, <<G(40, 0, 3, 0), G(41, 1, 2, 1), O("create_group", 60, 0, 0, 0), R("remove_group", i), R("remove_group", j)>> \o Save) : i \in 0..3, j \in 0..2}
\* references above / at / below the removed index in every referrer list (batch + materials list: 1 and 0; doodad_refs: 2 and 1;
\* portal references of object 1: 0, 1, 1), every remover at every index, then a second removal at 0
GD(id, g, nv, m, dref) == [O("add_group", id, g, nv, m) EXCEPT !.d = dref]
Refs == {Case(1, <<GD(40, 0, 3, 1, 2), GD(41, 1, 2, 0, 1), R(n, i), R(n, 0)>> \o Save) : n \in Removers, i \in 0..3}
\* add_vertex on a group that carries normals (the 3-vertex shape) and on one that does not, then a removal at every index
Attrs == {Case(1, <<G(40, 0, nv, 0), O("add_vertex", 50, 0, 0, 0), O("add_vertex", 51, 0, 0, 0), O("remove_vertex", 0, 0, i, 0)>> \o Save) :
          nv \in {2, 3}, i \in 0..5}
EnumCases == SetToSeq(Attrs) \o SetToSeq(Refs) \o SetToSeq(Singles) \o SetToSeq(Doubles) \o SetToSeq(Verts) \o SetToSeq(Empties) \o SetToSeq(Groups)
ASSUME EnumMode => ndJsonSerialize(IOEnv.CASES, EnumCases) /\ PrintT(<<"GENERATED", Len(EnumCases)>>)
=============================================================================
