CONSTANTS
  Threads = {t1}
  ArchFiles = {"A", "B"}
  Names = {"f0", "f1"}
  Dev = {"HasFileStale"}
  Budget = 2
  CallFns = {"AddFile", "HasFile"}
  MaxOpen = 5
  HashCap = 2
  Rich = FALSE
  PreOpen = 2
CONSTANT NextId <- MCNextId
INIT MCInit
NEXT MCNext
SYMMETRY Symm

INVARIANTS TypeOK CloseInvalidatesOwn NoOrphans CursorInRange IdsUnique NoSelfDeadlock NoHang NoWaitCycle LocksOwned ExistenceAgrees
CHECK_DEADLOCK TRUE
