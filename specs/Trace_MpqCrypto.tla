-------------------------- MODULE Trace_MpqCrypto --------------------------
(* Stage (D) for C04: every value the library computed (recorded by the harness) is compared with *)
(* the value of the reference definition in MpqCrypto, evaluated here by TLC.  The trace is        *)
(* consumed completely; an event whose P-conjunct fails is reported as a BAD line.                *)
EXTENDS MpqCrypto, Json, IOUtils, TLC, TLCExt

Rec == ndJsonDeserialize(IOEnv.TRACE)
VARIABLE tl
tvars == <<tl>>

\* ---- P-conjuncts, one per event kind ---------------------------------------------------------
TableOk(e) == \A j \in 1..Len(e.vals) : e.vals[j] = CryptTable[e.base + j - 1]
FoldOk(e)  == /\ Len(e.upper) = 256 /\ Len(e.lower) = 256
              /\ \A c \in 0..255 : e.upper[c + 1] = Upper(c) /\ e.lower[c + 1] = Lower(c)
HashOk(e)  == /\ e.v[1] = HashString(e.b, TABLE_OFFSET)
              /\ e.v[2] = HashString(e.b, NAME_A)
              /\ e.v[3] = HashString(e.b, NAME_B)
              /\ e.v[4] = HashString(e.b, FILE_KEY)
\* words: encrypt_block / decrypt_block / decrypt_dword on Len(e.w) words
EncOk(e)   == /\ e.enc = EncryptBlock(e.w, e.key)
              /\ e.dec = e.w                                   \* decrypt_block(encrypt_block(w)) = w
              /\ DecryptBlock(e.enc, e.key) = e.w              \* ... and the reference agrees
              /\ (Len(e.w) > 0 => e.dd = DecryptDword(e.enc[1], e.key))
\* bytes: ArchiveBuilder::encrypt_data / decrypt_file_data on any byte length
EncBytesOk(e) == /\ e.enc = EncryptBytes(e.b, e.key)
                 /\ e.dec = e.b
                 /\ Len(e.enc) = Len(e.b)
\* > 1 MiB buffers of a constant byte: probe words equal the reference keystream applied to the
\* regenerated plaintext, the tail stays in the clear, decrypting gives the plaintext back (tokens)
EncBigOk(e) == LET pw == WFromBytes(e.byte, e.byte, e.byte, e.byte)
                   ps == {e.probes[j][1] : j \in 1..Len(e.probes)}
                   ref == IF e.key = WZero THEN [ix \in ps |-> pw] ELSE EncryptProbes(pw, e.nwords, e.key, ps)
               IN  /\ \A j \in 1..Len(e.probes) : e.probes[j][2] = ref[e.probes[j][1]]
                   /\ e.tail = e.tailplain
                   /\ e.dtok = e.ptok
HetOk(e)   == LET h == HetHash(e.b, e.bits) IN e.file = h.file /\ e.name1 = h.name1

\* jenkins_hash: the as-coded 64-bit accumulator or the published 32-bit function
OaatOk(e)  == e.v = Oaat64(e.b) \/ e.v = Oaat32(e.b)

\* calculate_mpq_hashes / calculate_het_hashes (crypto/mod.rs) = the primitive hashes of the same name
WrapOk(e)  == /\ e.a = HashString(e.b, NAME_A) /\ e.bb = HashString(e.b, NAME_B) /\ e.off = HashString(e.b, TABLE_OFFSET)
              /\ LET h == HetHash(e.b, e.bits) IN e.file = h.file /\ e.name1 = h.name1

\* ---- round 4 ---------------------------------------------------------------------------------
\* het_hash at every width 1..64 (one lookup3 evaluation per name, the pair derived per width)
HetWBad(e) == LET full == HetFullHash(e.b) IN
              {j \in 1..Len(e.r) : LET h == HetOfFull(full, e.r[j][1]) IN
                                   e.r[j][2] # h.file \/ (h.defined /\ e.r[j][3] # h.name1)}
HetWWhy(e) == LET bad == HetWBad(e) IN
              IF bad = {} THEN "" ELSE "pair # lookup3 at width " \o ToString(e.r[CHOOSE j \in bad : \A q \in bad : j <= q][1])

\* extended-table body: what the builder-side cipher stored equals the reference; HetTable::read / BetTable::read
\* give back exactly the body that was stored (header, hash/index or flag/entry/hash arrays), for every length
TblWhy(e) == IF e.keycls = "table" /\ e.key # (IF e.which = "het" THEN HetTableKey ELSE BetTableKey) THEN "table key # MPQ hash of its name"
             ELSE IF e.st # TblStore(e.pre, e.key) THEN "stored table # reference encryption"
             ELSE IF TblLoad(e.st, e.key) # e.pre THEN "reference decryption does not invert"
             ELSE IF e.res # "ok" THEN "read failed: " \o e.res
             ELSE IF e.obs # e.plain THEN "body read back differs, len mod 4 = " \o ToString(e.r)
             ELSE ""

\* encrypted file: final key from the logged name / position / size; the stored image equals the reference
\* image unit by unit (raw sectors) or has a sane offset table under key - 1 (compressed sectors); reading
\* through Archive::read_file gives the plaintext back
EncFileKey(e) == FileFinalKey(e.b, e.pos, WFromNat(e.size), e.fix)
EncFileWhy(e) ==
  LET key == EncFileKey(e)
      n   == FileSectorCount(e.size, e.ss)
  IN  IF ~(e.res \in {"ok", "panic", "hang"} \/ SubSeq(e.res, 1, 4) = "err:") THEN "not produced: " \o e.res
      ELSE IF ~e.enc \/ e.fixf # e.fix THEN "not stored encrypted as requested"
      ELSE IF e.raw /\ e.st # FileStoreRaw(e.p, key, e.ss) THEN "stored units # reference encryption"
      ELSE IF ~e.raw /\ e.size > e.ss /\ ~FileOffsetsSane(FileLoadOffsets(e.st, key, n), n, e.stlen) THEN "offset table not under key-1"
      ELSE IF e.res # "ok" THEN "read_file failed: " \o e.res
      ELSE IF e.gtok # e.ptok \/ e.glen # e.size THEN "read_file # plaintext"
      ELSE ""
\* the zero-unit class asked for by the case is the one realised (coverage of the generator's dimension)
EncFileClassOk(e) ==
  LET zs == FileZeroUnits(EncFileKey(e), FileSectorCount(e.size, e.ss))
      n  == FileSectorCount(e.size, e.ss)
  IN  CASE e.zero = "none" -> zs = {}
        [] e.zero = "ot"   -> zs = {-1}
        [] e.zero = "s0"   -> zs = {0}
        [] e.zero = "s1"   -> zs = {1}
        [] e.zero = "last" -> zs = {n - 1}
        [] OTHER -> FALSE

\* DRIFT only: a data unit whose key is 0 is left in the clear by the library; the published cipher would encrypt it
EncFileZeroClear(e) ==
  LET n  == FileSectorCount(e.size, e.ss)
      zs == {u \in FileZeroUnits(EncFileKey(e), n) : u >= 0}
  IN  e.raw /\ e.res = "ok" /\ \E u \in zs :
        LET sec == FileSector(e.p, e.ss, u)
            lo  == IF n > 1 THEN 4 * (n + 1) + e.ss * u ELSE 0
        IN  Len(sec) >= 4 /\ SubSeq(e.st, lo + 1, lo + Len(sec)) # EncryptBytesRef(sec, WZero)

Why(e) == CASE e.ev = "HetW"    -> HetWWhy(e)
            [] e.ev = "Tbl"     -> TblWhy(e)
            [] e.ev = "EncFile" -> EncFileWhy(e)
            [] OTHER            -> ""
IsR4(e) == e.ev \in {"HetW", "Tbl", "EncFile"}

Ok(e) == CASE e.ev = "Table"    -> TableOk(e)
           [] e.ev = "Fold"     -> FoldOk(e)
           [] e.ev = "Hash"     -> HashOk(e)
           [] e.ev = "Enc"      -> EncOk(e)
           [] e.ev = "EncBytes" -> EncBytesOk(e)
           [] e.ev = "Het"      -> HetOk(e)
           [] e.ev = "Oaat"     -> OaatOk(e)
           [] e.ev = "Wrap"     -> WrapOk(e)
           [] e.ev = "FileKey"  -> e.v = FileKey(e.b)
           [] e.ev = "EncBig"   -> EncBigOk(e)
           [] e.ev = "HashB"    -> HashOk(e)          \* byte-level / SIMD entry points: same reference
           [] IsR4(e)           -> Why(e) = ""
           [] e.ev = "Reset"    -> TRUE
           [] OTHER             -> Assert(FALSE, <<"unknown event", e>>)

Init == tl = 1
Next == /\ tl <= Len(Rec)
        /\ tl' = tl + 1
        /\ IF Ok(Rec[tl]) THEN TRUE
           ELSE IF IsR4(Rec[tl]) THEN PrintT(<<"BAD", tl, Rec[tl].ev \o ": " \o Why(Rec[tl])>>)
           ELSE PrintT(<<"BAD", tl, Rec[tl].ev>>)
        /\ IF Rec[tl].ev = "EncFile" /\ ~EncFileClassOk(Rec[tl]) THEN PrintT(<<"DRIFT", tl, "EncFile: zero-unit class not realised">>) ELSE TRUE
        /\ IF Rec[tl].ev = "EncFile" /\ EncFileZeroClear(Rec[tl]) THEN PrintT(<<"DRIFT", tl, "EncFile: unit with key 0 stored in the clear">>) ELSE TRUE

Accepted == LET d == TLCGet("stats").diameter IN
            IF d - 1 = Len(Rec) THEN PrintT(<<"CONSUMED", Len(Rec)>>) ELSE Print(<<"TRACE_STUCK_AT", d>>, FALSE)
=============================================================================
