--------------------------- MODULE MC_AtomicWrite ---------------------------
(* Stage (A) for C12: exhaustive check of the design of build()/compact() as coded (temp file in  *)
(* the destination directory + rename), for every crash point and every choice of <= MaxFaults     *)
(* failing system calls.  The other cfg files instantiate the mutant strategies / the code's       *)
(* deviations; for those TLC must FIND a violation (checks/c12.py demands it).                    *)
EXTENDS AtomicWrite
=============================================================================
