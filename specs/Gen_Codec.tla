----------------------------- MODULE Gen_Codec -----------------------------
(* Stage (B) for C03: TLC enumerates selector x length x content class.  Bytes are concretised by   *)
(* the driver from (class, len, VERIF_SEED).  quick is a filter of the same set expression as        *)
(* thorough.  A few seed-dependent lengths (computed here from VERIF_SEED) rotate through 0..2^16.   *)
EXTENDS Codec, CodecHist, Json, IOUtils, SequencesExt

Thorough == IOEnv.VERIF_TIER = "thorough"
SeedN    == atoi(IOEnv.VERIF_SEED)

BaseLens == {0, 1, 2, 3, 4, 5, 127, 128, 129, 130, 255, 256, 257, 511, 512, 513, 4095, 4096, 4097,
             65535, 65536, 65537}
\* the property's quantifier goes up to 2^21: every codec is run at 2^20, 2^20 + 1 and 2^21 in thorough (a decoder
\* resource limit of 1 MiB, say, shows only above 2^20), and LZMA / bzip2 at 2^20 + 1 on one class in quick
BigLens  == {131072, 1048576, 1048577, 2097152}
QuickBig == {[m |-> m, len |-> 1048577, cls |-> "text"] : m \in {LZMA, BZIP2}}
SeedLens == {((SeedN % 1000) * 7919 + j * 10473) % 66000 : j \in 1..(IF Thorough THEN 30 ELSE 3)}
            \cup (IF Thorough THEN {((SeedN % 1000) * 7919 + j * 1047301) % 2097153 : j \in 1..4} ELSE {})
LosslessClasses == {"zeros", "run", "period2", "period3", "period7", "period128", "period129",
                    "sparse7f", "sparse80", "sparse81", "sparse", "random", "text", "ramp", "mixed"}
PcmLens    == {0, 1, 2, 4, 5, 6, 8, 128, 130, 256, 512, 513, 4096, 4098, 65536}
PcmClasses == {"pcm", "pcmL0", "pcmR0"}
\* selectors outside the supported set: refused ones, ones with ignored bits, both ADPCM bits
OddSelectors == {0, HUFFMAN, IMPLODE, 6, 10, 12, 20, 36, 65, 68, 192, 194}

Full ==
  {[m |-> m, len |-> n, cls |-> cl] : m \in LosslessSingles, n \in BaseLens \cup BigLens \cup SeedLens, cl \in LosslessClasses}
  \cup {[m |-> m, len |-> n, cls |-> cl] : m \in AdpcmSelectors, n \in PcmLens \cup {4 * ((x + 3) \div 4) : x \in BigLens} \cup {4 * (x \div 4) : x \in SeedLens}, cl \in PcmClasses}
  \* the store-raw boundary 1 + |c| = n, hit exactly: z zero bytes followed by non-zero bytes make the sparse
  \* encoder emit 4 + 1 + 1 + (n - z) bytes, so z = 7 is the last raw case and z = 8 the first prefixed one
  \cup {[m |-> SPARSE, len |-> n, cls |-> cl] : n \in {9, 40, 135}, cl \in {"z6nz", "z7nz", "z8nz"}}
  \cup {[m |-> m, len |-> n, cls |-> cl] : m \in Selectors, n \in {0, 4, 5, 256, 4096, 4100}, cl \in {"run", "random", "pcm"}}

InQuick(c) == /\ c.len <= 65537
              /\ (c.m \in LosslessSingles \cup AdpcmSelectors \cup OddSelectors)
              /\ (c.m \in OddSelectors => c.len \in {0, 5, 256, 4100})
              \* the rarely interesting classes only at boundary lengths in quick
              /\ (c.cls \in {"period2", "period3", "period129", "ramp"} => c.len \in {5, 129, 130, 257, 4097, 65536})

\* Ratio cases: the driver searches (by calling the real compressor) a length whose expected/stored ratio equals the
\* target; targets come from the limits the model knows: the fixed MaxRatio (admitted at r, refused at r + 1) and the
\* codec-bounded maxima below every entry of the adaptive table (sparse: one token byte stands for at most 130 zero
\* bytes, so all-zero input runs through 127..130 -- all far below AdaptiveLimit(d, SPARSE) >= 500 and must be accepted)
RatioCases == {[kind |-> "ratio", m |-> SPARSE, cls |-> "zeros", target |-> r] : r \in {126, 127, 128, 129, 130}}
         \cup {[kind |-> "ratio", m |-> m, cls |-> cl, target |-> r] :
                  m \in {ZLIB, BZIP2}, cl \in {"zeros", "run"}, r \in {MaxRatio - 1, MaxRatio, MaxRatio + 1}}   \* (lzma-rs never exceeds ~40:1)
ASSUME \A d \in {100, 512, 513, 4096, 4097, 65536, 65537} : AdaptiveLimit(d, SPARSE) > 130
\* Tail cases: units that shrink and END in a short zero tail -- a non-zero run of >= 4 bytes followed by exactly 1, 2 or
\* 3 zeros ("...name\0"), or a zero run of 127..131 bytes at the very end -- for sparse and for every supported
\* multi-method selector containing sparse: the sparse encoder closes such a unit with a maximal zero token and relies
\* on the decoder clamping it to the bytes still missing
TailClasses == {"ztail1", "ztail2", "ztail3", "zend127", "zend128", "zend129", "zend130", "zend131"}
TailCases == {[m |-> m, len |-> n, cls |-> cl] :
                m \in {SPARSE, ADPCM_MONO + SPARSE, ADPCM_STEREO + SPARSE}, n \in {320, 332, 512, 4100}, cl \in TailClasses}
\* History cases: the same unit is decompressed `calls` times in one process; the cumulative volume passes every session
\* budget of security.rs (strict 100 MB, default 1 GiB in both tiers; permissive 16 GiB in thorough)
HistCases == {[kind |-> "hist", m |-> SPARSE, cls |-> "zeros", len |-> 2097152, calls |-> IF Thorough THEN 8300 ELSE 600],
              [kind |-> "hist", m |-> ZLIB, cls |-> "text", len |-> 2097152, calls |-> 600],
              [kind |-> "hist", m |-> BZIP2, cls |-> "text", len |-> 1048577, calls |-> IF Thorough THEN 1100 ELSE 120]}

\* Call histories (CodecHist): a failed call followed by round trips on the same and on another thread.  For every supported
\* selector mb and every damage kind d (resp. a refused compress): the round trips the negative-control model says the failed
\* call endangers (SensitiveToBad: the selectors sharing the hit stage) plus mb itself run BEFORE the failed call on thread 1
\* (reference observations), then the failed call on thread 1, then the same round trips on thread 2 and on thread 1.
\* Units: one sector (4 KiB) and more than one zlib window (64 KiB + a seed-rotated multiple of 4).
UnitCls(m) == IF LossySel(m) THEN "pcm" ELSE IF m = SPARSE THEN "sparse7f" ELSE "text"
HistLens == {4096, 65536 + 4 * (1 + (SeedN % 1000))}
CallOp(t, o, m, n, d) == [thr |-> t, op |-> o, m |-> m, cls |-> UnitCls(m), len |-> n, dmg |-> d]
Goods(t, G, n) == LET sq == SetToSeq(G) IN [j \in 1..Len(sq) |-> CallOp(t, "good", sq[j], n, "-")]
HistoryOf(G, failing, n) == Goods(1, G, n) \o <<failing>> \o Goods(2, G, n) \o Goods(1, G, n)
CallHistories ==
  {[kind |-> "calls", m |-> mb, dmg |-> d, len |-> n,
    ops |-> HistoryOf(SensitiveToBad(mb, d) \cup {mb}, CallOp(1, "bad", mb, n, d), n)] : mb \in HSel, d \in HDamage, n \in HistLens}
  \cup {[kind |-> "calls", m |-> mb, dmg |-> "misaligned", len |-> n + 1,
         ops |-> HistoryOf(SensitiveToBadC(mb) \cup {mb}, CallOp(1, "badc", mb, n + 1, "-"), n)] : mb \in AdpcmSelectors, n \in HistLens}
ASSUME \A mb \in AdpcmSelectors, n \in HistLens : ~AdpcmAligned(mb, n + 1) /\ AdpcmAligned(mb, n)

CaseSet == IF Thorough THEN Full ELSE {c \in Full : InQuick(c)} \cup QuickBig
ASSUME QuickBig \subseteq Full
Cases == SetToSeq(CaseSet) \o SetToSeq(TailCases) \o SetToSeq(RatioCases) \o SetToSeq(HistCases) \o SetToSeq(CallHistories)
\* Codec declares state variables; the generator is a constant-level evaluation with a trivial behaviour
GOne(n) == {1}
GInit == CInitWith({0}, {0}, GOne) /\ HInit
GNext == UNCHANGED <<cvars, hvars>>
ASSUME ndJsonSerialize(IOEnv.CASES, Cases)
ASSUME PrintT(<<"GENERATED", Len(Cases)>>)
=============================================================================
