\* implementation as it is now, archive without listfile: TLC must exhibit a compact() that is not the abstract Compact
CONSTANTS
  H = 4
  UNames <- MCNames
  Home <- MCHome
  InitSeq <- MCInit
  InitTok <- MCInitTok
  InitRaw = {}
  SubOf <- MCSub
  HasLF0 = FALSE
  HasAT0 = FALSE
  Slack = 2
  FU = 2
  Ver = 1
  MaxCalls = 4
  MCToks = {"t1"}
SPECIFICATION CodeNowSpec
PROPERTY AtomicRefines
CHECK_DEADLOCK FALSE
