------------------------------- MODULE Rebuild -------------------------------
(***************************************************************************************************)
(* C07: rebuild_archive (rebuild.rs) as a state machine                                            *)
(*     Enumerate -> per listed file: Skip(reason) | Extract  -> [ListOnly] | Build -> [Verify]     *)
(*     -> Finish(summary)                                                                          *)
(* over an abstract source archive: a set of LISTED files, each with a content token and flags     *)
(* (encrypted, signature file, empty).  The property:                                              *)
(*   TargetExact          the target holds exactly the listed files the options do not exclude,    *)
(*                        with the same tokens                                                     *)
(*   CountsTruthful       source = |listed| , extracted = |target| , skipped = |excluded| ,        *)
(*                        extracted + skipped = source                                             *)
(*   SkippedOnlyByOption  a file is left out only for a reason an option names                     *)
(*   VerifyMeansEqual     verify = TRUE and Ok  =>  comparing source and target finds no difference*)
(* The deviations the implementation had before the fix commits 485ce03 / 323d4e2 are kept as     *)
(* named alternative actions (CodeNext) so that TLC keeps refuting that behaviour; the code as it  *)
(* is now follows DesignNext:                                                                      *)
(*   EnumerateAnonymous          a source with HET/BET tables (V3/V4) is enumerated through         *)
(*                               list_all_with_hashes(): placeholder names file_%08d.dat  F-C07-a  *)
(*   ExtractReadFailContinue     a file that cannot be read is dropped with a log line             *)
(*   FinishCountsBlocks          source count = blocks with file_size /= 0 (or the BET count), and *)
(*                               skipped = source - extracted in usize (underflow)        F-C07-b  *)
(* Expected(opts) is also the oracle used by Trace_Rebuild on runs of the real code.               *)
(***************************************************************************************************)
EXTENDS Naturals, Integers, FiniteSets

CONSTANTS RFiles,      \* listed names of the source
          RTok,        \* [RFiles -> token]
          REnc,        \* subset of RFiles: encrypted
          RSig,        \* subset of RFiles: signature files
          REmpty,      \* subset of RFiles: zero-length files
          RHetBet      \* the source has HET/BET tables (V3/V4)

RNone == "none"
OptSet == [skipEnc : BOOLEAN, skipSig : BOOLEAN, verify : BOOLEAN, listOnly : BOOLEAN]

VARIABLES rpc, ropts, rtodo, rextr, rskip, rlost, rtarget, rsum, rres
rvars == <<rpc, ropts, rtodo, rextr, rskip, rlost, rtarget, rsum, rres>>

\* the only legal reasons to leave a listed file out (parameterised: Trace_Rebuild applies them to
\* the source recorded in each trace)
ReasonOf(f, o, enc, sig) == IF o.skipSig /\ f \in sig THEN "signature"
                            ELSE IF o.skipEnc /\ f \in enc THEN "encrypted" ELSE ""
ExcludedOf(files, o, enc, sig) == {f \in files : ReasonOf(f, o, enc, sig) # ""}
ExpectedOf(files, tok, o, enc, sig) == [f \in files |-> IF f \in ExcludedOf(files, o, enc, sig) THEN RNone ELSE tok[f]]
Reason(f, o) == ReasonOf(f, o, REnc, RSig)
Excluded(o)  == ExcludedOf(RFiles, o, REnc, RSig)
Expected(o)  == ExpectedOf(RFiles, RTok, o, REnc, RSig)

RInit == /\ rpc = "start" /\ ropts \in OptSet /\ rtodo = {} /\ rextr = {} /\ rskip = {} /\ rlost = {}
         /\ rtarget = [f \in RFiles |-> RNone] /\ rsum = [source |-> 0, extracted |-> 0, skipped |-> 0] /\ rres = "running"

\* extract_files_with_metadata: get the file list
Enumerate == /\ rpc = "start" /\ rpc' = "extract" /\ rtodo' = RFiles
             /\ UNCHANGED <<ropts, rextr, rskip, rlost, rtarget, rsum, rres>>
\* deviation F-C07-a: the list holds placeholder names; none of them can be read back by name
EnumerateAnonymous == /\ rpc = "start" /\ RHetBet /\ rpc' = "extract_anon" /\ rtodo' = RFiles
                      /\ UNCHANGED <<ropts, rextr, rskip, rlost, rtarget, rsum, rres>>

Skip(f) == /\ rpc = "extract" /\ f \in rtodo /\ Reason(f, ropts) # ""
           /\ rskip' = rskip \cup {f} /\ rtodo' = rtodo \ {f}
           /\ UNCHANGED <<rpc, ropts, rextr, rlost, rtarget, rsum, rres>>
Extract(f) == /\ rpc = "extract" /\ f \in rtodo /\ Reason(f, ropts) = ""
              /\ rextr' = rextr \cup {f} /\ rtodo' = rtodo \ {f}
              /\ UNCHANGED <<rpc, ropts, rskip, rlost, rtarget, rsum, rres>>
\* deviation: `Err(e) => { log::warn!(..); continue; }`
ExtractReadFailContinue(f) == /\ rpc = "extract_anon" /\ f \in rtodo
                              /\ rlost' = rlost \cup {f} /\ rtodo' = rtodo \ {f}
                              /\ UNCHANGED <<rpc, ropts, rextr, rskip, rtarget, rsum, rres>>

Summary(src) == [source |-> src, extracted |-> Cardinality(rextr), skipped |-> src - Cardinality(rextr)]
\* list_only: report and stop, no target
ListOnly == /\ rpc \in {"extract", "extract_anon"} /\ rtodo = {} /\ ropts.listOnly
            /\ rsum' = Summary(Cardinality(RFiles)) /\ rpc' = "done" /\ rres' = "ok"
            /\ UNCHANGED <<ropts, rtodo, rextr, rskip, rlost, rtarget>>
\* rebuild_with_files: the target holds what was extracted
Build == /\ rpc \in {"extract", "extract_anon"} /\ rtodo = {} /\ ~ropts.listOnly
         /\ rtarget' = [f \in RFiles |-> IF f \in rextr THEN RTok[f] ELSE RNone]
         /\ rpc' = IF ropts.verify THEN "verify" ELSE "finish"
         /\ UNCHANGED <<ropts, rtodo, rextr, rskip, rlost, rsum, rres>>
\* verify_rebuild: expected (after the filters) against the target
VerifyOk   == /\ rpc = "verify" /\ rtarget = Expected(ropts) /\ rpc' = "finish"
              /\ UNCHANGED <<ropts, rtodo, rextr, rskip, rlost, rtarget, rsum, rres>>
VerifyFail == /\ rpc = "verify" /\ rtarget # Expected(ropts) /\ rpc' = "done" /\ rres' = "err"
              /\ UNCHANGED <<ropts, rtodo, rextr, rskip, rlost, rtarget, rsum>>
\* designed summary: counted over the listed files
Finish == /\ rpc = "finish" /\ rsum' = Summary(Cardinality(RFiles)) /\ rpc' = "done" /\ rres' = "ok"
          /\ UNCHANGED <<ropts, rtodo, rextr, rskip, rlost, rtarget>>
\* deviation F-C07-b: the source count is the number of blocks with file_size /= 0 (classic tables)
BlockCount == Cardinality(RFiles \ REmpty)
FinishCountsBlocks ==
    /\ rpc = "finish" /\ rpc' = "done"
    /\ IF BlockCount < Cardinality(rextr)
       THEN rres' = "panic" /\ UNCHANGED rsum                 \* usize underflow
       ELSE rres' = "ok" /\ rsum' = Summary(BlockCount)
    /\ UNCHANGED <<ropts, rtodo, rextr, rskip, rlost, rtarget>>

DesignNext == Enumerate \/ (\E f \in RFiles : Skip(f) \/ Extract(f)) \/ ListOnly \/ Build \/ VerifyOk \/ VerifyFail \/ Finish
CodeNext   == (~RHetBet /\ Enumerate) \/ EnumerateAnonymous
              \/ (\E f \in RFiles : Skip(f) \/ Extract(f) \/ ExtractReadFailContinue(f))
              \/ ListOnly \/ Build \/ VerifyOk \/ VerifyFail \/ FinishCountsBlocks

Done == rpc = "done"
TargetExact         == (Done /\ rres = "ok" /\ ~ropts.listOnly) => rtarget = Expected(ropts)
ListOnlyNoTarget    == (Done /\ ropts.listOnly) => rtarget = [f \in RFiles |-> RNone]
CountsTruthful      == (Done /\ rres = "ok") =>
                          /\ rsum.source = Cardinality(RFiles)
                          /\ rsum.extracted = Cardinality(RFiles \ Excluded(ropts))
                          /\ rsum.skipped = Cardinality(Excluded(ropts))
                          /\ rsum.extracted + rsum.skipped = rsum.source
SkippedOnlyByOption == rskip \subseteq Excluded(ropts) /\ rlost = {}
VerifyMeansEqual    == (Done /\ rres = "ok" /\ ropts.verify /\ ~ropts.listOnly) => rtarget = Expected(ropts)
Terminates          == <>Done
NeverFails          == Done => rres = "ok"
=============================================================================
