------------------------------ MODULE DbcLayout ------------------------------
(* C17 -- WDBC client database files (file-formats/database/wow-cdbc).                              *)
(*                                                                                                 *)
(*   file   = header(20) ++ records(n * RecordSize) ++ string block                                 *)
(*   header = "WDBC", record_count, field_count, record_size, string_block_size   (u32 LE each)     *)
(*   record = the fields of the schema back to back, array fields element by element               *)
(*   string fields hold a byte offset into the string block; offset 0 is the empty string          *)
(*                                                                                                 *)
(* The module is (i) the arithmetic oracle (sizes, counts, offsets), (ii) a model of the writer's   *)
(* string interning, (iii) a writer / reader machine whose four access paths compute record         *)
(* positions differently, (iv) the key lookup structures.  Where the code knowingly deviates from   *)
(* the code once deviated from the ideal the deviation is kept as a named action                    *)
(* (W_HeaderFieldsLen, W_InternTopLevelOnly: writer before c1c40a9; K_BuildIgnoringInt32: key index  *)
(* before a6663f8).  The as-coded behaviour since those commits is the ideal one (W_Header,          *)
(* W_Intern, K_Build); the deviations stay in the model so that TLC keeps showing what they break.   *)
EXTENDS Integers, Sequences, SequencesExt, FiniteSets, TLC

\* ---- field types --------------------------------------------------------------------------------
Types == {"Int32", "UInt32", "Float32", "String", "Bool", "UInt8", "Int8", "UInt16", "Int16"}
TypeSize(dty) == CASE dty \in {"Int32", "UInt32", "Float32", "String", "Bool"} -> 4
                   [] dty \in {"UInt16", "Int16"} -> 2
                   [] dty \in {"UInt8", "Int8"} -> 1

\* a schema is a sequence of fields [ty, arr]; arr = 0: scalar, arr = k > 0: array of k elements
Elems(dfld)     == IF dfld.arr = 0 THEN 1 ELSE dfld.arr
FieldBytes(dfld) == TypeSize(dfld.ty) * Elems(dfld)
DSum(dseq)      == FoldLeft(LAMBDA da, db : da + db, 0, dseq)
RecordSize(dsch) == DSum([di \in 1..Len(dsch) |-> FieldBytes(dsch[di])])
\* what Schema::validate demands of the header: array elements count one by one
FieldCount(dsch) == DSum([di \in 1..Len(dsch) |-> Elems(dsch[di])])
\* byte offset of field di inside a record
FieldOffset(dsch, di) == DSum([dj \in 1..(di - 1) |-> FieldBytes(dsch[dj])])
FieldOffsets(dsch)    == [di \in 1..Len(dsch) |-> FieldOffset(dsch, di)]
HEADER == 20
RecordPos(dsch, dri)  == HEADER + dri * RecordSize(dsch)                   \* dri is 0-based
StringBlockPos(dsch, dn) == HEADER + dn * RecordSize(dsch)
FileSize(dn, drs, dsb) == HEADER + dn * drs + dsb

KeyOk(dsch, dkey) == dkey = 0 \/ (dkey \in 1..Len(dsch) /\ dsch[dkey].ty \in {"UInt32", "Int32"} /\ dsch[dkey].arr = 0)
\* Schema::validate(field_count, record_size)
SchemaAccepts(dsch, dkey, dfc, drs) == dfc = FieldCount(dsch) /\ drs = RecordSize(dsch) /\ KeyOk(dsch, dkey)

\* ---- string interning ---------------------------------------------------------------------------
\* strings are abstract ids; id 0 is the empty string; dlen[id] is the byte length (dlen[0] = 0).
\* The block is a sequence of ids; Intern visits the references in record order.
BlockOffsets(dblock, dlen) ==                    \* offset of the k-th string of the block
    [dk \in 1..Len(dblock) |-> DSum([dj \in 1..(dk - 1) |-> dlen[dblock[dj]] + 1])]
BlockSize(dblock, dlen) == DSum([dj \in 1..Len(dblock) |-> dlen[dblock[dj]] + 1])
Intern(drefs) ==                                  \* first-occurrence order, the empty string first
    FoldLeft(LAMBDA dacc, dsid : IF \E dk \in 1..Len(dacc) : dacc[dk] = dsid THEN dacc ELSE Append(dacc, dsid), <<0>>, drefs)
OffsetOf(dblock, dlen, dsid) ==
    LET dk == CHOOSE dkk \in 1..Len(dblock) : dblock[dkk] = dsid IN BlockOffsets(dblock, dlen)[dk]
NoDuplicates(dblock) == \A da, db \in 1..Len(dblock) : dblock[da] = dblock[db] => da = db
\* the string found at a byte offset of the block (-1: not the start of a string)
StringAt(dblock, dlen, doff) ==
    LET dhits == {dk \in 1..Len(dblock) : BlockOffsets(dblock, dlen)[dk] = doff}
    IN IF dhits = {} THEN -1 ELSE dblock[CHOOSE dk \in dhits : TRUE]

\* ---- string references at every kind of offset the format allows ------------------------------------
\* A reference is a byte offset into the block; it need not be the start of a stored string: it may point
\* inside one (suffix sharing: "City" inside "Stormwind City"), at a terminating NUL (the empty string), at
\* offset 0, or at the last byte of the block.  Locate gives <<k, skip>>: the k-th string of the block, skip
\* bytes in (skip = length: the terminator); the text is the suffix of string k from skip.
RefKinds == {"start", "inside", "nul", "zero", "last"}
Locate(dblock, dlen, doff) ==
    LET dofs == BlockOffsets(dblock, dlen)
        dk == CHOOSE dkk \in 1..Len(dblock) : dofs[dkk] <= doff /\ doff <= dofs[dkk] + dlen[dblock[dkk]]
    IN <<dk, doff - dofs[dk]>>
\* the offset a reference of a given kind to the k-th string uses (dskip only matters for "inside")
RefOffsetOfKind(dblock, dlen, dk, dkind, dskip) ==
    LET dofs == BlockOffsets(dblock, dlen) IN
    CASE dkind = "start"  -> dofs[dk]
      [] dkind = "inside" -> dofs[dk] + dskip
      [] dkind = "nul"    -> dofs[dk] + dlen[dblock[dk]]
      [] dkind = "zero"   -> 0
      [] dkind = "last"   -> BlockSize(dblock, dlen) - 1
\* length of the text a reference resolves to
RefTextLen(dblock, dlen, doff) == LET dl == Locate(dblock, dlen, doff) IN dlen[dblock[dl[1]]] - dl[2]

\* ---- routes: every public way of reaching record i through the lazy iterator --------------------------
\* A route is [kind, a, b]; RouteIdx gives the 0-based record indices it must yield, in order, on a table of
\* dn records.  (LazyRecordIterator is a plain Iterator: next, nth, skip, step_by, last and their
\* compositions are its public surface; it is not double-ended.)
DCeil(da, db) == (da + db - 1) \div db
FromTo(dlo, dhi) == [di \in 1..(IF dhi >= dlo THEN dhi - dlo + 1 ELSE 0) |-> dlo + di - 1]
Stepped(dlo, dn, dstep) == [di \in 1..(IF dlo < dn THEN DCeil(dn - dlo, dstep) ELSE 0) |-> dlo + (di - 1) * dstep]
RouteIdx(dr, dn) ==
    CASE dr.kind = "iter"     -> FromTo(0, dn - 1)
      [] dr.kind = "nth"      -> IF dr.a < dn THEN <<dr.a>> ELSE <<>>
      [] dr.kind = "skip"     -> FromTo(dr.a, dn - 1)
      [] dr.kind = "step"     -> Stepped(0, dn, dr.a)
      [] dr.kind = "skipstep" -> Stepped(dr.a, dn, dr.b)
      [] dr.kind = "last"     -> IF dn > 0 THEN <<dn - 1>> ELSE <<>>
      [] dr.kind = "nthnth"   -> (IF dr.a < dn THEN <<dr.a>> ELSE <<>>) \o (IF dr.a + dr.b + 1 < dn THEN <<dr.a + dr.b + 1>> ELSE <<>>)
RouteRec(dk, da, db) == [kind |-> dk, a |-> da, b |-> db]
RoutesFor(dn) ==
    {RouteRec("iter", 0, 0), RouteRec("last", 0, 0)}
    \cup {RouteRec("nth", da, 0) : da \in {0, 1, 2, dn \div 2} \cup (IF dn > 0 THEN {dn - 1} ELSE {}) \cup {dn}}
    \cup {RouteRec("skip", da, 0) : da \in {1, 2} \cup (IF dn > 0 THEN {dn - 1} ELSE {}) \cup {dn}}
    \cup {RouteRec("step", da, 0) : da \in {1, 2, 3}}
    \cup {RouteRec("skipstep", 1, 2), RouteRec("skipstep", 2, 3)}
    \cup {RouteRec("nthnth", 0, 0), RouteRec("nthnth", 1, 1), RouteRec("nthnth", 0, 2)}
\* the byte position an item reached by skipping must be read from: skipped records advance the cursor by
\* the record size; `4 * field_count` is the same number exactly for layouts made of 32-bit fields only
SkipStride(dsch) == RecordSize(dsch)
AllWide(dsch) == \A di \in 1..Len(dsch) : TypeSize(dsch[di].ty) = 4

\* ---- column names ---------------------------------------------------------------------------------
\* Field names are labels, not identities: schemas with repeated names ("Unknown", "Unknown", ...) are
\* common; column i of a record is always the i-th field.  NameClasses are the shapes of the name list.
NameClasses == {"distinct", "dupAdjacent", "dupApart", "allEqual"}
FieldNames(dcls, dnf) ==
    [di \in 1..dnf |->
       CASE dcls = "allEqual" -> "Unknown"
         [] dcls = "dupAdjacent" /\ di \in {1, 2} /\ dnf >= 2 -> "Unknown"
         [] dcls = "dupApart" /\ di \in {1, dnf} /\ dnf >= 2 -> "Unknown"
         [] OTHER -> "f" \o ToString(di)]
\* the column a by-name lookup would pick for column di (first field carrying that name)
FirstOfName(dnames, di) == CHOOSE dj \in 1..Len(dnames) : dnames[dj] = dnames[di] /\ \A dk \in 1..(dj - 1) : dnames[dk] # dnames[di]
NamesDistinct(dnames) == \A da, db \in 1..Len(dnames) : dnames[da] = dnames[db] => da = db

\* ---- key columns: order classes -------------------------------------------------------------------
\* explicit key columns (0-based record i -> key) for small tables; dbase is the smallest key
KeyOrders == {"ascDense", "ascGaps", "desc", "permSpan", "dupSpan"}
KeyColumnOf(dcls, dn, dbase) ==
    [di \in 1..dn |->
       CASE dcls = "ascDense" -> dbase + di - 1
         [] dcls = "ascGaps"  -> dbase + 3 * (di - 1)
         [] dcls = "desc"     -> dbase + dn - di
         [] dcls = "permSpan" -> IF di = 1 THEN dbase ELSE IF di = dn THEN dbase + dn - 1 ELSE dbase + dn - di   \* min first, max last, middle reversed
         [] dcls = "dupSpan"  -> IF di = 1 THEN dbase ELSE IF di = dn THEN dbase + dn - 1 ELSE dbase + 1]      \* [b, b+1, b+1, ..., b+n-1]
\* keys worth probing that are NOT in the column: holes inside the span, and just outside it
AbsentProbes(dkeys, dbase) ==
    LET dn == Len(dkeys)  dhave == {dkeys[di] : di \in 1..dn}
        dcand == {dbase - 1} \cup {dbase + dj : dj \in 0..(3 * dn + 1)}
    IN {dk \in dcand : dk \notin dhave}
\* "the table is numbered consecutively" as a first/last test, and what it would license
SpanLooksDense(dkeys) == Len(dkeys) > 0 /\ dkeys[Len(dkeys)] - dkeys[1] + 1 = Len(dkeys)
IndexShortcutSound(dkeys) == \A di \in 1..Len(dkeys) : dkeys[di] = dkeys[1] + di - 1

\* ---- key lookup ---------------------------------------------------------------------------------
\* dkeys: the key column (one value per record, 0-based record index = position - 1)
HashLookup(dkeys, dk) ==                          \* HashMap::insert overwrites: the LAST record wins
    LET dhits == {di \in 1..Len(dkeys) : dkeys[di] = dk} IN
    IF dhits = {} THEN 0 ELSE CHOOSE di \in dhits : \A dj \in dhits : dj <= di
SortedIndex(dkeys) == SortSeq([di \in 1..Len(dkeys) |-> <<dkeys[di], di>>], LAMBDA da, db : da[1] < db[1])
BinaryLookups(dkeys, dk) == {di \in 1..Len(dkeys) : dkeys[di] = dk}     \* any of the duplicates may be returned
LookupSound(dkeys, dk, dres) == IF \E di \in 1..Len(dkeys) : dkeys[di] = dk
                                THEN dres \in 1..Len(dkeys) /\ dkeys[dres] = dk
                                ELSE dres = 0

\* ================================ writer / reader machine ========================================
\* vsch, vkey   : schema, key field (0 = none)
\* vrecs        : records; a record is a sequence (one entry per field) of sequences of element values;
\*                for String fields the values are string ids, for the key field the key value
\* vlen         : string id -> length
\* vhdr         : header written ([n, fc, rs, sb]);  vout : bytes emitted so far;  vblock : string block
\* vrefs        : offsets written for the string elements, per record / field / element
\* vpc, vdev    : control state; set of named deviations taken
\* vread        : per access path, the byte position it computed for every record
\* vkmap        : key structures built by the reader
VARIABLES vsch, vkey, vrecs, vlen, vhdr, vout, vblock, vrefs, vpc, vdev, vread, vkmap
dvars == <<vsch, vkey, vrecs, vlen, vhdr, vout, vblock, vrefs, vpc, vdev, vread, vkmap>>

NRec == Len(vrecs)
StringFields == {di \in 1..Len(vsch) : vsch[di].ty = "String"}
\* every string reference of the table in the order the ideal writer meets them
AllRefs == FoldLeft(LAMBDA dacc, drec : dacc \o FoldLeft(LAMBDA dacc2, di : IF di \in StringFields THEN dacc2 \o drec[di] ELSE dacc2,
                                                         <<>>, [dj \in 1..Len(vsch) |-> dj]),
                    <<>>, vrecs)
\* writer.rs build_string_block before c1c40a9 looked at top-level StringRef values only: elements of
\* array fields were not visited
TopLevelRefs == FoldLeft(LAMBDA dacc, drec : dacc \o FoldLeft(LAMBDA dacc2, di : IF di \in StringFields /\ vsch[di].arr = 0 THEN dacc2 \o drec[di] ELSE dacc2,
                                                              <<>>, [dj \in 1..Len(vsch) |-> dj]),
                         <<>>, vrecs)

DStart(dsch, dkey, drecs, dlen) ==
    /\ vsch = dsch /\ vkey = dkey /\ vrecs = drecs /\ vlen = dlen
    /\ vhdr = <<>> /\ vout = 0 /\ vblock = <<>> /\ vrefs = <<>> /\ vpc = "intern" /\ vdev = {}
    /\ vread = <<>> /\ vkmap = <<>>

\* -- writer (writer.rs:write_records) --
W_Intern == /\ vpc = "intern" /\ vpc' = "header"
            /\ vblock' = Intern(AllRefs)
            /\ UNCHANGED <<vsch, vkey, vrecs, vlen, vhdr, vout, vrefs, vdev, vread, vkmap>>
\* named deviation (writer before c1c40a9): strings inside array fields are not interned (written as offset 0)
W_InternTopLevelOnly == /\ vpc = "intern" /\ vpc' = "header"
                        /\ \E di \in StringFields : vsch[di].arr > 0
                        /\ vblock' = Intern(TopLevelRefs)
                        /\ vdev' = vdev \cup {"intern-top-level-only"}
                        /\ UNCHANGED <<vsch, vkey, vrecs, vlen, vhdr, vout, vrefs, vread, vkmap>>
W_Header == /\ vpc = "header" /\ vpc' = "records"
            /\ vhdr' = [n |-> NRec, fc |-> FieldCount(vsch), rs |-> RecordSize(vsch), sb |-> BlockSize(vblock, vlen)]
            /\ vout' = HEADER
            /\ UNCHANGED <<vsch, vkey, vrecs, vlen, vblock, vrefs, vdev, vread, vkmap>>
\* named deviation (writer before c1c40a9): the header stores schema.fields.len()
W_HeaderFieldsLen == /\ vpc = "header" /\ vpc' = "records"
                     /\ Len(vsch) # FieldCount(vsch)
                     /\ vhdr' = [n |-> NRec, fc |-> Len(vsch), rs |-> RecordSize(vsch), sb |-> BlockSize(vblock, vlen)]
                     /\ vout' = HEADER
                     /\ vdev' = vdev \cup {"field-count-is-fields-len"}
                     /\ UNCHANGED <<vsch, vkey, vrecs, vlen, vblock, vrefs, vread, vkmap>>
\* one record per step; string elements are replaced by their offset (0 when not interned)
RefOffset(dsid) == IF \E dk \in 1..Len(vblock) : vblock[dk] = dsid THEN OffsetOf(vblock, vlen, dsid) ELSE 0
W_Record == /\ vpc = "records" /\ Len(vrefs) < NRec
            /\ LET drec == vrecs[Len(vrefs) + 1] IN
               vrefs' = Append(vrefs, [di \in 1..Len(vsch) |->
                                        IF di \in StringFields THEN [de \in 1..Len(drec[di]) |-> RefOffset(drec[di][de])]
                                        ELSE <<>>])
            /\ vout' = vout + RecordSize(vsch)
            /\ UNCHANGED <<vsch, vkey, vrecs, vlen, vhdr, vblock, vpc, vdev, vread, vkmap>>
W_StringBlock == /\ vpc = "records" /\ Len(vrefs) = NRec
                 /\ vout' = vout + BlockSize(vblock, vlen)
                 /\ vpc' = "read"
                 /\ UNCHANGED <<vsch, vkey, vrecs, vlen, vhdr, vblock, vrefs, vdev, vread, vkmap>>

\* -- reader: four access paths; each yields the position of every record --
\* eager (parser.rs parse_records) and mmap (same code on the mapped bytes): one running cursor,
\* advanced by the bytes each field decoder consumes
CursorPositions == [dri \in 1..NRec |-> HEADER + (dri - 1) * DSum([di \in 1..Len(vsch) |-> TypeSize(vsch[di].ty) * Elems(vsch[di])])]
\* lazy get_record(i) and parallel: header size + index * header.record_size
IndexPositions  == [dri \in 1..NRec |-> HEADER + (dri - 1) * vhdr.rs]
R_Paths == /\ vpc = "read" /\ vpc' = "keys"
           /\ SchemaAccepts(vsch, vkey, vhdr.fc, vhdr.rs)
           /\ vread' = [eager |-> CursorPositions, mmap |-> CursorPositions, lazy |-> IndexPositions, par |-> IndexPositions]
           /\ UNCHANGED <<vsch, vkey, vrecs, vlen, vhdr, vout, vblock, vrefs, vdev, vkmap>>
\* the schema validation of the reader refuses the file (only possible after a deviation)
R_Refused == /\ vpc = "read" /\ vpc' = "refused"
             /\ ~SchemaAccepts(vsch, vkey, vhdr.fc, vhdr.rs)
             /\ UNCHANGED <<vsch, vkey, vrecs, vlen, vhdr, vout, vblock, vrefs, vdev, vread, vkmap>>

KeyColumn == [dri \in 1..NRec |-> vrecs[dri][vkey][1]]
K_Build == /\ vpc = "keys" /\ vpc' = "done" /\ vkey # 0
           /\ vkmap' = [hash |-> [dk \in Range(KeyColumn) |-> HashLookup(KeyColumn, dk)], sorted |-> SortedIndex(KeyColumn)]
           /\ UNCHANGED <<vsch, vkey, vrecs, vlen, vhdr, vout, vblock, vrefs, vdev, vread>>
\* named deviation (before a6663f8): RecordSet::new and create_sorted_key_map only match Value::UInt32
K_BuildIgnoringInt32 == /\ vpc = "keys" /\ vpc' = "done" /\ vkey # 0 /\ vsch[vkey].ty = "Int32"
                        /\ vkmap' = [hash |-> <<>>, sorted |-> <<>>]
                        /\ vdev' = vdev \cup {"int32-key-ignored"}
                        /\ UNCHANGED <<vsch, vkey, vrecs, vlen, vhdr, vout, vblock, vrefs, vread>>
K_None == /\ vpc = "keys" /\ vpc' = "done" /\ vkey = 0
          /\ UNCHANGED <<vsch, vkey, vrecs, vlen, vhdr, vout, vblock, vrefs, vdev, vread, vkmap>>

DbcNext == W_Intern \/ W_InternTopLevelOnly \/ W_Header \/ W_HeaderFieldsLen \/ W_Record \/ W_StringBlock
           \/ R_Paths \/ R_Refused \/ K_Build \/ K_BuildIgnoringInt32 \/ K_None

\* ================================ invariants =====================================================
Written == vpc \in {"read", "keys", "done", "refused"}
\* size = header + records * record size + string block, from the header fields that were written
SizeArithmetic == Written => vout = FileSize(vhdr.n, vhdr.rs, vhdr.sb) /\ vhdr.n = NRec /\ vhdr.rs = RecordSize(vsch)
\* identical strings are stored once; offset 0 is the empty string
InternOnce == vpc # "intern" => NoDuplicates(vblock) /\ vblock[1] = 0 /\ OffsetOf(vblock, vlen, 0) = 0
\* interning is injective: different strings get different offsets
InternInjective == vpc # "intern" =>
    \A da, db \in 1..Len(vblock) : da # db => BlockOffsets(vblock, vlen)[da] # BlockOffsets(vblock, vlen)[db]
\* every written reference resolves to the string it stood for (without deviation)
RefsResolve == (Written /\ "intern-top-level-only" \notin vdev) =>
    \A dri \in 1..NRec : \A di \in StringFields : \A de \in 1..Len(vrecs[dri][di]) :
       StringAt(vblock, vlen, vrefs[dri][di][de]) = vrecs[dri][di][de]
\* ... and with the deviation exactly the strings that occur only inside arrays are lost
LossOnlyInArrays == (Written /\ "intern-top-level-only" \in vdev) =>
    \A dri \in 1..NRec : \A di \in StringFields : \A de \in 1..Len(vrecs[dri][di]) :
       \/ StringAt(vblock, vlen, vrefs[dri][di][de]) = vrecs[dri][di][de]
       \/ (vsch[di].arr > 0 /\ vrefs[dri][di][de] = 0)
\* the file the ideal writer produces is accepted by the reader's schema validation; with the
\* fields.len() deviation it is refused exactly when some array has more than one element
ReparseAccepted == (vpc \in {"keys", "done"} \/ vpc = "refused") =>
    ((vpc = "refused") <=> ("field-count-is-fields-len" \in vdev))
\* the four access paths compute the same position for every record, inside the record area
PathsAgree == vpc \in {"keys", "done"} =>
    /\ vread.eager = vread.lazy /\ vread.lazy = vread.par /\ vread.par = vread.mmap
    /\ \A dri \in 1..NRec : vread.eager[dri] = RecordPos(vsch, dri - 1)
                            /\ vread.eager[dri] + RecordSize(vsch) <= StringBlockPos(vsch, NRec)
\* hashed and binary-searched lookups return a record carrying the key (any duplicate)
KeysSound == (vpc = "done" /\ vkey # 0 /\ "int32-key-ignored" \notin vdev) =>
    \A dk \in Range(KeyColumn) \cup {99} :
       /\ LookupSound(KeyColumn, dk, IF dk \in DOMAIN vkmap.hash THEN vkmap.hash[dk] ELSE 0)
       /\ \A dres \in BinaryLookups(KeyColumn, dk) : LookupSound(KeyColumn, dk, dres)
       /\ \A dp \in 1..(Len(vkmap.sorted) - 1) : vkmap.sorted[dp][1] <= vkmap.sorted[dp + 1][1]    \* binary search needs order
=============================================================================
