-------------------------- MODULE Trace_Integrity --------------------------
(* Stage (D) for C10.  One trace = one real archive (configuration from Gen_Integrity): the     *)
(* observations of every detector on the intact archive, then one Corrupt event per alteration  *)
(* (offset, mutation kind, region kind computed from the INTACT archive's tables, and the raw   *)
(* observations of every detector on the altered copy).  TLC evaluates Integrity's judgement:   *)
(*   P1 intact  => every detector passes and every file reads back with its original token      *)
(*   P2 altered, region protected by the configuration (IntegrityDefs!Protected)                *)
(*              => some detector reports failure  \/  every token equals the original           *)
(*   P3 a signature produced by the library verifies; any bit flip in the signed bytes or in    *)
(*      the 64 signature bytes makes it stop verifying                                          *)
(* Detectors: Open, Read(f), SFileVerifyFile(f, SECTOR_CRC / FILE_CRC / FILE_MD5), get_info     *)
(* (Md5Status, SignatureStatus).  A digest counts as "reports failure" only if it verified on   *)
(* the intact archive (otherwise a digest that is always invalid would hide everything).        *)
EXTENDS IntegrityDefs, Json, IOUtils, TLCExt

Rec == ndJsonDeserialize(IOEnv.TRACE)
VARIABLES tl, vcfg, vfiles, vmd5, vsig
tvars == <<tl, vcfg, vfiles, vmd5, vsig>>

E == Rec[tl]
Is(k) == Rec[tl].ev = k
Bad(why)   == PrintT(<<"BAD", tl, why>>)
Drift(why) == PrintT(<<"DRIFT", tl, why>>)
Keep == UNCHANGED <<vcfg, vfiles, vmd5, vsig>>
AllTrue(s) == \A j \in 1..Len(s) : s[j] = TRUE

\* ---- observations -------------------------------------------------------------------------------
ReadsOriginal(e) == /\ e.open = "ok" /\ Len(e.reads) = Len(vfiles)
                    /\ \A j \in 1..Len(vfiles) : /\ e.reads[j][1] = vfiles[j][1]
                                                 /\ e.reads[j][2] = "ok"
                                                 /\ e.reads[j][3] = vfiles[j][2]
ReadFails(e)     == e.open # "ok" \/ \E j \in 1..Len(e.reads) : e.reads[j][2] # "ok"
VerifyFails(e)   == ~e.fopen \/ \E j \in 1..Len(e.verify) : ~(e.verify[j][2] /\ e.verify[j][3] /\ e.verify[j][4])
\* a digest that verified on the intact archive no longer does (or the status vanished)
Md5Fails(e)      == /\ Len(vmd5) > 0
                    /\ \/ Len(e.md5) # Len(vmd5)
                       \/ \E j \in 1..Len(vmd5) : vmd5[j] /\ ~e.md5[j]
SigFails(e)      == vcfg.signed /\ e.sig # "WeakValid"
Detected(e)      == ReadFails(e) \/ VerifyFails(e) \/ e.info # "ok" \/ Md5Fails(e) \/ SigFails(e)

T_Reset ==
    /\ Is("Reset")
    /\ vcfg' = E.cfg /\ vfiles' = E.files
    /\ vmd5' = <<>>
    /\ vsig' = IF "slo" \in DOMAIN E THEN <<E.begin, E.end, E.slo, E.shi>> ELSE <<0, 0, 0, 0>>

T_Intact ==
    /\ Is("Intact") /\ UNCHANGED <<vcfg, vfiles, vsig>>
    /\ vmd5' = E.md5
    /\ IF ReadsOriginal(E) THEN TRUE ELSE Bad("intact: read-back differs from original")
    /\ IF E.fopen THEN TRUE ELSE Bad("intact: SFileOpenArchive fails")
    /\ IF \A j \in 1..Len(E.verify) : E.verify[j][2] THEN TRUE ELSE Bad("intact: SFileVerifyFile SECTOR_CRC fails")
    /\ IF \A j \in 1..Len(E.verify) : E.verify[j][3] THEN TRUE ELSE Bad("intact: SFileVerifyFile FILE_CRC fails")
    /\ IF \A j \in 1..Len(E.verify) : E.verify[j][4] THEN TRUE ELSE Bad("intact: SFileVerifyFile FILE_MD5 fails")
    /\ IF E.info = "ok" THEN TRUE ELSE Bad("intact: get_info fails")
    /\ IF vcfg.ver = 4 /\ (Len(E.md5) # 6 \/ ~(E.md5[1] /\ E.md5[2] /\ E.md5[3] /\ E.md5[6]))
         THEN Bad("intact: v4 hash/block/header digest invalid") ELSE TRUE
    /\ IF vcfg.ver = 4 /\ Len(E.md5) = 6 /\ ~(E.md5[4] /\ E.md5[5])
         THEN Bad("intact: v4 HET/BET digest invalid") ELSE TRUE
    /\ IF vcfg.signed /\ E.sig # "WeakValid" THEN Bad("intact: signature does not verify") ELSE TRUE
    /\ IF Len(E.tblfail) > 0 THEN Bad("intact: a table failed to load") ELSE TRUE

T_Regions == Is("Regions") /\ Keep

T_BuildFailed == Is("BuildFailed") /\ Keep /\ Drift("archive could not be built")

T_Corrupt ==
    /\ Is("Corrupt") /\ Keep
    /\ E.region \in RegionKinds
    /\ E.region_end \in RegionKinds
    /\ IF /\ ObsHolds(vcfg, E.region, Detected(E), ReadsOriginal(E))
          /\ ObsHolds(vcfg, E.region_end, Detected(E), ReadsOriginal(E)) THEN TRUE
       ELSE Bad("undetected alteration of protected region")
    /\ IF E.open \in {"abort", "hang", "panic"} THEN Drift("detector aborted/hung/panicked") ELSE TRUE

T_SigIntact ==
    /\ Is("SigIntact") /\ Keep
    /\ IF E.res = "valid" THEN TRUE ELSE Bad("fresh weak signature does not verify")

\* the class of the flipped byte is decided here from the logged integers (not from the harness's label)
T_SigFlip ==
    /\ Is("SigFlip") /\ Keep
    /\ IF /\ (SigMustFail(E.off, vsig[1], vsig[2], vsig[3], vsig[4]) \/ SigMustFail(E.off_last, vsig[1], vsig[2], vsig[3], vsig[4]))
          /\ E.res = "valid"
         THEN Bad("signature still verifies after a bit flip") ELSE TRUE
    /\ IF SigClass(E.off, vsig[1], vsig[2], vsig[3], vsig[4]) # SigClass(E.off_last, vsig[1], vsig[2], vsig[3], vsig[4])
         THEN Drift("folded SigFlip run crosses a class boundary") ELSE TRUE

TInit == tl = 1 /\ vcfg = [ver |-> 0] /\ vfiles = <<>> /\ vmd5 = <<>> /\ vsig = <<0, 0, 0, 0>>
TNext == /\ tl <= Len(Rec) /\ tl' = tl + 1
         /\ \/ T_Reset \/ T_Intact \/ T_Regions \/ T_BuildFailed \/ T_Corrupt \/ T_SigIntact \/ T_SigFlip

Accepted == LET d == TLCGet("stats").diameter IN
            IF d - 1 = Len(Rec) THEN PrintT(<<"CONSUMED", Len(Rec)>>) ELSE Print(<<"TRACE_STUCK_AT", d>>, FALSE)
=============================================================================
