CONSTANTS
  Names = {"n1", "n2"}
  Toks = {"t1", "t2"}
INIT Init
NEXT NextDeviant3
CHECK_DEADLOCK FALSE
INVARIANTS
  ExtractComplete
