\* implementation as it is now on V1/V2 with listfile, unencrypted, no substring names: refines MpqMap like the design
CONSTANTS
  H = 4
  UNames <- MCNames
  Home <- MCHome
  InitSeq <- MCInit
  InitTok <- MCInitTok
  InitRaw = {}
  SubOf <- NoSub
  HasLF0 = TRUE
  HasAT0 = FALSE
  Slack = 2
  FU = 2
  Ver = 1
  MaxCalls = 4
  MCToks = {"t1"}
SPECIFICATION CodeOkSpec
INVARIANT SlotType TableInv ProbeBounded TablesDisjointFromData NoDamage ListfileExact AbsClean
PROPERTY AbsSpec OpRefines AtomicRefines
CHECK_DEADLOCK FALSE
