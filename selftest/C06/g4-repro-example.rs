// scratch reproduction program (growth round 4, C06): special-file maintenance of MutableArchive
use wow_mpq::{AddFileOptions, Archive, ArchiveBuilder, AttributesOption, ListfileOption, MutableArchive};

fn md5(d: &[u8]) -> [u8; 16] {
    use md5::{Digest, Md5};
    let mut h = Md5::new();
    h.update(d);
    h.finalize().into()
}

fn dump(path: &std::path::Path, names: &[&str]) {
    let mut a = Archive::open(path).unwrap();
    let lf = a.read_file("(listfile)").map(|d| String::from_utf8_lossy(&d).to_string()).unwrap_or_default();
    println!("  raw listfile lines: {:?}", lf.lines().collect::<Vec<_>>());
    println!("  list(): {:?}", a.list().unwrap().iter().map(|e| e.name.clone()).collect::<Vec<_>>());
    match a.load_attributes() {
        Ok(()) => {
            if let Some(at) = a.attributes() {
                println!("  attributes: flags={:#x} rows={} blocks={}", at.flags.as_u32(), at.file_attributes.len(), a.block_table().unwrap().entries().len());
            }
        }
        Err(e) => println!("  load_attributes: {e:?}"),
    }
    for n in names {
        match a.read_file(n) {
            Ok(d) => {
                let fi = a.find_file(n).unwrap().unwrap();
                let row = a.get_file_attributes(fi.block_index).cloned();
                let (crc_ok, md5_ok) = match &row {
                    Some(r) => (r.crc32.map(|c| c == crc32fast::hash(&d)), r.md5.map(|m| m == md5(&d))),
                    None => (None, None),
                };
                println!("  {n}: len={} block={} crc_ok={crc_ok:?} md5_ok={md5_ok:?}", d.len(), fi.block_index);
            }
            Err(e) => println!("  {n}: {e:?}"),
        }
    }
}

fn main() {
    let dir = tempfile::tempdir().unwrap();
    // --- 1. remove under another spelling (MPQ names are case-insensitive) ---
    let p = dir.path().join("a.mpq");
    ArchiveBuilder::new()
        .listfile_option(ListfileOption::Generate)
        .add_file_data(b"hello hello hello".to_vec(), "data\\a.bin")
        .add_file_data(b"other other other".to_vec(), "data\\b.bin")
        .build(&p)
        .unwrap();
    {
        let mut m = MutableArchive::open(&p).unwrap();
        println!("remove DATA\\A.BIN -> {:?}", m.remove_file("DATA\\A.BIN"));
    }
    println!("1. after remove under upper-case spelling:");
    dump(&p, &["data\\a.bin", "data\\b.bin"]);
    {
        let mut m = MutableArchive::open(&p).unwrap();
        println!("rename DATA\\B.BIN -> data\\c.bin: {:?}", m.rename_file("DATA\\B.BIN", "data\\c.bin"));
    }
    println!("1b. after rename under upper-case spelling:");
    dump(&p, &["data\\b.bin", "data\\c.bin"]);

    // --- 2. full attributes, two flushes with an addition before each in one session ---
    let p = dir.path().join("b.mpq");
    ArchiveBuilder::new()
        .listfile_option(ListfileOption::Generate)
        .attributes_option(AttributesOption::GenerateFull)
        .add_file_data(b"untouched untouched untouched".to_vec(), "data\\u.bin")
        .add_file_data(b"second second second".to_vec(), "data\\v.bin")
        .build(&p)
        .unwrap();
    println!("2. as built:");
    dump(&p, &["data\\u.bin", "data\\v.bin"]);
    {
        let mut m = MutableArchive::open(&p).unwrap();
        m.add_file_data(b"xxxxxxxxxxxxxxxxxxxx", "data\\x.bin", AddFileOptions::new()).unwrap();
        m.flush().unwrap();
        m.add_file_data(b"yyyyyyyyyyyyyyyyyyyyyyy", "data\\y.bin", AddFileOptions::new()).unwrap();
        m.flush().unwrap();
    }
    println!("2. after add x; flush; add y; flush:");
    dump(&p, &["data\\u.bin", "data\\v.bin", "data\\x.bin", "data\\y.bin"]);

    // --- 3. compact drops (attributes)? ---
    {
        let mut m = MutableArchive::open(&p).unwrap();
        println!("compact: {:?}", m.compact());
    }
    println!("3. after compact:");
    dump(&p, &["data\\u.bin", "data\\v.bin", "data\\x.bin", "data\\y.bin"]);
}
