//! C05 seeds, field inventory and entry points for WMO root and group files.
//!
//! Seeds come from the crate's own `WmoWriter` (write_root / write_group) fed with a populated
//! `WmoRoot` / `WmoGroup` model. The writer of this crate is not consistent with the crate's own
//! parsers in a few places, so its output is repaired where a file would otherwise not be a valid
//! chunk stream (every repair is a fixed, documented byte patch):
//!   * write_materials declares 40 bytes per MOMT entry for targets before MoP but always writes
//!     64 (the real size in every version): the MOMT size field is set to 64*n;
//!   * write_group_info writes 0 for every MOGI name offset: the real offsets into MOGN are
//!     patched in;
//!   * write_group emits a 36-byte MOGP header, the parsers (and the file format) use 68 bytes:
//!     the group seeds keep the sub-chunks the writer produced and get a 68-byte header in the
//!     real layout; write_liquid declares an MLIQ size 8 bytes short of what it writes (repaired); MOPY / MOLR / MOBR (not written by the writer at all) and MOBN / MLIQ (written
//!     in a layout the parser does not use) are assembled here in the on-disk layout of
//!     chunks.rs, the way the crate's own tests assemble files.
//! "root-full-v17" additionally gets the 64-byte MOHD of real files and MFOG / MCVP / GFID chunks
//! appended (the writer cannot emit them), so that every branch of root_parser.rs is reached.
//! The later root seeds cover variants of WmoParser (parser.rs) the populated v17/v18 files do not:
//!   root-minimal-v18-mcvp   an empty WmoRoot written for MVER 18 (MVER + MOHD only: every optional chunk
//!                           absent), HAS_SKYBOX set without MOSB, MCVP with 20-byte planes;
//!   root-legion-v19-writer  populated model + a Directional light, MCVP with 16-byte planes (size % 20 != 0);
//!   root-bfa-v20-groupnames MOGI names resolved by the "Group_i" fallback (empty name, offset behind MOGN);
//!   root-sl-v21-writer, root-df-v22-minimal, root-tww-v23-writer: unpatched writer output for MVER 21..23.
//! group-flat-modern is group-modern in the flat layout (MORI / MORB / MOTA / MOBS as top-level siblings);
//! group-mliq-short / group-flat-mliq-short carry a header-only 30-byte MLIQ (below the 32-byte bound).
//! Chunk tags are stored reversed on disk ("REVM").
use crate::seed::{add_chunk_seq, walk_chunks, Aux, Seed};
use crate::worker::{errname, Runner};
use std::collections::HashMap;
use std::io::Cursor;
use wow_wmo::{
    BoundingBox, Color, TexCoord, Vec3, WmoBatch, WmoBspNode, WmoDoodadDef, WmoDoodadSet, WmoFlags, WmoGroup,
    WmoGroupFlags, WmoGroupHeader, WmoGroupInfo, WmoHeader, WmoLight, WmoLightProperties, WmoLightType, WmoLiquid,
    WmoLiquidVertex, WmoMaterial, WmoMaterialFlags, WmoParser, WmoPlane, WmoPortal, WmoPortalReference, WmoRoot,
    WmoVersion, WmoWriter,
};

pub fn seed_names(thorough: bool) -> Vec<String> {
    let mut v = vec!["root-full-v17".to_string(), "group-v17".to_string()];
    // quick as well: both are small and reach read loops no other quick seed reaches (the top-level
    // MORI / MORB / MOTA / MOBS arms of parse_group_file; the 20-byte MCVP plane loop of WmoParser)
    v.push("group-flat-modern".into());
    v.push("root-minimal-v18-mcvp".into());
    if thorough {
        v.push("root-classic-writer".into());
        v.push("root-mop-writer".into());
        v.push("root-wod-v18-writer".into());
        v.push("group-writer-mop".into());
        v.push("group-modern".into());
        v.push("group-flat-v17".into());
        // root variants no other seed has: later MVER values, absent optional chunks, MCVP in both plane
        // layouts on a version that reads it, a Directional light, MOGI names resolved by the fallback
        v.push("root-legion-v19-writer".into());
        v.push("root-bfa-v20-groupnames".into());
        v.push("root-sl-v21-writer".into());
        v.push("root-df-v22-minimal".into());
        v.push("root-tww-v23-writer".into());
        // group variants: an MLIQ below the 32-byte header bound, nested in MOGP and as a top-level sibling
        v.push("group-mliq-short".into());
        v.push("group-flat-mliq-short".into());
    }
    v
}

// ---------------------------------------------------------------------------------------------
// helpers
// ---------------------------------------------------------------------------------------------

fn u32_at(b: &[u8], o: usize) -> u32 {
    u32::from_le_bytes([b[o], b[o + 1], b[o + 2], b[o + 3]])
}

fn put32(b: &mut [u8], o: usize, v: u32) {
    b[o..o + 4].copy_from_slice(&v.to_le_bytes());
}

fn rtag(b: &[u8], o: usize) -> String {
    b[o..o + 4].iter().rev().map(|&c| c as char).collect()
}

fn chunk(tag: &str, payload: &[u8]) -> Vec<u8> {
    let mut v: Vec<u8> = tag.bytes().rev().collect();
    v.extend_from_slice(&(payload.len() as u32).to_le_bytes());
    v.extend_from_slice(payload);
    v
}

fn v3(x: f32, y: f32, z: f32) -> Vec3 {
    Vec3 { x, y, z }
}

fn col(r: u8, g: u8, b: u8, a: u8) -> Color {
    Color { r, g, b, a }
}

struct W(Vec<u8>);
impl W {
    fn u8(&mut self, v: u8) -> &mut Self {
        self.0.push(v);
        self
    }
    fn u16(&mut self, v: u16) -> &mut Self {
        self.0.extend_from_slice(&v.to_le_bytes());
        self
    }
    fn i16(&mut self, v: i16) -> &mut Self {
        self.0.extend_from_slice(&v.to_le_bytes());
        self
    }
    fn u32(&mut self, v: u32) -> &mut Self {
        self.0.extend_from_slice(&v.to_le_bytes());
        self
    }
    fn f32(&mut self, v: f32) -> &mut Self {
        self.0.extend_from_slice(&v.to_le_bytes());
        self
    }
}

// ---------------------------------------------------------------------------------------------
// root model
// ---------------------------------------------------------------------------------------------

const TEXTURES: [&str; 3] =
    ["DUNGEONS\\TEXTURES\\WALLS\\BM_STONEWALL01.BLP", "DUNGEONS\\TEXTURES\\FLOOR\\JLO_FLOOR02.BLP", "tex3.blp"];

fn motx_offsets() -> Vec<u32> {
    let mut o = 0u32;
    TEXTURES
        .iter()
        .map(|t| {
            let r = o;
            o += t.len() as u32 + 1;
            r
        })
        .collect()
}

fn root_model(version: WmoVersion, skybox: bool) -> WmoRoot {
    let to = motx_offsets();
    let materials: Vec<WmoMaterial> = (0..3usize)
        .map(|i| WmoMaterial {
            flags: WmoMaterialFlags::from_bits_truncate(1 << i),
            shader: i as u32,
            blend_mode: (i % 2) as u32,
            texture1: to[i],
            emissive_color: col(10, 20, 30, 255),
            sidn_color: col(1, 2, 3, 4),
            framebuffer_blend: Color::default(),
            texture2: to[(i + 1) % 3],
            diffuse_color: col(200, 190, 180, 255),
            ground_type: i as u32,
        })
        .collect();
    let bb = |k: f32| BoundingBox { min: v3(-10.0 * k, -10.0 * k, 0.0), max: v3(10.0 * k, 10.0 * k, 8.0 * k) };
    let groups = vec![
        WmoGroupInfo { flags: WmoGroupFlags::HAS_NORMALS | WmoGroupFlags::INDOOR, bounding_box: bb(1.0), name: "Entrance_Hall".into() },
        WmoGroupInfo { flags: WmoGroupFlags::HAS_WATER | WmoGroupFlags::HAS_DOODADS, bounding_box: bb(2.0), name: "antiportal".into() },
        WmoGroupInfo { flags: WmoGroupFlags::EXTERIOR_LIGHTS, bounding_box: bb(3.0), name: "Room03".into() },
    ];
    let quad = |z: f32| vec![v3(-1.0, -1.0, z), v3(1.0, -1.0, z), v3(1.0, 1.0, z), v3(-1.0, 1.0, z)];
    let portals = vec![
        WmoPortal { vertices: quad(0.0), normal: v3(0.0, 0.0, 1.0) },
        WmoPortal { vertices: quad(4.0), normal: v3(0.0, 0.0, -1.0) },
    ];
    let portal_references = vec![
        WmoPortalReference { portal_index: 0, group_index: 1, side: 1 },
        WmoPortalReference { portal_index: 0, group_index: 0, side: 0xFFFF },
        WmoPortalReference { portal_index: 1, group_index: 2, side: 1 },
        WmoPortalReference { portal_index: 1, group_index: 1, side: 0xFFFF },
    ];
    let light = |t: WmoLightType, p: WmoLightProperties, k: f32| WmoLight {
        light_type: t,
        position: v3(k, 2.0 * k, 3.0),
        color: col(255, 240, 200, 255),
        intensity: 1.5,
        rotation: [0.0, 0.0, 0.0, 1.0],
        attenuation_start: 2.0,
        attenuation_end: 9.0 + k,
        use_attenuation: true,
        properties: p,
    };
    let lights = vec![
        light(WmoLightType::Omni, WmoLightProperties::Omni, 1.0),
        light(WmoLightType::Spot, WmoLightProperties::Spot { direction: v3(0.0, 0.0, -1.0), hotspot: 0.3, falloff: 0.6 }, 2.0),
        light(WmoLightType::Ambient, WmoLightProperties::Ambient, 3.0),
    ];
    let doodad_defs: Vec<WmoDoodadDef> = (0..4u32)
        .map(|i| WmoDoodadDef {
            name_offset: i * 7,
            position: v3(i as f32, 1.0, 0.5),
            orientation: [0.0, 0.0, 0.0, 1.0],
            scale: 1.0 + i as f32 * 0.25,
            color: col(128, 128, 128, 255),
            set_index: (i / 2) as u16,
        })
        .collect();
    let doodad_sets = vec![
        WmoDoodadSet { name: "Set_$DefaultGlobal".into(), start_doodad: 0, n_doodads: 2 },
        WmoDoodadSet { name: "Set_Torches".into(), start_doodad: 2, n_doodads: 2 },
    ];
    let header = WmoHeader {
        n_materials: 3,
        n_groups: 3,
        n_portals: 2,
        n_lights: 3,
        n_doodad_names: 4,
        n_doodad_defs: 4,
        n_doodad_sets: 2,
        flags: WmoFlags::HAS_VERTEX_COLORS | WmoFlags::HAS_LIQUIDS,
        ambient_color: col(60, 70, 80, 255),
    };
    WmoRoot {
        version,
        materials,
        groups,
        portals,
        portal_references,
        visible_block_lists: vec![vec![0, 1, 2], vec![2, 1]],
        lights,
        doodad_defs,
        doodad_sets,
        bounding_box: bb(3.0),
        textures: TEXTURES.iter().map(|s| s.to_string()).collect(),
        texture_offset_index_map: HashMap::new(),
        header,
        skybox: if skybox { Some("Environments\\Stars\\DeathSkyBox.m2".to_string()) } else { None },
        convex_volume_planes: None,
    }
}

/// Walk the writer's output leniently (MOMT may declare 40 bytes per entry while 64 were written)
/// and repair it: MOMT size := 64 * n_materials, MOGI name offsets := offsets into MOGN.
fn repair_root(mut b: Vec<u8>, n_materials: usize) -> Vec<u8> {
    let mut p = 0usize;
    let mut mogn: Option<(usize, usize)> = None;
    while p + 8 <= b.len() {
        let t = rtag(&b, p);
        let mut sz = u32_at(&b, p + 4) as usize;
        if t == "MOMT" && sz == 40 * n_materials {
            sz = 64 * n_materials;
            put32(&mut b, p + 4, sz as u32);
        }
        if t == "MOGN" {
            mogn = Some((p + 8, sz));
        }
        if t == "MOGI" {
            if let Some((gs, gl)) = mogn {
                // the k-th name starts after k terminators
                let mut starts = vec![0usize];
                for i in 0..gl {
                    if b[gs + i] == 0 && i + 1 < gl {
                        starts.push(i + 1);
                    }
                }
                for k in 0..sz / 32 {
                    let off = starts.get(k).copied().unwrap_or(0) as u32;
                    put32(&mut b, p + 8 + 32 * k + 28, off);
                }
            }
        }
        p += 8 + sz;
    }
    assert_eq!(p, b.len(), "wmo root: writer output is not a chunk stream after repair");
    b
}

fn write_model(m: &WmoRoot, version: WmoVersion) -> Vec<u8> {
    let mut out = Cursor::new(Vec::new());
    WmoWriter::new().write_root(&mut out, m, version).expect("WmoWriter::write_root");
    repair_root(out.into_inner(), m.materials.len())
}

fn write_root(version: WmoVersion, skybox: bool) -> Vec<u8> {
    write_model(&root_model(version, skybox), version)
}

/// The populated model plus a fourth light of the one type root_model does not use (kept out of
/// root_model so that the older seeds stay byte-identical). It is the LAST light: the inventory
/// registers the type selector of the first and the last MOLT record.
fn root_model_directional(version: WmoVersion, skybox: bool) -> WmoRoot {
    let mut m = root_model(version, skybox);
    m.lights.push(WmoLight {
        light_type: WmoLightType::Directional,
        position: v3(4.0, 8.0, 12.0),
        color: col(255, 255, 224, 255),
        intensity: 0.75,
        rotation: [0.0, 0.7071, 0.0, 0.7071],
        attenuation_start: 0.0,
        attenuation_end: 0.0,
        use_attenuation: false,
        properties: WmoLightProperties::Directional { direction: v3(0.0, 0.0, -1.0) },
    });
    m.header.n_lights = 4;
    m
}

/// A WmoRoot with nothing in it: write_root emits MVER and MOHD only (every other chunk writer
/// returns early on an empty list), so every "chunk absent" branch of WmoParser is taken.
fn empty_root_model(version: WmoVersion) -> WmoRoot {
    let zero = BoundingBox { min: v3(0.0, 0.0, 0.0), max: v3(0.0, 0.0, 0.0) };
    WmoRoot {
        version,
        materials: Vec::new(),
        groups: Vec::new(),
        portals: Vec::new(),
        portal_references: Vec::new(),
        visible_block_lists: Vec::new(),
        lights: Vec::new(),
        doodad_defs: Vec::new(),
        doodad_sets: Vec::new(),
        bounding_box: zero,
        textures: Vec::new(),
        texture_offset_index_map: HashMap::new(),
        header: WmoHeader {
            n_materials: 0,
            n_groups: 0,
            n_portals: 0,
            n_lights: 0,
            n_doodad_names: 0,
            n_doodad_defs: 0,
            n_doodad_sets: 0,
            flags: WmoFlags::empty(),
            ambient_color: col(40, 40, 40, 255),
        },
        skybox: None,
        convex_volume_planes: None,
    }
}

/// Textures, one material and three groups, nothing else; the FIRST group has an empty name, so its
/// MOGI name offset points at a NUL of MOGN (as in real files, whose MOGN starts with NULs).
fn groupnames_model(version: WmoVersion) -> WmoRoot {
    let mut m = root_model(version, false);
    m.materials.truncate(1);
    m.groups[0].name = String::new();
    m.portals.clear();
    m.portal_references.clear();
    m.visible_block_lists.clear();
    m.lights.clear();
    m.doodad_defs.clear();
    m.doodad_sets.clear();
    m.header.n_materials = 1;
    m.header.n_portals = 0;
    m.header.n_lights = 0;
    m.header.n_doodad_names = 0;
    m.header.n_doodad_defs = 0;
    m.header.n_doodad_sets = 0;
    m
}

/// (offset of the chunk header, total length) of the first top-level chunk `tag`.
fn find_chunk(b: &[u8], tag: &str) -> (usize, usize) {
    walk_chunks(b, 0, b.len()).into_iter().find(|&(o, _)| rtag(b, o) == tag).unwrap_or_else(|| panic!("wmo: no {tag} chunk"))
}

/// MCVP with three planes. `plane_size` 20 is the record WmoParser reads (normal, distance, flags:u32),
/// 16 the record root_parser.rs reads (4 floats); 48 bytes are not a multiple of 20.
/// Hand-assembled: WmoWriter::write_root has no MCVP writer (WmoRoot::convex_volume_planes is never written).
fn hand_mcvp(plane_size: usize) -> Vec<u8> {
    let mut w = W(Vec::new());
    for k in 0..3u32 {
        w.f32(0.0).f32(if k == 1 { 1.0 } else { 0.0 }).f32(if k == 1 { 0.0 } else { 1.0 }).f32(k as f32 * 2.5);
        if plane_size == 20 {
            w.u32(k);
        }
    }
    assert_eq!(w.0.len(), 3 * plane_size);
    chunk("MCVP", &w.0)
}

/// MOHD as real files have it (64 bytes): counts, ambient colour, wmoID, bounding box, flags:u16,
/// numLod:u16; plus the chunks the writer cannot emit.
fn upgrade_root(b: Vec<u8>) -> Vec<u8> {
    let mut out = Vec::new();
    for (o, tot) in walk_chunks(&b, 0, b.len()) {
        if rtag(&b, o) == "MOHD" && tot == 8 + 60 {
            let p = &b[o + 8..o + tot];
            let mut w = W(Vec::new());
            w.0.extend_from_slice(&p[0..32]); // 7 counts + ambient colour
            w.u32(4321); // wmoID
            w.0.extend_from_slice(&p[36..60]); // bounding box
            w.u16(u32_at(p, 32) as u16); // flags
            w.u16(1); // numLod
            out.extend_from_slice(&chunk("MOHD", &w.0));
        } else {
            out.extend_from_slice(&b[o..o + tot]);
        }
    }
    // MFOG: 2 fogs of 48 bytes
    let mut w = W(Vec::new());
    for k in 0..2 {
        w.u32(k).f32(1.0).f32(2.0).f32(3.0).f32(5.0).f32(50.0).f32(100.0).f32(0.25).u32(0xFF80_8080).f32(40.0).f32(0.1).u32(0xFF10_2030);
    }
    out.extend_from_slice(&chunk("MFOG", &w.0));
    // MCVP: 3 planes of 16 bytes
    let mut w = W(Vec::new());
    for k in 0..3 {
        w.f32(0.0).f32(0.0).f32(1.0).f32(k as f32);
    }
    out.extend_from_slice(&chunk("MCVP", &w.0));
    // GFID: one FileDataID per group
    let mut w = W(Vec::new());
    for k in 0..3u32 {
        w.u32(110_000 + k);
    }
    out.extend_from_slice(&chunk("GFID", &w.0));
    out
}

// ---------------------------------------------------------------------------------------------
// group model
// ---------------------------------------------------------------------------------------------

const NV: usize = 8;
const NIDX: usize = 36;

fn group_model() -> WmoGroup {
    let vertices: Vec<Vec3> =
        (0..NV).map(|i| v3((i & 1) as f32 * 4.0, ((i >> 1) & 1) as f32 * 4.0, ((i >> 2) & 1) as f32 * 4.0)).collect();
    let normals: Vec<Vec3> = (0..NV).map(|i| v3(0.0, 0.0, if i < 4 { -1.0 } else { 1.0 })).collect();
    let tex_coords: Vec<TexCoord> = (0..NV).map(|i| TexCoord { u: (i & 1) as f32, v: ((i >> 1) & 1) as f32 }).collect();
    let faces: [[u16; 3]; 12] = [
        [0, 1, 2], [1, 3, 2], [4, 6, 5], [5, 6, 7], [0, 4, 1], [1, 4, 5], [2, 3, 6], [3, 7, 6], [0, 2, 4], [2, 6, 4], [1, 5, 3], [3, 5, 7],
    ];
    let indices: Vec<u16> = faces.iter().flatten().copied().collect();
    assert_eq!(indices.len(), NIDX);
    let batch = |start: u32, mat: u16| WmoBatch {
        flags: [0xFC, 0xFF, 0xFC, 0xFF, 0xFC, 0xFF, 4, 0, 4, 0],
        material_id: mat,
        start_index: start,
        count: 18,
        start_vertex: 0,
        end_vertex: (NV - 1) as u16,
        use_large_material_id: false,
    };
    let node = |c0: i16, c1: i16, first: u16, n: u16, nx: f32| WmoBspNode {
        plane: WmoPlane { normal: v3(nx, 0.0, if nx == 0.0 { 1.0 } else { 0.0 }), distance: 2.0 },
        children: [c0, c1],
        first_face: first,
        num_faces: n,
    };
    let lv = |k: usize| WmoLiquidVertex { position: v3((k % 3) as f32, (k / 3) as f32, 1.0), height: 1.0 + k as f32 * 0.1 };
    WmoGroup {
        header: WmoGroupHeader {
            flags: WmoGroupFlags::HAS_NORMALS
                | WmoGroupFlags::HAS_BASE_VERTICES
                | WmoGroupFlags::HAS_LIGHT
                | WmoGroupFlags::HAS_DOODADS
                | WmoGroupFlags::HAS_WATER
                | WmoGroupFlags::INDOOR
                | WmoGroupFlags::HAS_VERTEX_COLORS,
            bounding_box: BoundingBox { min: v3(0.0, 0.0, 0.0), max: v3(4.0, 4.0, 4.0) },
            name_offset: 14,
            group_index: 1,
        },
        materials: vec![0, 1],
        vertices,
        normals,
        tex_coords,
        batches: vec![batch(0, 0), batch(18, 1)],
        indices,
        vertex_colors: Some((0..NV).map(|i| col(i as u8 * 30, 100, 50, 255)).collect()),
        bsp_nodes: Some(vec![node(1, 2, 0, 0, 1.0), node(-1, -1, 0, 6, 0.0), node(-1, -1, 6, 6, 0.0)]),
        liquid: Some(WmoLiquid {
            liquid_type: 13,
            flags: 0,
            width: 3,
            height: 3,
            vertices: (0..9).map(lv).collect(),
            tile_flags: Some(vec![0x0F, 0x00, 0x40, 0x0F]),
        }),
        doodad_refs: Some(vec![0, 1, 3]),
    }
}

/// The 68-byte MOGP header of the on-disk format (group_parser.rs MogpHeader).
fn mogp_header() -> Vec<u8> {
    let mut w = W(Vec::new());
    w.u32(14).u32(0); // group name / descriptive name offsets into MOGN
    w.u32(0x0000_3879); // flags
    for v in [0.0f32, 0.0, 0.0, 4.0, 4.0, 4.0] {
        w.f32(v);
    }
    w.u16(0).u16(2); // portal start / count
    w.u16(0).u16(1).u16(1).u16(0); // trans / int / ext batch counts, padding
    w.u8(0).u8(1).u8(0).u8(0); // fog ids
    w.u32(5); // group liquid
    w.u32(1701); // uniqueID (WMOAreaTable)
    w.u32(0); // flags2
    w.i16(-1).i16(-1); // split group parent / next
    assert_eq!(w.0.len(), 68);
    w.0
}

/// Sub-chunks as written by WmoWriter::write_group, keyed by tag (full chunk including header).
fn writer_subchunks(version: WmoVersion) -> Vec<(String, Vec<u8>)> {
    let g = group_model();
    let mut out = Cursor::new(Vec::new());
    WmoWriter::new().write_group(&mut out, &g, version).expect("WmoWriter::write_group");
    let b = out.into_inner();
    // MVER (12 bytes), MOGP header (8), the writer's MOGP header bytes (36 before /repo 84b07db, 68 since),
    // then the sub-chunks
    assert_eq!(rtag(&b, 12), "MOGP");
    assert_eq!(u32_at(&b, 16) as usize, b.len() - 20);
    let is_tag = |b: &[u8], p: usize| -> bool {
        p + 8 <= b.len() && b[p..p + 4].iter().all(|c| c.is_ascii_uppercase() || c.is_ascii_digit()) && b[p + 3] == b'M'
    };
    let start = if is_tag(&b, 12 + 8 + 36) { 12 + 8 + 36 } else { 12 + 8 + 68 };
    assert!(is_tag(&b, start), "wmo group: no sub-chunk behind the MOGP header the writer produced");
    // write_liquid declares 32 header bytes but writes 40 (type, flags, w-1, h-1, 6 floats): the
    // MLIQ size field is 8 short; repaired here so that the sub-chunks tile the MOGP payload
    let mut b = b;
    let mut subs = Vec::new();
    let mut p = start;
    while p + 8 <= b.len() {
        let t = rtag(&b, p);
        let mut sz = u32_at(&b, p + 4) as usize;
        let tiles = |e: usize, b: &[u8]| e == b.len() || is_tag(b, e);
        if t == "MLIQ" && !tiles(p + 8 + sz, &b) && tiles(p + 8 + sz + 8, &b) {
            // before /repo ffa98b6 the declared MLIQ size was 8 bytes short
            sz += 8;
            put32(&mut b, p + 4, sz as u32);
        }
        assert!(p + 8 + sz <= b.len(), "wmo group: writer sub-chunk {t} overruns the file");
        subs.push((t, b[p..p + 8 + sz].to_vec()));
        p += 8 + sz;
    }
    assert_eq!(p, b.len(), "wmo group: writer sub-chunks do not tile the MOGP payload");
    subs
}

fn mver(v: u32) -> Vec<u8> {
    chunk("MVER", &v.to_le_bytes())
}

/// The layout of the crate's own unit test (tests/group_parser_test.rs): a header-only MOGP and
/// the geometry chunks as top-level siblings (parse_group_file has match arms for them).
fn assemble_group_flat(version_raw: u32, subs: &[Vec<u8>]) -> Vec<u8> {
    let mut out = mver(version_raw);
    out.extend_from_slice(&chunk("MOGP", &mogp_header()));
    for s in subs {
        out.extend_from_slice(s);
    }
    out
}

fn assemble_group(version_raw: u32, subs: &[Vec<u8>]) -> Vec<u8> {
    let mut payload = mogp_header();
    for s in subs {
        payload.extend_from_slice(s);
    }
    let mut out = mver(version_raw);
    out.extend_from_slice(&chunk("MOGP", &payload));
    out
}

fn hand_mopy() -> Vec<u8> {
    let mut w = W(Vec::new());
    for i in 0..12u8 {
        w.u8(0x20 | (i & 1)).u8(i / 6);
    }
    chunk("MOPY", &w.0)
}

fn hand_mobn() -> Vec<u8> {
    // chunks.rs MobnEntry: flags:u16 negChild:i16 posChild:i16 nFaces:u16 faceStart:u32 planeDist:f32
    let mut w = W(Vec::new());
    w.u16(0).i16(1).i16(2).u16(0).u32(0).f32(2.0);
    w.u16(4).i16(-1).i16(-1).u16(6).u32(0).f32(0.0);
    w.u16(4).i16(-1).i16(-1).u16(6).u32(6).f32(0.0);
    chunk("MOBN", &w.0)
}

fn hand_mobr() -> Vec<u8> {
    let mut w = W(Vec::new());
    for i in 0..12u16 {
        w.u16(i);
    }
    chunk("MOBR", &w.0)
}

fn hand_mliq() -> Vec<u8> {
    // real layout: xverts yverts xtiles ytiles corner[3] materialId:u16, verts (8 bytes), tiles (1 byte)
    let mut w = W(Vec::new());
    w.u32(3).u32(3).u32(2).u32(2).f32(0.0).f32(0.0).f32(1.0).u16(1);
    for k in 0..9 {
        w.u8(0).u8(0).u8(0).u8(0).f32(1.0 + k as f32 * 0.1);
    }
    for t in [0x04u8, 0x0F, 0x44, 0x04] {
        w.u8(t);
    }
    chunk("MLIQ", &w.0)
}

/// MLIQ of a liquid without vertices and tiles: the 30-byte header of the real layout alone, which is
/// below the 32 bytes both group parsers require before they read an MliqHeader.
/// Hand-assembled: WmoWriter::write_liquid always writes a 40-byte header (and not the layout of chunks.rs).
fn hand_mliq_short() -> Vec<u8> {
    let mut w = W(Vec::new());
    w.u32(0).u32(0).u32(0).u32(0).f32(0.0).f32(0.0).f32(1.0).u16(1);
    assert_eq!(w.0.len(), 30);
    chunk("MLIQ", &w.0)
}

fn build_group(name: &str) -> Vec<u8> {
    match name {
        "group-writer-mop" => {
            let subs: Vec<Vec<u8>> = writer_subchunks(WmoVersion::Mop).into_iter().map(|s| s.1).collect();
            assemble_group(17, &subs)
        }
        "group-mliq-short" | "group-flat-mliq-short" => {
            let ws: HashMap<String, Vec<u8>> = writer_subchunks(WmoVersion::Classic).into_iter().collect();
            let take = |t: &str| ws.get(t).cloned().unwrap_or_else(|| panic!("writer did not produce {t}"));
            let subs = vec![hand_mopy(), take("MOVI"), take("MOVT"), take("MONR"), take("MOTV"), take("MOBA"), hand_mliq_short()];
            if name == "group-flat-mliq-short" {
                assemble_group_flat(17, &subs)
            } else {
                assemble_group(17, &subs)
            }
        }
        "group-v17" | "group-modern" | "group-flat-v17" | "group-flat-modern" => {
            let ws: HashMap<String, Vec<u8>> = writer_subchunks(WmoVersion::Classic).into_iter().collect();
            let take = |t: &str| ws.get(t).cloned().unwrap_or_else(|| panic!("writer did not produce {t}"));
            let mut molr = W(Vec::new());
            molr.u16(0).u16(2);
            let mut subs = vec![
                hand_mopy(),
                take("MOVI"),
                take("MOVT"),
                take("MONR"),
                take("MOTV"),
                take("MOBA"),
                chunk("MOLR", &molr.0),
                take("MODR"),
                hand_mobn(),
                hand_mobr(),
                take("MOCV"),
                hand_mliq(),
            ];
            if name == "group-modern" || name == "group-flat-modern" {
                let mut w = W(Vec::new());
                for i in 0..10u16 {
                    w.u16(i % 8);
                }
                subs.push(chunk("MORI", &w.0));
                let mut w = W(Vec::new());
                for k in 0..2u16 {
                    w.u16(k * 5).u16(5).u16(0).u16(7).u8(0).u8(k as u8);
                }
                subs.push(chunk("MORB", &w.0));
                let mut w = W(Vec::new());
                for _ in 0..NV {
                    w.i16(32767).i16(0).i16(0).i16(32767);
                }
                subs.push(chunk("MOTA", &w.0));
                let mut w = W(Vec::new());
                w.u16(0).i16(18).u16(0).u16(7).u8(0).u8(0);
                subs.push(chunk("MOBS", &w.0));
                // chunks of later expansions (unknown to this crate's ChunkId table, skipped by size)
                let mut w = W(Vec::new());
                for i in 0..12u16 {
                    w.u16(0x20).u16(i / 6);
                }
                subs.push(chunk("MPY2", &w.0));
                let mut w = W(Vec::new());
                for i in 0..NIDX as u32 {
                    w.u32(i % 8);
                }
                subs.push(chunk("MOVX", &w.0));
                subs.push(chunk("MOGX", &0u32.to_le_bytes()));
                let mut w = W(Vec::new());
                for _ in 0..12 {
                    w.u32(3);
                }
                subs.push(chunk("MOQG", &w.0));
            }
            if name == "group-flat-v17" || name == "group-flat-modern" {
                assemble_group_flat(17, &subs)
            } else {
                assemble_group(17, &subs)
            }
        }
        _ => wverif_common::tool_error(&format!("wmo: unknown seed {name}")),
    }
}

// ---------------------------------------------------------------------------------------------
// inventory
// ---------------------------------------------------------------------------------------------

fn first_last(n: usize) -> Vec<usize> {
    match n {
        0 => vec![],
        1 => vec![0],
        _ => vec![0, n - 1],
    }
}

fn term_fields(s: &mut Seed, tag: &str, o: usize, tot: usize) {
    if tot > 8 {
        s.field_ex(o + tot - 1, 1, "term", format!("{tag}.last_nul"), o + tot, 1, None);
        if let Some(p) = s.bytes[o + 8..o + tot].iter().position(|&b| b == 0) {
            if o + 8 + p != o + tot - 1 {
                s.field_ex(o + 8 + p, 1, "term", format!("{tag}.first_nul"), o + 8 + p + 1, 1, None);
            }
        }
    }
}

fn root_inventory(s: &mut Seed) {
    let len = s.bytes.len();
    let chunks = add_chunk_seq(s, "top", 0, len, vec![], true);
    let find = |t: &str| chunks.iter().find(|c| c.2 == t).map(|c| (c.0, c.1));
    let pay = |t: &str| find(t).map(|c| c.0 + 8);
    if let Some((o, _)) = find("MVER") {
        s.field(o + 8, 4, "index", "MVER.version");
    }
    if let Some((o, tot)) = find("MOHD") {
        let p = o + 8;
        let tab: [(&str, &str, usize); 7] = [
            ("n_materials", "MOMT", 64),
            ("n_groups", "MOGI", 32),
            ("n_portals", "MOPT", 20),
            ("n_lights", "MOLT", 48),
            ("n_doodad_names", "MODN", 1),
            ("n_doodad_defs", "MODD", 40),
            ("n_doodad_sets", "MODS", 32),
        ];
        for (i, (nm, tag, unit)) in tab.iter().enumerate() {
            let base = pay(tag).unwrap_or(o + tot);
            s.field_ex(p + 4 * i, 4, "count", format!("MOHD.{nm}"), base, *unit, None);
        }
        s.field(p + 28, 4, "index", "MOHD.ambient_color");
        if tot == 8 + 64 {
            s.field(p + 32, 4, "index", "MOHD.wmo_id");
            s.field(p + 60, 2, "index", "MOHD.flags");
            s.field(p + 62, 2, "count", "MOHD.num_lod");
        } else {
            s.field(p + 32, 4, "index", "MOHD.flags");
        }
    }
    for t in ["MOTX", "MOGN", "MODN", "MOSB"] {
        if let Some((o, tot)) = find(t) {
            term_fields(s, t, o, tot);
        }
    }
    if let Some((o, tot)) = find("MOMT") {
        let base = pay("MOTX").unwrap_or(o + tot);
        for i in first_last((tot - 8) / 64) {
            let e = o + 8 + 64 * i;
            s.field(e, 4, "index", format!("MOMT[{i}].flags"));
            s.field(e + 4, 4, "index", format!("MOMT[{i}].shader"));
            s.field(e + 8, 4, "index", format!("MOMT[{i}].blend_mode"));
            s.field_ex(e + 12, 4, "stroff", format!("MOMT[{i}].texture1"), base, 1, None);
            s.field_ex(e + 24, 4, "stroff", format!("MOMT[{i}].texture2"), base, 1, None);
            s.field(e + 32, 4, "index", format!("MOMT[{i}].ground_type"));
            s.field_ex(e + 36, 4, "stroff", format!("MOMT[{i}].texture3"), base, 1, None);
        }
    }
    if let Some((o, tot)) = find("MOGI") {
        let base = pay("MOGN").unwrap_or(o + tot);
        for i in first_last((tot - 8) / 32) {
            let e = o + 8 + 32 * i;
            s.field(e, 4, "index", format!("MOGI[{i}].flags"));
            s.field_ex(e + 28, 4, "stroff", format!("MOGI[{i}].name_offset"), base, 1, None);
        }
    }
    if let Some((o, tot)) = find("MOPT") {
        let base = pay("MOPV").unwrap_or(o + tot);
        for i in first_last((tot - 8) / 20) {
            let e = o + 8 + 20 * i;
            s.field_ex(e, 2, "index", format!("MOPT[{i}].start_vertex"), base, 12, None);
            s.field_ex(e + 2, 2, "count", format!("MOPT[{i}].n_vertices"), base, 12, None);
        }
    }
    if let Some((o, tot)) = find("MOPR") {
        for i in first_last((tot - 8) / 8) {
            let e = o + 8 + 8 * i;
            s.field(e, 2, "index", format!("MOPR[{i}].portal_index"));
            s.field(e + 2, 2, "index", format!("MOPR[{i}].group_index"));
            s.field(e + 4, 2, "index", format!("MOPR[{i}].side"));
        }
    }
    if let Some((o, tot)) = find("MOVV") {
        // as written by WmoWriter and read by WmoParser: u32 offsets into MOVB
        let base = pay("MOVB").unwrap_or(o + tot);
        for i in first_last((tot - 8) / 4) {
            s.field_ex(o + 8 + 4 * i, 4, "offset", format!("MOVV[{i}]"), base, 1, None);
        }
    }
    if let Some((o, tot)) = find("MOVB") {
        // as written by WmoWriter: u16 lists, each closed by 0xFFFF
        let n = (tot - 8) / 2;
        for i in first_last(n) {
            s.field(o + 8 + 2 * i, 2, "index", format!("MOVB[{i}]"));
        }
        if let Some(k) = (0..n).find(|&i| s.bytes[o + 8 + 2 * i] == 0xFF && s.bytes[o + 8 + 2 * i + 1] == 0xFF) {
            if k + 1 != n {
                s.field(o + 8 + 2 * k, 2, "index", format!("MOVB[{k}].end_marker"));
            }
        }
    }
    if let Some((o, tot)) = find("MOLT") {
        for i in first_last((tot - 8) / 48) {
            let e = o + 8 + 48 * i;
            s.field(e, 1, "index", format!("MOLT[{i}].type"));
            s.field(e + 1, 1, "index", format!("MOLT[{i}].use_attenuation"));
        }
    }
    if let Some((o, tot)) = find("MODS") {
        let base = pay("MODD").unwrap_or(o + tot);
        for i in first_last((tot - 8) / 32) {
            let e = o + 8 + 32 * i;
            s.field_ex(e + 19, 1, "term", format!("MODS[{i}].name_last_byte"), e + 20, 1, None);
            s.field_ex(e + 20, 4, "index", format!("MODS[{i}].start_index"), base, 40, None);
            s.field_ex(e + 24, 4, "count", format!("MODS[{i}].count"), base, 40, None);
        }
    }
    if let Some((o, tot)) = find("MODD") {
        let base = pay("MODN").unwrap_or(o + tot);
        for i in first_last((tot - 8) / 40) {
            s.field_ex(o + 8 + 40 * i, 4, "stroff", format!("MODD[{i}].name_index_and_flags"), base, 1, None);
        }
    }
    if let Some((o, _)) = find("MFOG") {
        s.field(o + 8, 4, "index", "MFOG[0].flags");
    }
    if let Some((o, tot)) = find("MCVP") {
        // WmoParser reads 20-byte planes (from MVER 18 on, and only when the size is a multiple of 20);
        // the size selector itself is MCVP[0].size
        let ver = find("MVER").map(|c| u32_at(&s.bytes, c.0 + 8)).unwrap_or(0);
        if ver >= 18 && (tot - 8) % 20 == 0 {
            for i in first_last((tot - 8) / 20) {
                s.field(o + 8 + 20 * i + 16, 4, "index", format!("MCVP[{i}].flags"));
            }
        }
    }
    if let Some((o, tot)) = find("GFID") {
        for i in first_last((tot - 8) / 4) {
            s.field(o + 8 + 4 * i, 4, "index", format!("GFID[{i}]"));
        }
    }
}

fn group_inventory(s: &mut Seed) {
    let len = s.bytes.len();
    let top = add_chunk_seq(s, "top", 0, len, vec![], true);
    if let Some(c) = top.iter().find(|c| c.2 == "MVER") {
        s.field(c.0 + 8, 4, "index", "MVER.version");
    }
    let (mo, mtot) = match top.iter().find(|c| c.2 == "MOGP") {
        Some(c) => (c.0, c.1),
        None => return,
    };
    let h = mo + 8;
    s.field(h, 4, "stroff", "MOGP.group_name");
    s.field(h + 4, 4, "stroff", "MOGP.descriptive_name");
    s.field(h + 8, 4, "index", "MOGP.flags");
    s.field(h + 36, 2, "index", "MOGP.portal_start");
    s.field(h + 38, 2, "count", "MOGP.portal_count");
    s.field(h + 40, 2, "count", "MOGP.trans_batch_count");
    s.field(h + 42, 2, "count", "MOGP.int_batch_count");
    s.field(h + 44, 2, "count", "MOGP.ext_batch_count");
    s.field(h + 46, 2, "count", "MOGP.batch_type_d");
    for i in 0..4 {
        s.field(h + 48 + i, 1, "index", format!("MOGP.fog_ids[{i}]"));
    }
    s.field(h + 52, 4, "index", "MOGP.group_liquid");
    s.field(h + 56, 4, "index", "MOGP.unique_id");
    s.field(h + 60, 4, "index", "MOGP.flags2");
    s.field(h + 64, 2, "index", "MOGP.parent_split_group");
    s.field(h + 66, 2, "index", "MOGP.next_split_child");

    // sub-chunks: nested in the MOGP payload, or (flat layout) the top-level siblings behind it
    let subs = if mtot > 8 + 68 { add_chunk_seq(s, "MOGP", h + 68, mo + mtot, vec![mo + 4], true) } else { top.clone() };
    let find = |t: &str| subs.iter().find(|c| c.2 == t).map(|c| (c.0, c.1));
    let pay = |t: &str| find(t).map(|c| c.0 + 8);
    let movt = pay("MOVT").unwrap_or(mo + mtot);
    let movi = pay("MOVI").unwrap_or(mo + mtot);
    let mobr = pay("MOBR").unwrap_or(mo + mtot);
    if let Some((o, tot)) = find("MOPY") {
        for i in first_last((tot - 8) / 2) {
            s.field(o + 8 + 2 * i, 1, "index", format!("MOPY[{i}].flags"));
            s.field(o + 8 + 2 * i + 1, 1, "index", format!("MOPY[{i}].material_id"));
        }
    }
    if let Some((o, tot)) = find("MOVI") {
        for i in first_last((tot - 8) / 2) {
            s.field_ex(o + 8 + 2 * i, 2, "index", format!("MOVI[{i}]"), movt, 12, None);
        }
    }
    if let Some((o, tot)) = find("MOBA") {
        for i in first_last((tot - 8) / 24) {
            let e = o + 8 + 24 * i;
            s.field_ex(e + 12, 4, "index", format!("MOBA[{i}].start_index"), movi, 2, None);
            s.field_ex(e + 16, 2, "count", format!("MOBA[{i}].count"), movi, 2, None);
            s.field_ex(e + 18, 2, "index", format!("MOBA[{i}].min_index"), movt, 12, None);
            s.field_ex(e + 20, 2, "index", format!("MOBA[{i}].max_index"), movt, 12, None);
            s.field(e + 22, 1, "index", format!("MOBA[{i}].flags"));
            s.field(e + 23, 1, "index", format!("MOBA[{i}].material_id"));
        }
    }
    for t in ["MOLR", "MODR", "MOBR", "MORI"] {
        if let Some((o, tot)) = find(t) {
            for i in first_last((tot - 8) / 2) {
                s.field(o + 8 + 2 * i, 2, "index", format!("{t}[{i}]"));
            }
        }
    }
    if let Some((o, tot)) = find("MOBN") {
        for i in first_last((tot - 8) / 16) {
            let e = o + 8 + 16 * i;
            s.field(e, 2, "index", format!("MOBN[{i}].flags"));
            s.field(e + 2, 2, "index", format!("MOBN[{i}].neg_child"));
            s.field(e + 4, 2, "index", format!("MOBN[{i}].pos_child"));
            s.field_ex(e + 6, 2, "count", format!("MOBN[{i}].n_faces"), mobr, 2, None);
            s.field_ex(e + 8, 4, "index", format!("MOBN[{i}].face_start"), mobr, 2, None);
        }
    }
    if let Some((o, tot)) = find("MLIQ") {
        let p = o + 8;
        let data = (p + 30).min(o + tot);
        s.field_ex(p, 4, "count", "MLIQ.x_verts", data, 8, None);
        s.field_ex(p + 4, 4, "count", "MLIQ.y_verts", data, 8, None);
        s.field_ex(p + 8, 4, "count", "MLIQ.x_tiles", data, 1, None);
        s.field_ex(p + 12, 4, "count", "MLIQ.y_tiles", data, 1, None);
        s.field(p + 28, 2, "index", "MLIQ.material_id");
    }
    for t in ["MORB", "MOBS"] {
        if let Some((o, _)) = find(t) {
            s.field_ex(o + 8, 2, "index", format!("{t}[0].start_index"), movi, 2, None);
            s.field_ex(o + 10, 2, "count", format!("{t}[0].index_count"), movi, 2, None);
            s.field_ex(o + 12, 2, "index", format!("{t}[0].min_index"), movt, 12, None);
            s.field_ex(o + 14, 2, "index", format!("{t}[0].max_index"), movt, 12, None);
        }
    }
}

pub fn build(name: &str) -> Seed {
    if name.starts_with("root-") {
        let bytes = match name {
            "root-full-v17" => upgrade_root(write_root(WmoVersion::Wotlk, true)),
            "root-classic-writer" => write_root(WmoVersion::Classic, false),
            "root-mop-writer" => write_root(WmoVersion::Mop, true),
            "root-wod-v18-writer" => write_root(WmoVersion::Wod, true),
            "root-minimal-v18-mcvp" => {
                let mut b = write_model(&empty_root_model(WmoVersion::Wod), WmoVersion::Wod);
                assert_eq!(walk_chunks(&b, 0, b.len()).len(), 2, "wmo: an empty WmoRoot is written as MVER + MOHD");
                // MOHD.flags |= HAS_SKYBOX while the file has no MOSB chunk. Byte patch: write_header clears
                // the flag whenever WmoRoot::skybox is None and write_root emits MOSB whenever it is Some.
                let (o, tot) = find_chunk(&b, "MOHD");
                assert_eq!(tot, 8 + 64);
                b[o + 8 + 60] |= WmoFlags::HAS_SKYBOX.bits() as u8;
                b.extend_from_slice(&hand_mcvp(20));
                b
            }
            "root-legion-v19-writer" => {
                let mut b = write_model(&root_model_directional(WmoVersion::Legion, true), WmoVersion::Legion);
                b.extend_from_slice(&hand_mcvp(16));
                b
            }
            "root-bfa-v20-groupnames" => {
                let mut b = write_model(&groupnames_model(WmoVersion::Bfa), WmoVersion::Bfa);
                // the LAST MOGI entry gets a name offset behind the end of MOGN. Byte patch: write_group_info
                // computes every offset from the names it has just written, so it is always inside MOGN.
                let (_, gn_tot) = find_chunk(&b, "MOGN");
                let (o, tot) = find_chunk(&b, "MOGI");
                assert_eq!(tot, 8 + 3 * 32);
                put32(&mut b, o + 8 + 32 * 2 + 28, (gn_tot - 8) as u32 + 16);
                b
            }
            "root-sl-v21-writer" => write_root(WmoVersion::Shadowlands, true),
            "root-df-v22-minimal" => write_model(&empty_root_model(WmoVersion::Dragonflight), WmoVersion::Dragonflight),
            "root-tww-v23-writer" => write_model(&root_model_directional(WmoVersion::WarWithin, false), WmoVersion::WarWithin),
            _ => wverif_common::tool_error(&format!("wmo: unknown seed {name}")),
        };
        let mut s = Seed::new("wmo", name, bytes);
        s.aux = Aux::Names(vec!["root".into()]);
        root_inventory(&mut s);
        s
    } else {
        let mut s = Seed::new("wmo", name, build_group(name));
        s.aux = Aux::Names(vec!["group".into()]);
        group_inventory(&mut s);
        s
    }
}

/// True if a MOHD tag stands at a top-level chunk position.
fn has_top_level_mohd(bytes: &[u8]) -> bool {
    let mut p = 0usize;
    while p + 8 <= bytes.len() {
        if &bytes[p..p + 4] == b"DHOM" {
            return true;
        }
        let sz = u32_at(bytes, p + 4) as usize;
        p = match p.checked_add(8 + sz) {
            Some(n) => n,
            None => return false,
        };
    }
    false
}

pub fn run(r: &mut Runner, bytes: &[u8], aux: &Aux) {
    r.call("parse_wmo", || wow_wmo::parse_wmo(&mut Cursor::new(bytes)).map(|_| ()).map_err(errname));
    // WmoParser (parser.rs) has a root method only; the crate's group counterpart
    // (WmoGroupParser::parse_group) is a stub that returns Err without reading. Root seeds always
    // go through parse_root; inputs derived from a group seed do when they carry a MOHD chunk.
    let is_root = matches!(aux, Aux::Names(v) if v.first().map(|s| s == "root").unwrap_or(false));
    if is_root || has_top_level_mohd(bytes) {
        r.call("WmoParser", || WmoParser::new().parse_root(&mut Cursor::new(bytes)).map(|_| ()).map_err(errname));
    }
}
