CONSTANTS
  Guard = FALSE
  Plat = "posix"
  MaxComps = 4
  MaxEntries = 1
  MCForms = {"rel", "abs", "dotrel", "trail"}
INIT Init
NEXT Next
CHECK_DEADLOCK FALSE
INVARIANTS
  TypeOK
  UnreadTouchesNothing
  PredictionMatchesMachine
  AbortCharacterised
  EscapeCharacterised
  EscapeOnlyByCharacterised
  FlattenContained
  GuardCoversEscapes
