CONSTANT Threads = {1, 2, 3, 4}
CONSTANT CatCap <- MCCatCap
CONSTANT MaxHeld = 2
CONSTANT Dev = {}
CONSTANT Budget = 3
CONSTANT Sizes = {0, 1, 2, 3, 4, 5, 6, 7}
CONSTANT MaxPers = {0, 1, 2, 3}
CONSTANT StatsModes = {TRUE, FALSE}
CONSTANT LocalOps = TRUE
INIT GInit
NEXT GNext
CHECK_DEADLOCK FALSE
