"""Orchestration library of /verif (python3 stdlib only).

Pipeline per property (DESIGN.md section 0):
  (A) ctx.mc(...)        exhaustive TLC model check of the design-level spec
  (B) ctx.gen(...)       TLC enumerates abstract cases -> cases.ndjson
  (C) ctx.harness(...)   the Rust driver replays them on the real code -> trace.ndjson
  (D) ctx.validate(...)  TLC trace validation decides; BAD / stuck events are the violations
  ctx.finish(...)        known-findings filter, evidence file, VIOLATION lines, exit status

Exit status: 0 held, 1 violation (with `VIOLATION property=<id> replay=<path>`), 2 tool error.
"""
import hashlib
import json
import os
import re
import shutil
import subprocess
import sys
import time

VERIF = os.path.dirname(os.path.dirname(os.path.abspath(__file__)))
SPECS = os.path.join(VERIF, "specs")
HARNESS = os.path.join(VERIF, "harness")
JAR = "/opt/veriftools/tla/tla2tools.jar:/opt/veriftools/tla/CommunityModules-deps.jar"
NCPU = os.cpu_count() or 4


class ToolError(Exception):
    pass


def log(msg):
    print(f"[vcheck] {msg}", flush=True)


def repo_root():
    return os.path.abspath(os.environ.get("VERIF_REPO", "/repo"))


def harness_dir():
    """The harness workspace to build. For VERIF_REPO != /repo (mutant / refactor self-tests on a
    scratch worktree) a mirror of /verif/harness with rewritten paths is kept under /var/tmp."""
    root = repo_root()
    if root == "/repo":
        return HARNESS
    h = hashlib.sha1(root.encode()).hexdigest()[:10]
    mirror = f"/var/tmp/wvh-{h}"
    os.makedirs(mirror, exist_ok=True)
    subprocess.run(["rsync", "-a", "--delete", "--exclude", "target", "--exclude", "target-*",
                    HARNESS + "/", mirror + "/"], check=True)
    for dp, dn, fn in os.walk(mirror):
        if "/target" in dp:
            continue
        for f in fn:
            if f.endswith((".toml", ".rs")):
                p = os.path.join(dp, f)
                s = open(p).read()
                s2 = s.replace('"/repo/', f'"{root}/')
                if s2 != s:
                    # keep mtime stable when content is unchanged from the previous mirror run
                    open(p, "w").write(s2)
    return mirror


class Ctx:
    def __init__(self, prop, tier, seed, meta):
        self.prop = prop
        self.tier = tier
        self.seed = seed
        self.meta = meta
        self.t0 = time.time()
        base = os.environ.get("VERIF_SCRATCH_BASE") or os.environ.get("TMPDIR") or "/var/tmp"
        self.scratch = os.path.join(base, f"wverif.{prop}.{os.getpid()}")
        shutil.rmtree(self.scratch, ignore_errors=True)
        os.makedirs(self.scratch)
        self.env = dict(os.environ)
        self.env.update({"VERIF_SEED": str(seed), "VERIF_TIER": tier, "VERIF_SCRATCH": self.scratch})
        self.mc_stats = []          # list of dicts from stage (A)
        self.notes = []
        self.drift = []
        self.thorough = tier == "thorough"

    # ------------------------------------------------------------------ paths
    def path(self, name):
        return os.path.join(self.scratch, name)

    def cleanup(self):
        if not os.environ.get("VERIF_KEEP"):
            shutil.rmtree(self.scratch, ignore_errors=True)

    # ------------------------------------------------------------------ TLC
    def tlc(self, module, cfg=None, env=None, workers=1, timeout=600, heap="4g", extra=(), simulate=None,
            deque=False, tag=None):
        """Run TLC on specs/<module>.tla; returns (returncode, output text)."""
        tag = tag or module
        meta = self.path(f"tlc-{tag}-{int(time.time()*1000)%100000000}")
        out = meta + ".out"
        # few GC / JIT threads per JVM: many TLC processes run side by side (16 shards, several checks)
        if workers <= 2:
            jopts = ["-Xss512m", f"-Xmx{heap}", "-XX:+UseSerialGC", "-XX:CICompilerCount=2"]
        else:
            jopts = ["-Xss512m", f"-Xmx{heap}", "-XX:+UseParallelGC", "-XX:ParallelGCThreads=4"]
        if deque:
            jopts.append("-Dtlc2.tool.queue.IStateQueue=StateDeque")
        cmd = ["java"] + jopts + ["-cp", JAR, "tlc2.TLC", "-workers", str(workers), "-metadir", meta,
                                    "-cleanup", "-noGenerateSpecTE"]
        if simulate:
            cmd += ["-simulate", simulate]
        cmd += list(extra)
        cmd += ["-config", (cfg or module) + ".cfg", module + ".tla"]
        e = dict(self.env)
        if env:
            e.update({k: str(v) for k, v in env.items()})
        with open(out, "w") as fo:
            try:
                p = subprocess.run(cmd, cwd=SPECS, env=e, stdout=fo, stderr=subprocess.STDOUT, timeout=timeout)
                rc = p.returncode
            except subprocess.TimeoutExpired:
                rc = -9
        text = open(out, errors="replace").read()
        shutil.rmtree(meta, ignore_errors=True)
        if rc == -9:
            raise ToolError(f"TLC timeout after {timeout}s on {module} (output tail: {text[-600:]})")
        return rc, text

    def mc(self, module, cfg=None, workers=None, timeout=900, env=None, heap="8g", expect_actions=None,
           allow_uncovered=()):
        """Stage (A): exhaustive model check with -coverage; records states/transitions.
        A failure of the model itself is a tool error (the model is ours), never a VIOLATION."""
        workers = workers or min(8, NCPU)
        t = time.time()
        rc, text = self.tlc(module, cfg, env=env, workers=workers, timeout=timeout, heap=heap,
                            extra=("-coverage", "1"), tag="mc-" + (cfg or module))
        m = re.search(r"(\d+) states generated, (\d+) distinct states found, (\d+) states left", text)
        if rc != 0 or "No error has been found" not in text or not m:
            raise ToolError(f"stage A: model check of {module}/{cfg or module} failed rc={rc}:\n" + _tail(text))
        gen, distinct = int(m.group(1)), int(m.group(2))
        # vacuity guard: every top-level action must have been taken at least once
        acts = {}
        for am in re.finditer(r"^<(\w+) line \d+, col \d+ to line \d+, col \d+ of module (\w+)>: (\d+):(\d+)", text, re.M):
            acts[am.group(1)] = acts.get(am.group(1), 0) + int(am.group(4))
        never = sorted(a for a, n in acts.items() if n == 0 and a not in allow_uncovered and a != "Init")
        if never:
            raise ToolError(f"stage A: actions never taken in {module}: {never} (vacuous model)")
        if expect_actions:
            missing = [a for a in expect_actions if a not in acts]
            if missing:
                raise ToolError(f"stage A: expected actions missing from coverage of {module}: {missing}")
        st = {"module": module, "cfg": cfg or module, "states": distinct, "transitions": gen,
              "actions": acts, "wall_s": round(time.time() - t, 1)}
        self.mc_stats.append(st)
        log(f"(A) {module}/{cfg or module}: {distinct} distinct states, {gen} generated, "
            f"{len(acts)} actions covered, {st['wall_s']}s")
        return st

    def apalache(self, module, inv, init="Init", next_="Next", length=0, cinit=None, timeout=900, expect="ok"):
        """Stage (A'), symbolic: `apalache-mc check` of specs/<module>.tla (typed module). expect = "ok" (no error up
        to `length`) or "cex" (a counterexample must exist: must-refute variant). Like stage (A) a failure is a tool
        error (the model is ours), never a VIOLATION. Records the obligation in mc_stats."""
        out = self.path(f"apa-{module}-{inv}-{int(time.time()*1000)%100000000}")
        cmd = ["apalache-mc", "check", f"--init={init}", f"--next={next_}", f"--inv={inv}", f"--length={length}",
               f"--out-dir={out}"]
        if cinit:
            cmd.append(f"--cinit={cinit}")
        cmd.append(module + ".tla")
        t = time.time()
        e = dict(self.env)
        e.setdefault("JVM_ARGS", "-Xmx6g")
        try:
            p = subprocess.run(cmd, cwd=SPECS, env=e, stdout=subprocess.PIPE, stderr=subprocess.STDOUT, timeout=timeout,
                               text=True, errors="replace")
            rc, text = p.returncode, p.stdout
        except subprocess.TimeoutExpired:
            shutil.rmtree(out, ignore_errors=True)
            raise ToolError(f"Apalache timeout after {timeout}s on {module} {init}/{next_}/{inv} length {length}")
        shutil.rmtree(out, ignore_errors=True)
        got = "ok" if (rc == 0 and "EXITCODE: OK" in text) else ("cex" if rc == 12 else "error")
        if got != expect:
            raise ToolError(f"stage A' (Apalache): {module} init={init} next={next_} inv={inv} length={length}: "
                            f"expected {expect}, got {got} rc={rc}:\n" + _tail(text, 25))
        st = {"module": module, "cfg": f"apalache init={init} next={next_} inv={inv} length={length} -> {got}",
              "states": 0, "transitions": 0, "actions": {}, "wall_s": round(time.time() - t, 1), "symbolic": True}
        self.mc_stats.append(st)
        log(f"(A') Apalache {module}: {init} /\\ {next_}^{length} => {inv}: {got} as expected, {st['wall_s']}s")
        return st

    def gen(self, module, cfg=None, env=None, timeout=600, cases_name="cases.ndjson", workers=1, simulate=None,
            heap="4g"):
        """Stage (B): TLC writes cases to $CASES (ndJsonSerialize) and/or prints `CASE <json>` lines."""
        cases = self.path(cases_name)
        e = {"CASES": cases}
        if env:
            e.update(env)
        if os.path.exists(cases):
            os.remove(cases)
        rc, text = self.tlc(module, cfg, env=e, workers=workers, timeout=timeout, simulate=simulate, heap=heap,
                            tag="gen-" + (cfg or module))
        printed = []
        for line in text.splitlines():
            line = line.strip()
            if line.startswith('"CASE '):
                try:
                    printed.append(json.loads(json.loads(line)[5:]))
                except Exception as ex:  # noqa
                    raise ToolError(f"stage B: unparsable CASE line {line[:200]}: {ex}")
        if printed:
            with open(cases, "a") as f:
                for c in printed:
                    f.write(json.dumps(c) + "\n")
        ok = ("No error has been found" in text) or (simulate and rc in (0,)) or printed
        if not os.path.exists(cases) or not ok:
            raise ToolError(f"stage B: generator {module} failed rc={rc}:\n" + _tail(text))
        n = sum(1 for _ in open(cases))
        log(f"(B) {module}: {n} cases")
        return cases, n

    # ------------------------------------------------------------------ cargo / harness
    def build(self, crate, bins=None, timeout=3000):
        """Build a harness crate from the current /repo working tree (hooks on via --cfg wowrs_verif)."""
        hd = harness_dir()
        t = time.time()
        cmd = ["cargo", "build", "--offline", "-p", crate]
        for attempt in range(6):
            p = subprocess.run(cmd, cwd=hd, env=self.env, stdout=subprocess.PIPE, stderr=subprocess.STDOUT,
                               timeout=timeout, text=True)
            # a sibling crate being edited by another builder can make the workspace unloadable for a moment
            if p.returncode != 0 and "failed to load manifest for workspace member" in p.stdout \
                    and f"props/{crate}`" not in p.stdout and attempt < 5:
                time.sleep(20)
                if hd != HARNESS:
                    hd = harness_dir()
                continue
            break
        if p.returncode != 0:
            raise ToolError(f"cargo build -p {crate} failed:\n" + _tail(p.stdout, 60))
        log(f"built {crate} in {round(time.time()-t,1)}s")
        return os.path.join(hd, "target", "debug", crate)

    def build_cli(self, timeout=3600):
        """Build the warcraft-rs CLI binary from the current tree (own target dir; never /repo/target)."""
        root = repo_root()
        hd = harness_dir()
        td = os.path.join(hd, "target-cli")
        t = time.time()
        cmd = ["cargo", "build", "--offline", "--manifest-path", os.path.join(root, "Cargo.toml"),
               "-p", "warcraft-rs", "--target-dir", td]
        env = dict(self.env)
        env.pop("RUSTFLAGS", None)
        p = subprocess.run(cmd, cwd=root, env=env, stdout=subprocess.PIPE, stderr=subprocess.STDOUT,
                           timeout=timeout, text=True)
        if p.returncode != 0:
            raise ToolError("cargo build of the CLI failed:\n" + _tail(p.stdout, 60))
        log(f"built CLI in {round(time.time()-t,1)}s")
        return os.path.join(td, "debug", "warcraft-rs")

    def harness(self, binary, cases, trace_name="trace.ndjson", extra=(), timeout=3000, env=None):
        """Stage (C): run the driver: <bin> <cases> <trace> [extra]. Exit 0 expected; anything else
        is a tool error (crashes of the code under test are caught inside the driver and logged)."""
        trace = self.path(trace_name)
        e = dict(self.env)
        if env:
            e.update({k: str(v) for k, v in env.items()})
        t = time.time()
        try:
            p = subprocess.run([binary, cases, trace] + list(extra), env=e, stdout=subprocess.PIPE,
                               stderr=subprocess.STDOUT, timeout=timeout, text=True, errors="replace")
        except subprocess.TimeoutExpired:
            raise ToolError(f"stage C: driver {binary} timed out after {timeout}s")
        if p.returncode != 0:
            raise ToolError(f"stage C: driver {binary} exited {p.returncode}:\n" + _tail(p.stdout, 40))
        n = sum(1 for _ in open(trace))
        log(f"(C) {os.path.basename(binary)}: {n} events in {round(time.time()-t,1)}s")
        return trace

    # ------------------------------------------------------------------ trace validation
    def validate(self, module, trace, cfg=None, shards=None, timeout=1200, env=None, heap="3g",
                 max_restarts=400):
        """Stage (D): validate `trace` against specs/<module>.tla.

        The trace is split at `Reset` events into shards validated by parallel TLC processes
        (-workers 1, depth-first queue). A shard run ends either with CONSUMED (all events matched
        or reported as BAD by the spec's own totalised actions) or with TRACE_STUCK_AT d (no action
        of the spec explains event d): that event is recorded as bad, and validation resumes at the
        next Reset, so the whole trace is examined.

        Returns dict(events, traces, bad=[{line, ev, why, rec, reset}]).
        """
        lines = open(trace).read().splitlines()
        recs = [json.loads(x) for x in lines]
        resets = [i for i, r in enumerate(recs) if r.get("ev") == "Reset"]
        if not resets or resets[0] != 0:
            raise ToolError("trace does not start with a Reset event")
        shards = shards or min(16, NCPU)
        # segment boundaries: group whole reset-delimited traces into ~equal shards
        target = max(1, len(recs) // shards)
        bounds = [0]
        for r in resets[1:]:
            if r - bounds[-1] >= target and len(bounds) < shards:
                bounds.append(r)
        bounds.append(len(recs))
        segs = [(bounds[i], bounds[i + 1]) for i in range(len(bounds) - 1)]
        t = time.time()
        results = _parallel_map(lambda seg: self._validate_segment(module, cfg, lines, recs, resets, seg, timeout,
                                                                   env, heap, max_restarts), segs)
        bad = []
        consumed = 0
        for r in results:
            bad.extend(r["bad"])
            consumed += r["consumed"]
        bad.sort(key=lambda b: b["line"])
        log(f"(D) {module}: {consumed} events of {len(recs)} consumed in {len(resets)} traces, "
            f"{len(bad)} rejected, {round(time.time()-t,1)}s")
        return {"events": consumed, "traces": len(resets), "bad": bad, "total": len(recs)}

    def _validate_segment(self, module, cfg, lines, recs, resets, seg, timeout, env, heap, max_restarts):
        lo, hi = seg
        bad = []
        consumed = 0
        start = lo
        restarts = 0
        import bisect
        while start < hi:
            part = self.path(f"seg-{lo}-{start}.ndjson")
            with open(part, "w") as f:
                f.write("\n".join(lines[start:hi]) + "\n")
            e = {"TRACE": part}
            if env:
                e.update(env)
            rc, text = self.tlc(module, cfg, env=e, workers=1, timeout=timeout, heap=heap, deque=True,
                                tag=f"tv-{lo}-{start}")
            os.remove(part)
            text = _unwrap_tuples(text)
            seen = set()
            for m in re.finditer(r'^<<"BAD", (\d+), (.*)>>\s*$', text, re.M):
                ln = start + int(m.group(1)) - 1
                if (ln, m.group(2)) in seen:      # TLC may evaluate an action more than once
                    continue
                seen.add((ln, m.group(2)))
                bad.append(self._mkbad(recs, resets, ln, m.group(2)))
            for m in re.finditer(r'^<<"DRIFT", (\d+), (.*)>>\s*$', text, re.M):
                self.drift.append({"line": start + int(m.group(1)) - 1, "what": m.group(2)})
            if re.search(r'<<"CONSUMED", \d+>>', text) and "No error has been found" in text:
                consumed += hi - start
                break
            ms = re.search(r'<<"TRACE_STUCK_AT", (\d+)>>', text)
            mi = re.search(r"Invariant (\w+) is violated", text)
            if ms or mi:
                if ms:
                    d = int(ms.group(1))            # diameter = events consumed + 1 -> stuck event index d
                    ln = start + d - 1
                    why = '"unexplained"'
                else:
                    # invariant violated after consuming some events: the last state printed carries tl
                    tls = re.findall(r"^/?\\?\s*tl = (\d+)", text, re.M)
                    d = int(tls[-1]) - 1 if tls else 1
                    ln = start + max(d, 1) - 1
                    why = '"invariant ' + mi.group(1) + '"'
                if ln >= hi:
                    raise ToolError(f"stage D: inconsistent stuck position in {module}:\n" + _tail(text))
                bad.append(self._mkbad(recs, resets, ln, why))
                consumed += ln - start
                # resume at the next Reset after the rejected event
                j = bisect.bisect_right(resets, ln)
                nxt = resets[j] if j < len(resets) else hi
                start = min(nxt, hi)
                restarts += 1
                if restarts > max_restarts:
                    raise ToolError(f"stage D: more than {max_restarts} rejected traces in one shard of {module}")
                continue
            raise ToolError(f"stage D: trace validation of {module} failed (rc={rc}):\n" + _tail(text))
        return {"bad": bad, "consumed": consumed}

    @staticmethod
    def _mkbad(recs, resets, ln, why):
        import bisect
        j = bisect.bisect_right(resets, ln) - 1
        reset = recs[resets[j]] if j >= 0 else {}
        return {"line": ln + 1, "ev": recs[ln].get("ev"), "case": recs[ln].get("case"), "why": why.strip(),
                "rec": recs[ln], "reset": reset, "reset_line": resets[j] + 1 if j >= 0 else 0}


def _unwrap_tuples(text):
    """TLC's pretty printer wraps a printed tuple longer than 80 columns over several lines
    (`<< "BAD",` / `   12,` / `   "..." >>`). Join such BAD / DRIFT / TRACE_STUCK_AT / CONSUMED tuples back into the
    one-line form `<<"BAD", 12, "...">>` so that a long message can never hide a rejection."""
    out = []
    acc = None
    depth = 0
    for line in text.splitlines():
        if acc is None:
            if re.match(r'^<< "(BAD|DRIFT|TRACE_STUCK_AT|CONSUMED)",\s*$', line):
                acc = [line.strip()]
                depth = line.count("<<") - line.count(">>")
                continue
            out.append(line)
            continue
        acc.append(line.strip())
        depth += line.count("<<") - line.count(">>")
        if depth <= 0:
            joined = " ".join(acc)
            joined = re.sub(r'<<\s+', '<<', joined)
            joined = re.sub(r'\s+>>', '>>', joined)
            out.append(joined)
            acc = None
    if acc is not None:
        out.append(" ".join(acc))
    return "\n".join(out)


def _parallel_map(fn, items):
    import concurrent.futures as cf
    if not items:
        return []
    with cf.ThreadPoolExecutor(max_workers=min(len(items), NCPU)) as ex:
        return list(ex.map(fn, items))


def _tail(text, n=40):
    ls = text.splitlines()
    keep = [l for l in ls if not l.startswith(("Parsing file", "Semantic processing", "Linting of"))]
    return "\n".join(keep[-n:])


# ---------------------------------------------------------------------- known findings

def load_known(prop):
    """known_findings.json plus known_findings.d/*.json (one file per property while building)."""
    out = []
    files = [os.path.join(VERIF, "known_findings.json")]
    d = os.path.join(VERIF, "known_findings.d")
    if os.path.isdir(d):
        files += sorted(os.path.join(d, f) for f in os.listdir(d) if f.endswith(".json"))
    for p in files:
        if not os.path.exists(p):
            continue
        data = json.load(open(p))
        out += [k for k in data.get("findings", []) if k.get("property") == prop]
    return out


def _match_value(pat, val):
    if isinstance(pat, dict) and "re" in pat:
        return val is not None and re.search(pat["re"], str(val)) is not None
    if isinstance(pat, dict) and "in" in pat:
        return val in pat["in"]
    if isinstance(pat, dict) and "ge" in pat:
        return isinstance(val, (int, float)) and val >= pat["ge"]
    if isinstance(pat, dict) and "le" in pat:
        return isinstance(val, (int, float)) and val <= pat["le"]
    return pat == val


def match_known(sig, known):
    """First `status: known` finding whose every match key agrees with the signature."""
    for k in known:
        if k.get("status") != "known":
            continue
        if all(_match_value(p, sig.get(key)) for key, p in k.get("match", {}).items()):
            return k
    return None


# ---------------------------------------------------------------------- evidence

LEVEL_KEYS = {
    "model_checking": ["states", "transitions", "traces_validated_against_impl", "samples"],
    "translation_validation": ["programs", "disagreements_checked", "samples"],
    "fault_enumeration": ["evaluations", "distinct_nontrivial", "rule", "samples"],
    "exploration": ["evaluations", "distinct_nontrivial", "rule", "samples"],
}


def write_evidence(ctx, level, coverage, assumptions, violations):
    for k in LEVEL_KEYS.get(level, []):
        if k not in coverage:
            raise ToolError(f"evidence for level {level} lacks key {k}")
    if level in ("fault_enumeration", "exploration"):
        if coverage["evaluations"] < 1 or coverage["distinct_nontrivial"] < 2:
            raise ToolError("evidence: too little covered to claim anything")
    if level == "model_checking" and (coverage["states"] < 1 or coverage["transitions"] < 1):
        raise ToolError("evidence: model checking without states")
    if not coverage.get("samples"):
        raise ToolError("evidence: no samples")
    ev = {
        "property_id": ctx.prop,
        "tier": ctx.tier,
        "seed": int(ctx.seed),
        "level": level,
        "coverage": coverage,
        "assumptions": assumptions,
        "wall_s": round(time.time() - ctx.t0, 2),
        "violations": violations,
    }
    # trials against another working tree (VERIF_REPO: mutants, seeded changes, fix candidates) must not overwrite the
    # evidence of /repo itself
    d = os.path.join(VERIF, "evidence") if repo_root() == "/repo" else os.path.join(
        os.environ.get("TMPDIR", "/var/tmp"), "wverif-evidence-other", os.path.basename(repo_root()))
    os.makedirs(d, exist_ok=True)
    p = os.path.join(d, f"{ctx.prop}.json")
    tmp = p + ".tmp"
    with open(tmp, "w") as f:
        json.dump(ev, f, indent=1, sort_keys=True)
        f.write("\n")
    os.replace(tmp, p)
    return p


def write_replay(ctx, n, payload):
    d = os.path.join(VERIF, "replays", ctx.prop)
    os.makedirs(d, exist_ok=True)
    p = os.path.join(d, f"{ctx.tier}-{ctx.seed}-{n}.json")
    with open(p, "w") as f:
        json.dump(payload, f, indent=1)
        f.write("\n")
    return p


def finish(ctx, level, coverage, assumptions, bad, sig_fn=None, trace=None, cases=None, max_report=10):
    """Apply known findings, write evidence + replay files, print verdict lines, return exit code.

    bad: list of dicts from ctx.validate (or synthesized) -- each gets `sig` via sig_fn(bad)."""
    known = load_known(ctx.prop)
    unknown = []
    hits = {}
    for b in bad:
        sig = sig_fn(b) if sig_fn else {"ev": b.get("ev"), "why": b.get("why")}
        b["sig"] = sig
        k = match_known(sig, known)
        if k:
            hits.setdefault(k["id"], [k, 0])[1] += 1
        else:
            unknown.append(b)
    for kid, (k, n) in sorted(hits.items()):
        print(f"KNOWN-FINDING: property={ctx.prop} {kid}: {k.get('what','')} [{n} occurrence(s) this run]", flush=True)
    coverage = dict(coverage)
    if ctx.mc_stats:
        coverage.setdefault("states", sum(s["states"] for s in ctx.mc_stats))
        coverage.setdefault("transitions", sum(s["transitions"] for s in ctx.mc_stats))
        coverage["model_runs"] = [{k: v for k, v in s.items() if k != "actions"} | {"actions_covered": len(s["actions"])}
                                  for s in ctx.mc_stats]
    coverage["known_findings_seen"] = {kid: n for kid, (k, n) in hits.items()}
    coverage["rejected_events"] = len(bad)
    if ctx.drift:
        coverage["drift_notes"] = ctx.drift[:20]
    if ctx.notes:
        coverage["notes"] = ctx.notes
    write_evidence(ctx, level, coverage, assumptions, len(unknown))
    # distinct signatures first, at most max_report replay files
    seen = set()
    n = 0
    for b in unknown:
        key = json.dumps(b["sig"], sort_keys=True)
        if key in seen:
            continue
        seen.add(key)
        n += 1
        if n > max_report:
            break
        payload = {"property": ctx.prop, "tier": ctx.tier, "seed": ctx.seed, "why": b.get("why"),
                   "sig": b["sig"], "event": b.get("rec"), "reset": b.get("reset"), "case": b.get("case"),
                   "trace_line": b.get("line")}
        if trace and os.path.exists(trace) and b.get("reset_line"):
            # the whole rejected trace (from its Reset to the rejected event)
            with open(trace) as f:
                ls = f.read().splitlines()
            payload["trace_prefix"] = [json.loads(x) for x in ls[b["reset_line"] - 1:b["line"]]][-200:]
        if b.get("case_record") is not None:
            payload["case_record"] = b["case_record"]
        p = write_replay(ctx, n, payload)
        print(f"VIOLATION property={ctx.prop} replay={p}", flush=True)
    if unknown:
        log(f"{len(unknown)} rejected event(s) not covered by known findings ({len(seen)} distinct signatures)")
        return 1
    log(f"{ctx.prop} {ctx.tier}: property held on everything explored "
        f"({round(time.time()-ctx.t0,1)}s)")
    return 0
