------------------------- MODULE Gen_BoundedReader -------------------------
(* Stage (B) for C05: the FAULT PLAN.  TLC enumerates                                              *)
(*   - every (archetype, field role, boundary symbol) of BoundedReader's Roles x symbol sets,      *)
(*   - every prefix-length class,                                                                  *)
(*   - every single edit of a chunk sequence (swap / duplicate / delete / zero-size / oversize at  *)
(*     position i),                                                                                *)
(*   - in thorough, joint edits of two sibling fields (pair items) and a budget of seeded havoc     *)
(*     mutations per seed file.                                                                    *)
(* The list is finite and independent of VERIF_SEED.  The harness owns the per-format field        *)
(* inventory and applies every item to every matching field of every seed file; symbols are made   *)
(* concrete per field (len = file length, rem = exact fitting boundary of the field, orig = its    *)
(* valid value, width-dependent masks).                                                            *)
EXTENDS BoundedReader, Json, IOUtils, SequencesExt

Thorough == IOEnv.VERIF_TIER = "thorough"

Wide64  == {"i63max", "i63", "u64max", "u32max+1"}
Trunc16 == {"u16max", "u16max+1"}
Lits(S) == S     \* literal numbers
SymbolsOf(role) ==
  CASE role = "csize"  -> NumSymbols
    [] role = "tag"    -> TagSymbols
    [] role = "count"  -> NumSymbols \cup WideSymbols
    [] role = "offset" -> NumSymbols \cup Wide64 \cup Lits({"511", "512", "513"})     \* 512 = MPQ header alignment
    [] role = "esize"  -> NumSymbols \cup Trunc16
    [] role = "bsize"  -> NumSymbols \cup Wide64
    [] role = "shift"  -> {"0", "1", "2", "orig-1", "orig+1", "i31max", "i31", "u32max"}
                             \cup Lits({"15", "16", "17", "31", "32", "33", "63", "64", "255"})
    [] role = "index"  -> {"0", "1", "2", "orig-1", "orig+1", "len", "i31max", "i31", "u32max"} \cup Trunc16
                             \cup Lits({"3", "4", "5", "7", "8", "9", "16", "255", "256"})
    \* offset / width / height of a rectangle inside a fixed grid (MH2O 8x8 tiles, 9x9 vertices): 0, 1, 7, 8, 9, 255 ...
    [] role = "extent" -> {"0", "1", "2", "orig-1", "orig+1", "i31max", "i31", "u32max"} \cup Lits({"7", "8", "9", "16", "255"})
    [] role = "strlen" -> NumSymbols
    [] role = "stroff" -> NumSymbols
    [] role = "term"   -> {"nonzero"}
    [] role = "marker" -> RepSymbols

FieldItems == {[arch |-> a, role |-> r, val |-> v] : a \in Archetypes, r \in UNION {Roles[x] : x \in Archetypes}, v \in NumSymbols \cup WideSymbols \cup TagSymbols \cup RepSymbols \cup {"nonzero"} \cup
                   {"3", "4", "5", "7", "8", "9", "15", "16", "17", "31", "32", "33", "63", "64", "255", "256", "511", "512", "513"}}
FieldPlan == {it \in FieldItems : it.role \in Roles[it.arch] /\ it.val \in SymbolsOf(it.role)}

PrefixClasses == {"0", "1", "2", "3", "4", "5", "7", "8", "9", "11", "12", "13", "15", "16", "17", "19", "20", "21",
                  "23", "24", "25", "31", "32", "33", "43", "44", "45", "47", "48", "63", "64", "65", "127", "128",
                  "len-1", "len-2", "len-4", "half",
                  "field-start", "field-mid", "field-end", "data-start", "data-start+1",
                  "chunk-start", "chunk-tag", "chunk-hdr", "chunk-mid", "chunk-end-1"}
PrefixPlan == {[arch |-> "prefix", role |-> "-", val |-> c] : c \in PrefixClasses}

ChunkOps == {"swap", "dup", "del", "zero", "over"}
Positions == {"1", "2", "3", "4", "5", "6", "7", "8", "last"}
ChunkPlan == {[arch |-> "chunkedit", role |-> op, val |-> p] : op \in ChunkOps, p \in Positions}

\* two sibling fields of one structure edited together (count with offset, offset with size, ...): the model's
\* adversary chooses count, offset and element size jointly; the single-field items above fix all but one
PairSymbols == {"0", "rem+1", "orig-1", "orig+1", "u32max"}
\* quick: four symbols, applied by the harness to ALL field pairs of the small PTCH header / bsdiff40 block (sizes that
\* must agree with each other: size_after with new_size, ctrl/diff sizes with the copy lengths) and to every pair of
\* `extent` fields of one rectangle (offset with width / height) -- two cooperating edits
PairSymbolsQ == {"orig-1", "orig+1", "rem+1", "u32max"}
PairPlan == LET S == IF Thorough THEN PairSymbols ELSE PairSymbolsQ
            IN  {[arch |-> "pair", role |-> a, val |-> b] : a \in S, b \in S}

\* structured regions (MPQ special files: header + inner arrays stored as a file in the file): the whole region and
\* each inner array one byte / one element shorter or longer than the container and the header flags say
ResizePlan == {[arch |-> "resize", role |-> r, val |-> v] : r \in {"tail", "array"}, v \in {"-1b", "+1b", "-1e", "+1e"}}

HavocPlan == IF Thorough THEN {[arch |-> "havoc", role |-> "-", val |-> "4000"]} ELSE {}

Plan == SetToSeq(FieldPlan) \o SetToSeq(PrefixPlan) \o SetToSeq(ChunkPlan) \o SetToSeq(PairPlan) \o SetToSeq(ResizePlan) \o SetToSeq(HavocPlan)
Cases == [i \in 1..Len(Plan) |-> [id |-> i, arch |-> Plan[i].arch, role |-> Plan[i].role, val |-> Plan[i].val]]
ASSUME ndJsonSerialize(IOEnv.CASES, Cases)
ASSUME PrintT(<<"GENERATED", Len(Cases), "field", Cardinality(FieldPlan), "prefix", Cardinality(PrefixPlan),
                "chunkedit", Cardinality(ChunkPlan), "pair", Cardinality(PairPlan), "havoc", Cardinality(HavocPlan)>>)
=============================================================================
