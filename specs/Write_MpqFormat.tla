--------------------------- MODULE Write_MpqFormat ---------------------------
(* Direction 2 of C02, reference side: TLC evaluates the reference writer (MpqFormat!RefWrite) on  *)
(* the concretised cases (file contents already cut into sectors and, where requested, compressed  *)
(* by Python's zlib/bz2) and emits the archive bytes in the standard format, plus -- where named   *)
(* deviations of the library can apply to some file -- variant archives in which every such file is *)
(* laid out under one combination of its deviations (variant j = each file's j-th combination).  Every archive is read back by the reference reader before it is handed to the library *)
(* (selfok): an archive the reference itself cannot read would be a defect of the model, not of    *)
(* the library.  TLC also picks the absent names to probe: one that collides with the first file's *)
(* home slot (if the pool has one), one arbitrary.                                                 *)
EXTENDS MpqFormat, Json, IOUtils, TLC

Rec == ndJsonDeserialize(IOEnv.WCASES)

Prefix(len, user) == IF user /\ len >= 16 THEN UserDataPrefix(len) ELSE [pi \in 1..len |-> (pi * 7) % 251]
CfgOf(r)   == [ver |-> r.cfg.ver, shift |-> r.cfg.shift, hcount |-> r.cfg.hcount, ndel |-> r.cfg.ndel,
               hibt |-> r.cfg.hibt, prefix |-> Prefix(r.cfg.prefixlen, r.cfg.userdata)]
FileOf(f)  == [name |-> f.nb, locale |-> f.locale, crc |-> f.crc, fsize |-> f.fsize, enc |-> f.enc, single |-> f.single, cflag |-> f.cflag,
               sectors |-> [si \in 1..Len(f.sectors) |-> [m |-> f.sectors[si].m, p |-> f.sectors[si].p]]]

Encode(r) ==
  LET cfg   == CfgOf(r)
      ssize == SectorSize(cfg.shift)
      files == [fi \in 1..Len(r.files) |-> FileOf(r.files[fi])]
      wf    == \A fi \in 1..Len(files) : FileWellFormed(files[fi], ssize)
      std   == RefWrite(files, cfg, Std)
      names == {files[fi].name : fi \in 1..Len(files)}
      neutral == {fi \in 1..Len(files) : files[fi].locale = 0}
      back  == RefRead(std, names, Std)
      selfok == /\ wf
                /\ OpenArchive(std).res = "ok" /\ OpenArchive(std).base = Len(cfg.prefix)
                /\ \A fi \in neutral :                     \* a neutral-locale lookup must find the neutral entry
                     /\ back[files[fi].name].res = "ok" /\ back[files[fi].name].locale = 0
                     /\ back[files[fi].name].crc \in {"none", "ok"}
                     /\ back[files[fi].name].sectors = ExpectSectors(files[fi], ssize)
                     /\ back[files[fi].name].fsize = files[fi].fsize
      \* per file: the combinations of reader-side deviations that can matter, smallest first
      tailp(f) == \E si \in 1..Len(f.sectors) : Len(UnitBytes(f.sectors[si])) % 4 # 0
      cands(f) == CandLabels(f.name, f.enc, f.single, f.cflag, f.crc, f.fsize, IF tailp(f) THEN 1 ELSE 0, Len(f.sectors), "r")
                  \ (IF tailp(f) THEN {} ELSE {"tail"})
      subs   == [fi \in 1..Len(files) |-> SubsetSeqs(cands(files[fi]))]
      nvar   == FoldLeft(LAMBDA acc, fi : IF Len(subs[fi]) > acc THEN Len(subs[fi]) ELSE acc, 0, [fi \in 1..Len(files) |-> fi])
      \* variant archive vj: file fi written under its vj-th combination (standard if it has fewer)
      variant(vj) == RefWriteD(files, cfg, [fi \in 1..Len(files) |->
                                 IF vj <= Len(subs[fi]) THEN DialectOf(subs[fi][vj]) ELSE Std])
      pool   == r.absentpool
      coll   == {ai \in 1..Len(pool) : HomeSlot(pool[ai], cfg.hcount) = HomeSlot(files[1].name, cfg.hcount)}
      a1     == IF coll = {} THEN 1 ELSE CHOOSE ai \in coll : \A a2 \in coll : ai <= a2
      a2     == IF a1 = Len(pool) THEN 1 ELSE Len(pool)
  IN  [ case |-> r.case, selfok |-> selfok,
        std |-> std,
        vars |-> [vj \in 1..nvar |-> variant(vj)],
        labels |-> [fi \in 1..Len(files) |-> [vj \in 1..Len(subs[fi]) |-> LabelSeq(subs[fi][vj])]],
        absent |-> <<a1, a2>> ]

Out == [ri \in 1..Len(Rec) |-> Encode(Rec[ri])]
ASSUME ndJsonSerialize(IOEnv.OUT, Out)
ASSUME PrintT(<<"ENCODED", Len(Rec)>>)
=============================================================================
