---------------------------- MODULE MpqSecurity ----------------------------
(* X02 (2): the security session state of wow-mpq (security.rs) as a state machine.               *)
(*   SessionTracker            record_decompression / check_session_limits / .._with_addition      *)
(*   DecompressionMonitor, AsyncDecompressionMonitor   new / check_progress / request_cancellation *)
(*   AdaptiveCompressionLimits::calculate_limit        (reference function Limit)                  *)
(*   validate_decompression_operation                  (decision function ValidateOut)             *)
(*   AsyncArchiveReader::create_decompression_monitor  (AMonOut)                                   *)
(* The documented contract, as read from the code and its comments:                               *)
(*   C1 counters only grow (total by the recorded bytes, files by one per record);                *)
(*   C2 a limit L is enforced at the exact boundary: value = L passes, value = L + 1 is refused    *)
(*      (session total, total + addition (saturating), per-file size, ratio, monitor size);       *)
(*   C3 a refused operation changes nothing (session counters; a monitor keeps its last accepted  *)
(*      progress value); cancellation and expiry are sticky;                                      *)
(*   C4 the ratio limit is a non-increasing function of the compressed size, stays within         *)
(*      [50, 50000] when adaptive limits are on and equals the base limit when they are off.      *)
(* Named deviations (what the current code does instead): DevWrapRecord (fetch_add wraps at 2^64  *)
(* although every check saturates), DevMulOverflow (u32 products in calculate_limit), DevAMonZero  *)
(* (create_decompression_monitor passes compressed_size = 0, which validate_file_bounds refuses). *)
EXTENDS MpqIoNum, Integers, Sequences

CONSTANTS DevWrapRecord, DevMulOverflow, DevAMonZero

\* ---- session -------------------------------------------------------------------------------------
Sess0 == [total |-> NZero, files |-> 0]
RecordNext(sess, bytes) ==
    [total |-> IF DevWrapRecord THEN NWrapAdd(sess.total, bytes) ELSE NSatAdd(sess.total, bytes), files |-> sess.files + 1]
CheckOut(sess, lim) == IF NLe(sess.total, lim.maxsess) THEN "ok" ELSE "err"
CheckAddOut(sess, lim, add) == IF NLe(NSatAdd(sess.total, add), lim.maxsess) THEN "ok" ELSE "err"

\* ---- adaptive ratio limit ------------------------------------------------------------------------
SizeMult(base, csize) == IF csize <= 512 THEN base * 10 ELSE IF csize <= 4096 THEN base * 5
                         ELSE IF csize <= 65536 THEN base * 2 ELSE IF csize <= 1048576 THEN base ELSE base \div 2
MethodAdj(v, method) == CASE method = 2 -> v * 2 [] method = 16 -> v * 3 [] method = 18 -> v * 4
                          [] method = 32 -> v \div 2 [] method = 8 -> v [] method = 1 -> v \div 2
                          [] method \in {64, 128} -> v * 2 [] OTHER -> v
Clamp(v) == IF v < 50 THEN 50 ELSE IF v > 50000 THEN 50000 ELSE v
BigBase == 200000            \* from here on even base / 2 / 2 reaches the hard maximum
U32Safe == 107374182         \* = (2^32 - 1) div 40: no product of calculate_limit can leave u32 below this base
Limit(base, enabled, csize, method) ==
    IF ~enabled THEN base ELSE IF base >= BigBase THEN 50000 ELSE Clamp(MethodAdj(SizeMult(base, csize), method))

\* ---- validate_decompression_operation ------------------------------------------------------------
\* lim = [maxsess, maxdec (N64), ratio (int), pattern, adaptive]; sizes are plain integers < 2^30
HardLimitsOk(sess, lim, cs, ds) ==
    /\ NLe(NSatAdd(sess.total, Lo(ds)), lim.maxsess)
    /\ NLe(Lo(ds), lim.maxdec)
    /\ (cs > 0 /\ ds > 0) => ds \div cs <= lim.ratio
ValidateOut(sess, lim, cs, ds, method, path) ==
    IF ~NLe(NSatAdd(sess.total, Lo(ds)), lim.maxsess) THEN "err"
    ELSE IF cs = 0 THEN "err"
    ELSE IF ~NLe(Lo(ds), lim.maxdec) THEN "err"
    ELSE IF ds > 0 /\ ds \div cs > lim.ratio THEN "err"
    ELSE IF ~lim.pattern THEN "ok"
    ELSE LET mr == Limit(lim.ratio, lim.adaptive, cs, method) IN
         IF ds > 0 /\ ds \div cs > mr THEN "err"
         ELSE IF cs < 100 /\ ds > 10485760 THEN "err"
         ELSE IF path = "nested" /\ ds > 52428800 THEN "err"
         ELSE IF method > 128 /\ ds > 0 /\ ds \div cs > mr \div 2 THEN "err"
         ELSE "ok"
\* the async reader does not know the compressed size: only the session and per-file limits can refuse
AMonOut(sess, lim, ds) ==
    IF DevAMonZero THEN "err"
    ELSE IF NLe(NSatAdd(sess.total, Lo(ds)), lim.maxsess) /\ NLe(Lo(ds), lim.maxdec) THEN "ok" ELSE "err"

\* ---- monitors --------------------------------------------------------------------------------------
NoMon == [max |-> NZero, bytes |-> NZero, cancel |-> FALSE, expired |-> FALSE, tmo |-> "none", live |-> FALSE]
\* a zero time budget is exhausted from the first check on (the driver lets time pass right after `new`)
MonNew(max, tmo) == [max |-> max, bytes |-> NZero, cancel |-> FALSE, expired |-> (tmo = "zero"), tmo |-> tmo, live |-> TRUE]
MonCheckOut(mon, size) == IF NLt(mon.max, size) \/ mon.expired \/ mon.cancel THEN "err" ELSE "ok"
MonCheckNext(mon, size) == IF MonCheckOut(mon, size) = "ok" THEN [mon EXCEPT !.bytes = size] ELSE mon
MonTickNext(mon) == [mon EXCEPT !.expired = @ \/ (mon.tmo = "zero")]
MonCancelNext(mon) == [mon EXCEPT !.cancel = TRUE]
=============================================================================
