//! Shared utilities of the /verif conformance harness.
//!
//! A property driver (`props/cNN`) reads abstract cases (NDJSON, produced by TLC), concretises
//! them, drives the real warcraft-rs code, and records one NDJSON *event* per specification
//! action. Drivers record observations only; TLC decides (trace validation).
//!
//! Conventions (see /verif/DESIGN.md appendix B):
//!  * every event has `ev` (action name) and `case` (id of the generator case);
//!  * a `Reset` event starts an independent trace;
//!  * results are classified into a closed vocabulary (`ok`, `notfound`, `err:<Variant>`,
//!    `panic`, `hang`, ...);
//!  * byte strings appear as `{len, tok}` where `tok` is a SHA-1 hex digest;
//!  * integers above 2^31-1 are logged as hex strings (TLC ints are 32 bit).

use std::fs::File;
use std::io::{BufRead, BufReader, BufWriter, Write};
use std::panic::{catch_unwind, AssertUnwindSafe};
use std::path::{Path, PathBuf};
use std::sync::mpsc;
use std::sync::Mutex;
use std::time::Duration;

pub use serde_json::{json, Map, Value};

// ------------------------------------------------------------------------------------------
// tokens
// ------------------------------------------------------------------------------------------

/// SHA-1 hex digest of a byte string (an opaque content token for the specification).
pub fn tok(bytes: &[u8]) -> String {
    use sha1::{Digest, Sha1};
    let mut h = Sha1::new();
    h.update(bytes);
    let d = h.finalize();
    let mut s = String::with_capacity(16);
    // 64 bits are plenty for an equality token and keep traces small
    for b in d.iter().take(8) {
        s.push_str(&format!("{:02x}", b));
    }
    s
}

/// Token of the `Debug` rendering of a parsed object (see DESIGN.md 2.4).
pub fn dtok<T: std::fmt::Debug>(v: &T) -> String {
    tok(format!("{:?}", v).as_bytes())
}

pub fn md5_hex(bytes: &[u8]) -> String {
    use md5::{Digest, Md5};
    let mut h = Md5::new();
    h.update(bytes);
    h.finalize().iter().map(|b| format!("{:02x}", b)).collect()
}

pub fn md5_raw(bytes: &[u8]) -> [u8; 16] {
    use md5::{Digest, Md5};
    let mut h = Md5::new();
    h.update(bytes);
    let d = h.finalize();
    let mut o = [0u8; 16];
    o.copy_from_slice(&d);
    o
}

pub fn hex32(v: u32) -> String {
    format!("{:08x}", v)
}
pub fn hex64(v: u64) -> String {
    format!("{:016x}", v)
}

// ------------------------------------------------------------------------------------------
// deterministic RNG (splitmix64 / xorshift) -- no dependency on the rand crate versions of /repo
// ------------------------------------------------------------------------------------------

#[derive(Clone, Debug)]
pub struct Rng(pub u64);

impl Rng {
    pub fn new(seed: u64) -> Self {
        Rng(seed ^ 0x9E37_79B9_7F4A_7C15)
    }
    /// Derive an independent stream from a seed and a label (case id, file index, ...).
    pub fn derive(seed: u64, label: &str) -> Self {
        let mut h = seed ^ 0xcbf2_9ce4_8422_2325;
        for b in label.bytes() {
            h ^= b as u64;
            h = h.wrapping_mul(0x1000_0000_01b3);
        }
        Rng::new(h)
    }
    pub fn next_u64(&mut self) -> u64 {
        self.0 = self.0.wrapping_add(0x9E37_79B9_7F4A_7C15);
        let mut z = self.0;
        z = (z ^ (z >> 30)).wrapping_mul(0xBF58_476D_1CE4_E5B9);
        z = (z ^ (z >> 27)).wrapping_mul(0x94D0_49BB_1331_11EB);
        z ^ (z >> 31)
    }
    pub fn next_u32(&mut self) -> u32 {
        (self.next_u64() >> 32) as u32
    }
    pub fn below(&mut self, n: u64) -> u64 {
        if n == 0 {
            0
        } else {
            self.next_u64() % n
        }
    }
    pub fn range(&mut self, lo: u64, hi_incl: u64) -> u64 {
        lo + self.below(hi_incl - lo + 1)
    }
    pub fn byte(&mut self) -> u8 {
        (self.next_u64() >> 56) as u8
    }
    pub fn fill(&mut self, buf: &mut [u8]) {
        for chunk in buf.chunks_mut(8) {
            let v = self.next_u64().to_le_bytes();
            chunk.copy_from_slice(&v[..chunk.len()]);
        }
    }
    pub fn bytes(&mut self, n: usize) -> Vec<u8> {
        let mut v = vec![0u8; n];
        self.fill(&mut v);
        v
    }
    pub fn pick<'a, T>(&mut self, xs: &'a [T]) -> &'a T {
        &xs[self.below(xs.len() as u64) as usize]
    }
    pub fn chance(&mut self, num: u64, den: u64) -> bool {
        self.below(den) < num
    }
    pub fn f32(&mut self) -> f32 {
        (self.next_u32() >> 8) as f32 / (1u32 << 24) as f32
    }
}

/// Global seed from `VERIF_SEED` (default 1).
pub fn seed() -> u64 {
    std::env::var("VERIF_SEED")
        .ok()
        .and_then(|s| s.trim().parse::<i64>().ok())
        .map(|v| v as u64)
        .unwrap_or(1)
}

// ------------------------------------------------------------------------------------------
// content classes (relative to compressibility); concretised from (class, len, rng)
// ------------------------------------------------------------------------------------------

/// Content classes used across MPQ properties.
///  random  - incompressible
///  run     - a single repeated byte
///  sparse  - zeros with isolated bytes at 0x7F/0x80/0x81 spaced offsets
///  mixed   - first half compressible text, second half random
///  text    - pseudo natural text
///  ramp    - 0,1,2,...,255,0,...
///  period7 - period-7 pattern
///  pcm     - 16-bit little-endian stereo sine waves (ADPCM friendly)
pub fn gen_content(class: &str, len: usize, rng: &mut Rng) -> Vec<u8> {
    let mut v = vec![0u8; len];
    match class {
        "random" => rng.fill(&mut v),
        "run" => {
            let b = 0x41 + (rng.below(20) as u8);
            v.iter_mut().for_each(|x| *x = b);
        }
        "zeros" => {}
        "sparse" => {
            let steps = [0x7Fusize, 0x80, 0x81, 0x100, 3];
            let mut i = rng.below(5) as usize;
            let mut k = 0;
            while i < len {
                v[i] = 1 + rng.below(255) as u8;
                i += steps[k % steps.len()];
                k += 1;
            }
        }
        "mixed" => {
            let half = len / 2;
            let words = ["the ", "quick ", "brown ", "fox ", "jumps ", "over ", "lazy ", "dog "];
            let mut i = 0;
            while i < half {
                let w = rng.pick(&words).as_bytes();
                for &b in w {
                    if i < half {
                        v[i] = b;
                        i += 1;
                    }
                }
            }
            rng.fill(&mut v[half..]);
        }
        "text" => {
            let words = [
                "World", "of", "Warcraft", "Interface\\", "Glue", ".blp", "\r\n", " ", "texture",
                "model", "0", "1", "a", "e",
            ];
            let mut i = 0;
            while i < len {
                let w = rng.pick(&words).as_bytes();
                for &b in w {
                    if i < len {
                        v[i] = b;
                        i += 1;
                    }
                }
            }
        }
        "ramp" => {
            let s = rng.byte();
            for (i, x) in v.iter_mut().enumerate() {
                *x = s.wrapping_add(i as u8);
            }
        }
        "period7" => {
            let p: Vec<u8> = (0..7).map(|_| rng.byte()).collect();
            for (i, x) in v.iter_mut().enumerate() {
                *x = p[i % 7];
            }
        }
        "pcm" => {
            let f1 = 0.01 + rng.f32() as f64 * 0.05;
            let f2 = 0.02 + rng.f32() as f64 * 0.05;
            let mut i = 0;
            let mut n = 0usize;
            while i + 1 < len {
                let f = if n % 2 == 0 { f1 } else { f2 };
                let s = ((n / 2) as f64 * f).sin() * 12000.0;
                let b = (s as i16).to_le_bytes();
                v[i] = b[0];
                v[i + 1] = b[1];
                i += 2;
                n += 1;
            }
        }
        _ => panic!("unknown content class {class}"),
    }
    v
}

// ------------------------------------------------------------------------------------------
// trace writer and case reader
// ------------------------------------------------------------------------------------------

pub struct Trace {
    out: Mutex<BufWriter<File>>,
}

impl Trace {
    pub fn create(path: &Path) -> Self {
        let f = File::create(path).unwrap_or_else(|e| tool_error(&format!("create {path:?}: {e}")));
        Trace { out: Mutex::new(BufWriter::new(f)) }
    }
    /// Append one event. `v` must be a JSON object with `ev` and `case`.
    pub fn ev(&self, v: Value) {
        debug_assert!(v.get("ev").is_some(), "event without ev: {v}");
        let mut o = self.out.lock().unwrap();
        serde_json::to_writer(&mut *o, &v).unwrap();
        o.write_all(b"\n").unwrap();
    }
    /// Append a block of events atomically (used by parallel drivers: one case = one block).
    pub fn block(&self, evs: Vec<Value>) {
        let mut o = self.out.lock().unwrap();
        for v in evs {
            serde_json::to_writer(&mut *o, &v).unwrap();
            o.write_all(b"\n").unwrap();
        }
    }
    pub fn flush(&self) {
        self.out.lock().unwrap().flush().unwrap();
    }
}

impl Drop for Trace {
    fn drop(&mut self) {
        if let Ok(mut o) = self.out.lock() {
            let _ = o.flush();
        }
    }
}

/// Read NDJSON cases (one JSON value per line; empty lines ignored).
pub fn read_cases(path: &Path) -> Vec<Value> {
    let f = File::open(path).unwrap_or_else(|e| tool_error(&format!("open {path:?}: {e}")));
    let mut v = Vec::new();
    for line in BufReader::new(f).lines() {
        let line = line.unwrap();
        let t = line.trim();
        if t.is_empty() {
            continue;
        }
        v.push(serde_json::from_str(t).unwrap_or_else(|e| tool_error(&format!("bad case line {t}: {e}"))));
    }
    v
}

/// Harness failure that is *not* an observation of the code under test: exit status 2.
pub fn tool_error(msg: &str) -> ! {
    eprintln!("TOOL-ERROR: {msg}");
    std::process::exit(2);
}

// ------------------------------------------------------------------------------------------
// running code under test: panic capture, watchdog
// ------------------------------------------------------------------------------------------

#[derive(Debug, Clone)]
pub enum Outcome<T> {
    Done(T),
    Panic(String),
    Hang,
}

static PANIC_MSG: Mutex<Option<String>> = Mutex::new(None);

/// Install a panic hook that records `file: message` (digits normalised) instead of printing.
pub fn install_quiet_panic_hook() {
    std::panic::set_hook(Box::new(|info| {
        let loc = info
            .location()
            .map(|l| {
                let f = l.file();
                // keep path relative to the repository so keys survive relocation
                let f = f.rsplit_once("/src/").map(|(a, b)| {
                    let krate = a.rsplit('/').next().unwrap_or("");
                    format!("{krate}/src/{b}")
                }).unwrap_or_else(|| f.to_string());
                f
            })
            .unwrap_or_default();
        let msg = if let Some(s) = info.payload().downcast_ref::<&str>() {
            s.to_string()
        } else if let Some(s) = info.payload().downcast_ref::<String>() {
            s.clone()
        } else {
            "?".to_string()
        };
        let norm = normalise_digits(&msg);
        if let Ok(mut g) = PANIC_MSG.lock() {
            *g = Some(format!("{loc}: {norm}"));
        }
    }));
}

/// Replace every maximal digit run by `#` so that keys survive differing sizes / line shifts.
pub fn normalise_digits(s: &str) -> String {
    let mut o = String::with_capacity(s.len());
    let mut in_d = false;
    for c in s.chars() {
        if c.is_ascii_digit() {
            if !in_d {
                o.push('#');
                in_d = true;
            }
        } else {
            in_d = false;
            o.push(c);
        }
    }
    if o.len() > 160 {
        o.truncate(160);
    }
    o
}

/// Run `f`, turning a panic into `Outcome::Panic(normalised message)`.
pub fn guarded<T>(f: impl FnOnce() -> T) -> Outcome<T> {
    match catch_unwind(AssertUnwindSafe(f)) {
        Ok(v) => Outcome::Done(v),
        Err(_) => {
            let m = PANIC_MSG.lock().ok().and_then(|mut g| g.take()).unwrap_or_else(|| "?".into());
            Outcome::Panic(m)
        }
    }
}

/// Run `f` on a helper thread with a watchdog. A call that does not return within `limit` is
/// reported as `Hang` (the thread is leaked; callers should stop using shared state afterwards).
pub fn with_watchdog<T: Send + 'static>(
    limit: Duration,
    f: impl FnOnce() -> T + Send + 'static,
) -> Outcome<T> {
    let (tx, rx) = mpsc::channel();
    let h = std::thread::Builder::new()
        .stack_size(16 << 20)
        .spawn(move || {
            let r = guarded(f);
            let _ = tx.send(r);
        })
        .expect("spawn");
    match rx.recv_timeout(limit) {
        Ok(r) => {
            let _ = h.join();
            r
        }
        Err(_) => Outcome::Hang,
    }
}

/// Classify a `Result` whose error type implements Debug: `ok` or `err:<Variant>`.
pub fn res_class<T, E: std::fmt::Debug>(r: &Result<T, E>) -> String {
    match r {
        Ok(_) => "ok".into(),
        Err(e) => format!("err:{}", variant_name(e)),
    }
}

/// First identifier of a Debug rendering: `FileNotFound("x")` -> `FileNotFound`.
pub fn variant_name<E: std::fmt::Debug>(e: &E) -> String {
    let s = format!("{:?}", e);
    s.chars().take_while(|c| c.is_alphanumeric() || *c == '_').collect()
}

// ------------------------------------------------------------------------------------------
// scratch directories
// ------------------------------------------------------------------------------------------

/// A scratch directory under $VERIF_SCRATCH (set by vcheck) or $TMPDIR or /var/tmp; removed on drop.
pub struct Scratch {
    pub path: PathBuf,
    keep: bool,
}

impl Scratch {
    pub fn new(label: &str) -> Self {
        let base = std::env::var("VERIF_SCRATCH")
            .or_else(|_| std::env::var("TMPDIR"))
            .unwrap_or_else(|_| "/var/tmp".into());
        let p = PathBuf::from(base).join(format!(
            "wverif.{}.{}.{}",
            label,
            std::process::id(),
            std::time::SystemTime::now().duration_since(std::time::UNIX_EPOCH).unwrap().subsec_nanos()
        ));
        std::fs::create_dir_all(&p).unwrap_or_else(|e| tool_error(&format!("mkdir {p:?}: {e}")));
        Scratch { path: p, keep: std::env::var("VERIF_KEEP").is_ok() }
    }
    pub fn file(&self, name: &str) -> PathBuf {
        self.path.join(name)
    }
}

impl Drop for Scratch {
    fn drop(&mut self) {
        if !self.keep {
            let _ = std::fs::remove_dir_all(&self.path);
        }
    }
}

// ------------------------------------------------------------------------------------------
// command line: every driver is invoked as  <bin> <cases.ndjson> <trace.ndjson> [extra...]
// ------------------------------------------------------------------------------------------

pub struct Args {
    pub cases: PathBuf,
    pub trace: PathBuf,
    pub extra: Vec<String>,
}

pub fn args() -> Args {
    let a: Vec<String> = std::env::args().collect();
    if a.len() < 3 {
        tool_error(&format!("usage: {} <cases.ndjson> <trace.ndjson> [extra...]", a[0]));
    }
    Args { cases: PathBuf::from(&a[1]), trace: PathBuf::from(&a[2]), extra: a[3..].to_vec() }
}

/// Tier from `VERIF_TIER` (quick | thorough).
pub fn thorough() -> bool {
    std::env::var("VERIF_TIER").map(|t| t == "thorough").unwrap_or(false)
}

/// Run `f(i)` for `i in 0..n` on `threads` OS threads (cases are independent; each case writes its
/// events as one block).
pub fn par_for(n: usize, threads: usize, f: impl Fn(usize) + Sync) {
    let next = std::sync::atomic::AtomicUsize::new(0);
    std::thread::scope(|s| {
        for _ in 0..threads.max(1) {
            s.spawn(|| loop {
                let i = next.fetch_add(1, std::sync::atomic::Ordering::SeqCst);
                if i >= n {
                    break;
                }
                f(i);
            });
        }
    });
}

pub fn ncpu() -> usize {
    std::thread::available_parallelism().map(|n| n.get()).unwrap_or(4)
}

// JSON access helpers ---------------------------------------------------------------------

pub fn gs<'a>(v: &'a Value, k: &str) -> &'a str {
    v.get(k).and_then(|x| x.as_str()).unwrap_or_else(|| tool_error(&format!("case field {k} (string) missing in {v}")))
}
pub fn gi(v: &Value, k: &str) -> i64 {
    v.get(k).and_then(|x| x.as_i64()).unwrap_or_else(|| tool_error(&format!("case field {k} (int) missing in {v}")))
}
pub fn gb(v: &Value, k: &str) -> bool {
    match v.get(k) {
        Some(Value::Bool(b)) => *b,
        Some(Value::Number(n)) => n.as_i64() == Some(1),
        _ => tool_error(&format!("case field {k} (bool) missing in {v}")),
    }
}
pub fn ga<'a>(v: &'a Value, k: &str) -> &'a Vec<Value> {
    v.get(k).and_then(|x| x.as_array()).unwrap_or_else(|| tool_error(&format!("case field {k} (array) missing in {v}")))
}
