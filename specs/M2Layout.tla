----------------------------- MODULE M2Layout -----------------------------
(* C13 -- the writers of wow-m2 (M2Model::write, SkinG::write, AnimFile::write) as ONE running-offset  *)
(* state machine, parametrised by the file format `mfmt`:                                              *)
(*     "m2"        MD20 model, versions Vanilla/TBC/WotLK/Cataclysm/MoP                                *)
(*     "skin_old"  SKIN file, old header (magic, 5 arrays, boneCountMax)                               *)
(*     "skin_new"  SKIN file, the crate's "new" header (magic, version, name, vertexCount, 5 arrays)   *)
(*     "anim"      MAOF animation file (header, entry table, one variable-size section per entry)      *)
(*                                                                                                     *)
(* A file is a header of fixed, version dependent size that holds one (count, offset) pair per         *)
(* section, followed by the sections in the writer's order.  Sections with key-frame tracks are        *)
(* followed by their relocated key-frame blobs; textures by their file names; views (embedded skins,   *)
(* version <= 263) by the five sub-arrays of every view.                                               *)
(*                                                                                                     *)
(* Three size functions are defined independently and related by TLC:                                  *)
(*   RecBytes(f,s,vn)   bytes one record occupies = sum of its fields (docs/src/formats/graphics/      *)
(*                      m2.md: M2Array 8, M2Track, M2Bone, M2Vertex, M2Texture, M2Material; the        *)
(*                      crate's doc comments for the structures the docs do not lay out)               *)
(*   CursorStep(f,s,vn) what the writer adds to its running offset per record: the literal constants   *)
(*                      of the property text (animation 32|52 at version <= 256 | above; bone          *)
(*                      108|112|88 at < 260 | < 264 | >= 264; track 28|20; vertex 48; texture 16 ...)  *)
(*   the reader's element size = RecBytes (it parses field by field).                                  *)
(* The machine keeps the tracked cursor `mcur` (current_offset in model.rs) apart from the number of   *)
(* bytes really emitted `memit` (header size + data_section.len()); the invariant CursorIsEmitted      *)
(* says they never separate -- for every subset of populated sections and every version.               *)
EXTENDS Integers, Sequences, FiniteSets, SequencesExt, TLC

Versions == <<"Vanilla", "TBC", "WotLK", "Cataclysm", "MoP">>
VerSet   == {Versions[j] : j \in 1..Len(Versions)}
VerNum(ver) == CASE ver = "Vanilla" -> 256 [] ver = "TBC" -> 260 [] ver = "WotLK" -> 264
                 [] ver = "Cataclysm" -> 272 [] ver = "MoP" -> 272
Formats == {"m2", "skin_old", "skin_new", "anim"}

Sum(seq) == FoldLeft(LAMBDA acc, e : acc + e, 0, seq)

\* ---------------------------------------------------------------------------------------------
\* record sizes as sums of fields
\* ---------------------------------------------------------------------------------------------
ArrB == 8                                                       \* M2Array: count u32, offset u32
TrackBytes(vn) == 2 + 2 + (IF vn < 264 THEN ArrB ELSE 0) + ArrB + ArrB          \* M2Track 28 | 20
ABlockBytes    == 2 + 2 + ArrB + ArrB + ArrB                    \* M2AnimationBlock of the crate: 28
BoneBytes(vn)  == 4 + 4 + 2 + 2 + (IF vn >= 260 THEN 4 ELSE 0) + 3 * TrackBytes(vn) + 12
AnimRecBytes(vn) == IF vn <= 256 THEN 2 + 2 + 4 + 4 + 4 + 4 + 2 + 2 + 8           \* 32
                                 ELSE 2 + 2 + 4 + 4 + 4 + 2 + 2 + 12 + 12 + 4 + 2 + 2   \* 52
VertexBytes    == 12 + 4 + 4 + 12 + 8 + 8
TextureBytes   == 4 + 4 + ArrB
MaterialBytes  == 2 + 2
EventBytes     == 4 + 4 + 2 + 2 + 12 + 2 + 2 + ArrB + ArrB
AttachBytes    == 4 + 4 + 12 + ABlockBytes
CameraBytes(vn) == 4 + 4 + 4 + 4 + ABlockBytes + 12 + ABlockBytes + 12 + ABlockBytes + (IF vn >= 264 THEN 8 ELSE 0)
LightBytes     == 1 + 2 + 1 + 12 + 5 * ABlockBytes + 4 + 2 + 2
RibbonBytes(vn) == 4 + 12 + ArrB + ArrB + 4 * ABlockBytes + 12 + 2 + 2 + (IF vn >= 272 THEN 4 ELSE 0) + 4 + 4
TexAnimBytes   == 2 + 2 + 5 * ABlockBytes
ColorAnimBytes == 2 * ABlockBytes
TranspAnimBytes == ABlockBytes
ParticleBytes(vn) == 4 + 4 + 12 + 2 + 2 + ArrB + 2 + 2 + 4 + ArrB + 45 * 4 + 12 + 4 * 4 + 4 + 4 + 10 * ABlockBytes
ViewBytes      == 5 * ArrB + 4
SubmeshBytes   == 10 * 2 + 12 + 12 + 4                           \* 48 (id, level, 8 x u16 incl. padding, 7 floats)
BatchBytes     == 1 + 1 + 11 * 2                                 \* 24

\* ---------------------------------------------------------------------------------------------
\* sections, in the order the writers emit them
\* ---------------------------------------------------------------------------------------------
M2Order == << "name", "global_sequences", "animations", "animation_lookup", "bones", "key_bone_lookup",
              "vertices", "textures", "materials", "bone_lookup_table", "texture_lookup_table",
              "texture_units", "transparency_lookup_table", "texture_animation_lookup",
              "bounding_triangles", "bounding_vertices", "bounding_normals", "attachment_lookup_table",
              "camera_lookup_table", "views", "particle_emitters", "ribbon_emitters",
              "texture_animations", "color_animations", "transparency_animations", "events",
              "attachments", "cameras", "lights" >>
SkinOrder == << "indices", "triangles", "bone_indices", "submeshes", "batches" >>
AnimOrder == << "sec1", "sec2", "sec3" >>
SecOrder(fmt) == CASE fmt = "m2" -> M2Order [] fmt = "anim" -> AnimOrder [] OTHER -> SkinOrder
SecSetTab == [fmt \in {"m2", "skin_old", "skin_new", "anim"} |-> {SecOrder(fmt)[j] : j \in 1..Len(SecOrder(fmt))}]
SecSet(fmt)   == SecSetTab[fmt]
AllSecs == SecSet("m2") \cup SecSet("skin_old") \cup SecSet("anim")

\* sections whose records carry key-frame tracks (relocated blobs follow the records)
Tracked == {"bones", "particle_emitters", "ribbon_emitters", "texture_animations", "color_animations",
            "transparency_animations", "events", "attachments", "cameras", "lights"}
\* number of tracks per record and bytes per key-frame value of the first track (abstract blob size)
TracksOf(sec) == CASE sec = "bones" -> 3 [] sec = "particle_emitters" -> 10 [] sec = "ribbon_emitters" -> 4
                   [] sec = "texture_animations" -> 5 [] sec = "color_animations" -> 2
                   [] sec = "transparency_animations" -> 1 [] sec = "events" -> 1 [] sec = "attachments" -> 1
                   [] sec = "cameras" -> 3 [] sec = "lights" -> 5 [] OTHER -> 0

VNums == {256, 260, 264, 272}
RecBytesRaw(fmt, sec, vn) ==
  IF fmt = "anim" THEN 1 ELSE
  IF fmt # "m2" THEN (CASE sec = "indices" -> 2 [] sec = "triangles" -> 2 [] sec = "bone_indices" -> 4
                        [] sec = "submeshes" -> SubmeshBytes [] sec = "batches" -> BatchBytes [] OTHER -> 1) ELSE
  CASE sec = "name" -> 1
    [] sec = "global_sequences" -> 4
    [] sec = "animations" -> AnimRecBytes(vn)
    [] sec = "bones" -> BoneBytes(vn)
    [] sec = "vertices" -> VertexBytes
    [] sec = "textures" -> TextureBytes
    [] sec = "materials" -> MaterialBytes
    [] sec \in {"bounding_vertices", "bounding_normals"} -> 12
    [] sec = "views" -> ViewBytes
    [] sec = "particle_emitters" -> ParticleBytes(vn)
    [] sec = "ribbon_emitters" -> RibbonBytes(vn)
    [] sec = "texture_animations" -> TexAnimBytes
    [] sec = "color_animations" -> ColorAnimBytes
    [] sec = "transparency_animations" -> TranspAnimBytes
    [] sec = "events" -> EventBytes
    [] sec = "attachments" -> AttachBytes
    [] sec = "cameras" -> CameraBytes(vn)
    [] sec = "lights" -> LightBytes
    [] OTHER -> 2                                                \* every lookup table: u16
\* zero-arity tables: TLC evaluates them once (operators with parameters are re-evaluated per state)
RecBytesTab == [fmt \in Formats |-> [sec \in AllSecs |-> [vn \in VNums |-> RecBytesRaw(fmt, sec, vn)]]]
RecBytes(fmt, sec, vn) == RecBytesTab[fmt][sec][vn]

\* What the writer adds to its cursor per record: the literal constants and thresholds of the code /
\* of the property text.  `SubmeshStep` is a constant of the instance so that the as-coded value of
\* skin.rs (40) can be model-checked as a named deviation (MC_M2Layout_dev.cfg).
CONSTANT SubmeshStep,
         AnimBoneRule,     \* "table": MAOF bone count = entries of the offset table up to the first bone's data (as fixed, aa82f05)
                           \* "size" : (section size - 16) / 4, the pre-fix rule (named deviation, must be refuted)
         RelocAdvanceAlways, \* FALSE as coded: an array whose original offset is already mapped (shared key-frame data) keeps
                           \* its offset and does NOT advance the running offset; TRUE = named deviation (must be refuted)
         CollectSkipRule,  \* which structures the reader may skip when it preserves key-frame arrays: "all-empty" = only a structure
                           \* whose arrays are ALL empty (what the property demands); "no-keys" = also one with ranges but neither
                           \* timestamps nor values (as coded for tracks: named deviation); "no-times" = one without timestamps (seeded s10)
         SaveTruncates,    \* TRUE as coded: save(path) creates/truncates the destination (File::create); FALSE = named deviation
                           \* (opened for writing without truncation: the tail of a longer existing file survives)
         ViewBatchBytes    \* bytes per batch the WRITER of embedded views divides by: 24 as fixed (1115b56); 96 = pre-fix deviation
CursorStepRaw(fmt, sec, vn) ==
  IF fmt = "m2" /\ sec = "animations" THEN (IF vn <= 256 THEN 32 ELSE 52) ELSE
  IF fmt = "m2" /\ sec = "bones" THEN (IF vn < 260 THEN 108 ELSE IF vn < 264 THEN 112 ELSE 88) ELSE
  IF fmt = "m2" /\ sec = "vertices" THEN 48 ELSE
  IF fmt = "m2" /\ sec = "textures" THEN 16 ELSE
  IF fmt = "m2" /\ sec = "materials" THEN 4 ELSE
  IF fmt = "m2" /\ sec = "views" THEN 44 ELSE
  IF fmt \in {"skin_old", "skin_new"} /\ sec = "submeshes" THEN SubmeshStep ELSE
  RecBytesRaw(fmt, sec, vn)                  \* all others: the writer measures what it serialised
CursorStepTab == [fmt \in Formats |-> [sec \in AllSecs |-> [vn \in VNums |-> CursorStepRaw(fmt, sec, vn)]]]
CursorStep(fmt, sec, vn) == CursorStepTab[fmt][sec][vn]

\* ---------------------------------------------------------------------------------------------
\* headers: field order, presence by version, position of every (count, offset) pair
\* ---------------------------------------------------------------------------------------------
M2HdrFields(vn) ==
  << <<"magic", 4>>, <<"version", 4>>, <<"name", ArrB>>, <<"flags", 4>>, <<"global_sequences", ArrB>>,
     <<"animations", ArrB>>, <<"animation_lookup", ArrB>> >>
  \o (IF vn <= 263 THEN << <<"playable_animation_lookup", ArrB>> >> ELSE << >>)
  \o << <<"bones", ArrB>>, <<"key_bone_lookup", ArrB>>, <<"vertices", ArrB>>,
        <<"views", IF vn <= 263 THEN ArrB ELSE 4>>, <<"color_animations", ArrB>>, <<"textures", ArrB>>,
        <<"transparency_animations", ArrB>> >>
  \o (IF vn <= 263 THEN << <<"texture_flipbooks", ArrB>> >> ELSE << >>)
  \o << <<"texture_animations", ArrB>>, <<"color_replacements", ArrB>>, <<"materials", ArrB>>,
        <<"bone_lookup_table", ArrB>>, <<"texture_lookup_table", ArrB>>, <<"texture_units", ArrB>>,
        <<"transparency_lookup_table", ArrB>>, <<"texture_animation_lookup", ArrB>>,
        <<"bounding_box", 28>>, <<"collision_box", 28>>,
        <<"bounding_triangles", ArrB>>, <<"bounding_vertices", ArrB>>, <<"bounding_normals", ArrB>>,
        <<"attachments", ArrB>>, <<"attachment_lookup_table", ArrB>>, <<"events", ArrB>>, <<"lights", ArrB>>,
        <<"cameras", ArrB>>, <<"camera_lookup_table", ArrB>>, <<"ribbon_emitters", ArrB>>,
        <<"particle_emitters", ArrB>> >>
SkinOldHdr == << <<"magic", 4>>, <<"indices", ArrB>>, <<"triangles", ArrB>>, <<"bone_indices", ArrB>>,
                 <<"submeshes", ArrB>>, <<"batches", ArrB>>, <<"bone_count_max", 4>> >>
SkinNewHdr == << <<"magic", 4>>, <<"version", 4>>, <<"name", ArrB>>, <<"vertex_count", 4>>, <<"indices", ArrB>>,
                 <<"triangles", ArrB>>, <<"bone_indices", ArrB>>, <<"submeshes", ArrB>>, <<"batches", ArrB>> >>
\* MAOF: 20-byte header, then one 12-byte entry (id, offset, size) per section; the "pair" of section i is
\* the (offset, size) part of its entry
AnimHdr == << <<"magic", 4>>, <<"version", 4>>, <<"id_count", 4>>, <<"unknown", 4>>, <<"entry_offset", 4>>,
              <<"id1", 4>>, <<"sec1", ArrB>>, <<"id2", 4>>, <<"sec2", ArrB>>, <<"id3", 4>>, <<"sec3", ArrB>> >>
HdrFields(fmt, vn) == CASE fmt = "m2" -> M2HdrFields(vn) [] fmt = "skin_old" -> SkinOldHdr
                        [] fmt = "skin_new" -> SkinNewHdr [] fmt = "anim" -> AnimHdr
HeaderSizeRaw(fmt, vn) == LET hf == HdrFields(fmt, vn) IN Sum([j \in 1..Len(hf) |-> hf[j][2]])
HeaderSizeTab == [fmt \in Formats |-> [vn \in VNums |-> HeaderSizeRaw(fmt, vn)]]
HeaderSize(fmt, vn) == HeaderSizeTab[fmt][vn]
HdrPos(fmt, vn, sec) ==
  LET hf == HdrFields(fmt, vn)
      idx == CHOOSE j \in 1..Len(hf) : hf[j][1] = sec
  IN  Sum([j \in 1..(idx - 1) |-> hf[j][2]])
HasPair(fmt, vn, sec) == /\ \E j \in 1..Len(HdrFields(fmt, vn)) : HdrFields(fmt, vn)[j][1] = sec
                         /\ ~(fmt = "m2" /\ sec = "views" /\ vn > 263)

\* documented header sizes (bytes) -- checked against the field sums by ASSUME below
DocHeaderSize(vn) == IF vn <= 263 THEN 324 ELSE 304

\* sections a version can hold at all (embedded skins exist only up to TBC)
WritableTab == [fmt \in Formats |-> [vn \in VNums |-> IF fmt = "m2" THEN {sec \in SecSet("m2") : sec # "views" \/ vn <= 263} ELSE SecSet(fmt)]]
Writable(fmt, vn) == WritableTab[fmt][vn]
\* sections whose content both versions can represent (conservative: everything except the embedded
\* skin profiles, which moved to .skin files in WotLK)
Representable(va, vb) == Writable("m2", VerNum(va)) \cap Writable("m2", VerNum(vb))
\* M2Converter::convert is the multi-step public path (what the CLI uses): adjacent versions convert directly, all others
\* through every intermediate version in order -- upgrade (from, to] ascending, downgrade [to, from) descending.  The
\* composition of the single steps must end in the requested version, for every pair.
VerIdx(ver) == CHOOSE j \in 1..Len(Versions) : Versions[j] = ver
ConvPath(va, vb) == LET ia == VerIdx(va)  ib == VerIdx(vb) IN
                    IF ib >= ia THEN [j \in 1..(ib - ia) |-> Versions[ia + j]]
                                ELSE [j \in 1..(ia - ib) |-> Versions[ia - j]]
FinalVersion(va, vb) == IF ConvPath(va, vb) = << >> THEN va ELSE ConvPath(va, vb)[Len(ConvPath(va, vb))]
PathsReachTarget == \A va, vb \in VerSet :
                      /\ FinalVersion(va, vb) = vb
                      /\ \A j \in 1..Len(ConvPath(va, vb)) :          \* every step is a single-step (adjacent) conversion
                            LET prev == IF j = 1 THEN va ELSE ConvPath(va, vb)[j - 1]
                            IN  VerIdx(ConvPath(va, vb)[j]) - VerIdx(prev) \in {-1, 1}
\* sections with version-gated fields: compared across versions on their common fields only
VersionGated == {"header", "animations", "bones", "cameras", "ribbon_emitters", "particle_emitters", "bone_keyframes"}

\* ---------------------------------------------------------------------------------------------
\* the state machine
\* ---------------------------------------------------------------------------------------------
VARIABLES mfmt,     \* format
          mver,     \* version being written
          mshape,   \* section -> number of records of the object being written
          mtail,    \* section -> bytes of variable-size payload that follows the records (key-frame blobs,
                    \*            texture file names, sub-arrays of embedded views); 0 if none
          mpc,      \* "start" | "sec" | "tail" | "written" | "parsed"
          msec,     \* index into SecOrder of the next section
          mcur,     \* the writer's running offset
          memit,    \* bytes really emitted so far
          mhdr,     \* section -> <<count, offset>> as stored in the header
          mtrk,     \* section -> offset stored in the relocated tracks / sub-array references (0 = none)
          mfile,    \* the file as a sequence of segments [own, start, len]
          mparsed,  \* section -> <<records found, tail found>> by the reader
          mgen,     \* 0 first write, 1 rewrite of the parsed object, 2 write after Convert
          mfirst    \* [shape, tail, ver, hdr, file] of the first write (reference for rewrite / conversion)
mvars == <<mfmt, mver, mshape, mtail, mpc, msec, mcur, memit, mhdr, mtrk, mfile, mparsed, mgen, mfirst>>

vnum == VerNum(mver)
ZeroFn == [sec \in AllSecs |-> 0]
NoHdr  == [sec \in AllSecs |-> <<0, 0>>]
NoParse == [sec \in AllSecs |-> <<0, 0>>]

StartWrite(fmt, ver, shape, tails, gen, first) ==
  /\ mfmt' = fmt /\ mver' = ver /\ mshape' = shape /\ mtail' = tails /\ mgen' = gen /\ mfirst' = first
  /\ mpc' = "start" /\ msec' = 1 /\ mcur' = 0 /\ memit' = 0
  /\ mhdr' = NoHdr /\ mtrk' = ZeroFn /\ mfile' = << >> /\ mparsed' = NoParse

\* the header is reserved first (written last in the code, but its size is fixed up front)
WriteHeader ==
  /\ mpc = "start"
  /\ mpc' = "sec"
  /\ mcur' = HeaderSize(mfmt, vnum) /\ memit' = HeaderSize(mfmt, vnum)
  /\ mfile' = << [own |-> "header", start |-> 0, len |-> HeaderSize(mfmt, vnum)] >>
  /\ UNCHANGED <<mfmt, mver, mshape, mtail, msec, mhdr, mtrk, mparsed, mgen, mfirst>>

CurSec == SecOrder(mfmt)[msec]
SecDone == msec > Len(SecOrder(mfmt))

\* number of records the writer will emit for a section in the current version
CntOf(sec) == IF sec \in Writable(mfmt, vnum) THEN mshape[sec] ELSE 0

\* empty sections: nothing is emitted, the pair is (0,0), the cursor does not move.  A maximal run of
\* consecutive empty sections is one step (keeps the exhaustive model small; each populated section below
\* is a step of its own).
WriteEmptyRun ==
  /\ mpc = "sec" /\ ~SecDone /\ CntOf(CurSec) = 0
  /\ LET order == SecOrder(mfmt)
         popd == {j \in msec..Len(order) : CntOf(order[j]) > 0}          \* populated sections still to come
         stop == IF popd = {} THEN Len(order) ELSE (CHOOSE j \in popd : \A q \in popd : j <= q) - 1
     IN  /\ msec' = stop + 1
         /\ mhdr' = [sec \in AllSecs |-> IF \E q \in msec..stop : order[q] = sec THEN <<0, 0>> ELSE mhdr[sec]]
  /\ UNCHANGED <<mfmt, mver, mshape, mtail, mpc, mcur, memit, mtrk, mfile, mparsed, mgen, mfirst>>

\* one action per populated section: the pair becomes (count, cursor), the records are appended and the
\* cursor advances by count * CursorStep
WriteSection(sec) ==
  /\ mpc = "sec" /\ ~SecDone /\ sec = CurSec /\ CntOf(sec) > 0
  /\ LET cnt == CntOf(sec)
         emitted == cnt * RecBytes(mfmt, sec, vnum)
     IN  /\ mhdr' = [mhdr EXCEPT ![sec] = <<cnt, mcur>>]
         /\ mfile' = Append(mfile, [own |-> sec, start |-> memit, len |-> emitted])
         /\ memit' = memit + emitted
         /\ mcur' = mcur + cnt * CursorStep(mfmt, sec, vnum)
         /\ IF mtail[sec] > 0 THEN mpc' = "tail" /\ msec' = msec
                              ELSE mpc' = "sec" /\ msec' = msec + 1
  /\ UNCHANGED <<mfmt, mver, mshape, mtail, mtrk, mparsed, mgen, mfirst>>

\* relocation of key-frame blobs (bones, emitters, animations, events, attachments, cameras, lights), of the
\* texture file names and of the sub-arrays of embedded views: the payload is appended behind the records,
\* the references inside the records are rewritten to the new position (anim_data_start = cursor after the
\* records), and the cursor moves behind the payload
RelocateTail(sec) ==
  /\ mpc = "tail" /\ sec = CurSec
  /\ mtrk' = [mtrk EXCEPT ![sec] = mcur]
  /\ mfile' = Append(mfile, [own |-> sec \o "+", start |-> memit, len |-> mtail[sec]])
  /\ memit' = memit + mtail[sec]
  /\ mcur' = mcur + mtail[sec]
  /\ mpc' = "sec" /\ msec' = msec + 1
  /\ UNCHANGED <<mfmt, mver, mshape, mtail, mhdr, mparsed, mgen, mfirst>>

Finish ==
  /\ mpc = "sec" /\ SecDone
  /\ mpc' = "written"
  /\ UNCHANGED <<mfmt, mver, mshape, mtail, msec, mcur, memit, mhdr, mtrk, mfile, mparsed, mgen, mfirst>>

\* the reader: for every pair (count, offset) it reads count records of RecBytes at offset; it finds the
\* section's content iff exactly the section's own segment lies there; likewise for the payload referenced
\* from inside the records
SegAt(own, start, len) == \E j \in 1..Len(mfile) : mfile[j] = [own |-> own, start |-> start, len |-> len]
ReadBack(sec) ==
  LET cnt == mhdr[sec][1]  off == mhdr[sec][2]
      recs == IF cnt = 0 THEN 0
              ELSE IF SegAt(sec, off, cnt * RecBytes(mfmt, sec, vnum)) THEN cnt ELSE -1
      tailb == IF mtrk[sec] = 0 \/ recs <= 0 THEN 0
               ELSE IF SegAt(sec \o "+", mtrk[sec], mtail[sec]) THEN mtail[sec] ELSE -1
  IN  <<recs, tailb>>
Parse ==
  /\ mpc = "written"
  /\ mpc' = "parsed"
  /\ mparsed' = [sec \in AllSecs |-> IF sec \in SecSet(mfmt) THEN ReadBack(sec) ELSE <<0, 0>>]
  /\ UNCHANGED <<mfmt, mver, mshape, mtail, msec, mcur, memit, mhdr, mtrk, mfile, mgen, mfirst>>

Snapshot == [shape |-> mshape, tails |-> mtail, ver |-> mver, hdr |-> mhdr, file |-> mfile, trk |-> mtrk]
ParsedShape == [sec \in AllSecs |-> IF mparsed[sec][1] > 0 THEN mparsed[sec][1] ELSE 0]
ParsedTail  == [sec \in AllSecs |-> IF mparsed[sec][2] > 0 THEN mparsed[sec][2] ELSE 0]

\* write(parse(write(x)))
Rewrite ==
  /\ mpc = "parsed" /\ mgen = 0
  /\ StartWrite(mfmt, mver, ParsedShape, ParsedTail, 1, Snapshot)

\* convert(parse(write(x)), v2) followed by a write in v2: sections the target cannot hold are dropped, all
\* others keep their content; record sizes change with the version
Convert(v2) ==
  /\ mpc = "parsed" /\ mgen = 0 /\ mfmt = "m2"
  /\ LET rep == Representable(mver, v2)  pshape == ParsedShape  ptail == ParsedTail
     IN  StartWrite("m2", v2, [sec \in AllSecs |-> IF sec \in rep THEN pshape[sec] ELSE 0],
                    [sec \in AllSecs |-> IF sec \in rep THEN ptail[sec] ELSE 0], 2, Snapshot)

Step == \/ WriteHeader \/ WriteEmptyRun
        \/ \E sec \in AllSecs : WriteSection(sec)
        \/ \E sec \in AllSecs : RelocateTail(sec)
        \/ Finish \/ Parse \/ Rewrite
        \/ \E v2 \in VerSet : Convert(v2)

\* ---------------------------------------------------------------------------------------------
\* invariants
\* ---------------------------------------------------------------------------------------------
\* the tracked offset is the number of bytes emitted -- after every WriteSection / RelocateTail
CursorIsEmitted == mpc \in {"sec", "tail", "written", "parsed"} => mcur = memit

\* segments tile the file: each starts where the previous ended, hence inside the file and pairwise disjoint
SegmentsTile == \A j \in 1..Len(mfile) :
                  /\ mfile[j].start = (IF j = 1 THEN 0 ELSE mfile[j - 1].start + mfile[j - 1].len)
                  /\ mfile[j].start + mfile[j].len <= memit

\* the regions the header announces (count * reader's element size at offset) are inside the file, behind the
\* header, pairwise disjoint, and are exactly what was emitted for that section
Region(sec) == [lo |-> mhdr[sec][2], hi |-> mhdr[sec][2] + mhdr[sec][1] * RecBytes(mfmt, sec, vnum)]
Announced == {sec \in SecSet(mfmt) : mhdr[sec][1] > 0}
RegionsInsideFile == \A sec \in Announced : Region(sec).lo >= HeaderSize(mfmt, vnum) /\ Region(sec).hi <= memit
RegionsDisjoint == \A s1, s2 \in Announced : s1 # s2 => (Region(s1).hi <= Region(s2).lo \/ Region(s2).hi <= Region(s1).lo)
HeaderMatchesEmitted == \A sec \in Announced : SegAt(sec, Region(sec).lo, Region(sec).hi - Region(sec).lo)

\* parse(write(x)) = x on counts and payloads, for every section the version can hold
RoundTrip == mpc = "parsed" =>
   \A sec \in SecSet(mfmt) : IF sec \in Writable(mfmt, vnum)
                             THEN mparsed[sec] = <<mshape[sec], IF mshape[sec] > 0 THEN mtail[sec] ELSE 0>>
                             ELSE mparsed[sec] = <<0, 0>>

\* write(parse(write(x))) = write(x): same header pairs, same segments
RewriteStable == (mgen = 1 /\ mpc \in {"written", "parsed"}) => (mhdr = mfirst.hdr /\ mfile = mfirst.file /\ mtrk = mfirst.trk)

\* convert(v,v) changes nothing; convert(a,b) keeps the representable sections
ConvertSame == (mgen = 2 /\ mpc \in {"written", "parsed"} /\ mver = mfirst.ver) => (mhdr = mfirst.hdr /\ mfile = mfirst.file)
ConvertKeeps == (mgen = 2 /\ mpc = "parsed") =>
   \A sec \in Representable(mfirst.ver, mver) :
       mparsed[sec] = <<mfirst.shape[sec], IF mfirst.shape[sec] > 0 THEN mfirst.tails[sec] ELSE 0>>

\* reader and writer agree on derived counts (both were genuine defects of the crate; the old rules stay as deviations):
\*  - MAOF section = 16-byte header + 4 bytes per bone + key-frame data; the bone count is not stored
\*  - embedded view: the reader takes 24 bytes per batch, the writer derives the batch count from the preserved bytes
AnimReaderBones(nbones, databytes) == IF AnimBoneRule = "size" THEN (16 + 4 * nbones + databytes - 16) \div 4 ELSE nbones
ReaderWriterAgree ==
  /\ \A nbones \in 0..3, databytes \in {0, 28, 76} : AnimReaderBones(nbones, databytes) = nbones
  /\ \A nbatch \in 0..5 : (nbatch * BatchBytes) \div ViewBatchBytes = nbatch

\* The relocation map of a key-frame section: arrays arrive as <<original offset, length>> in the order the writer visits
\* them; the map is a function original offset -> new offset; shared arrays (same original offset: several tracks alias one
\* array) are mapped and emitted once.  RelocFold returns [map, cur, emitted] for arrays visited from `start`.
RelocFold(arrs, start) ==
  FoldLeft(LAMBDA st, a :
             IF a[1] \in DOMAIN st.map
             THEN [st EXCEPT !.cur = IF RelocAdvanceAlways THEN st.cur + a[2] ELSE st.cur]
             ELSE [map |-> [o \in DOMAIN st.map \cup {a[1]} |-> IF o = a[1] THEN st.cur ELSE st.map[o]],
                   cur |-> st.cur + a[2], emitted |-> st.emitted + a[2]],
           [map |-> << >>, cur |-> start, emitted |-> 0], arrs)
\* cursor behind the section = start + bytes emitted; every mapped array lies inside the emitted bytes; distinct arrays disjoint
RelocConsistent ==
  \A arrs \in UNION {[1..m -> ({1, 2, 3} \X {8, 16})] : m \in 0..4} :
     (\A p, q \in 1..Len(arrs) : arrs[p][1] = arrs[q][1] => arrs[p][2] = arrs[q][2]) =>     \* an aliased array has one length
     LET r == RelocFold(arrs, 100)
         lenOf(o) == (CHOOSE p \in 1..Len(arrs) : arrs[p][1] = o)
     IN  /\ r.cur = 100 + r.emitted
         /\ \A o \in DOMAIN r.map : r.map[o] >= 100 /\ r.map[o] + arrs[lenOf(o)][2] <= 100 + r.emitted
         /\ \A o1, o2 \in DOMAIN r.map : o1 # o2 =>
               (r.map[o1] + arrs[lenOf(o1)][2] <= r.map[o2] \/ r.map[o2] + arrs[lenOf(o2)][2] <= r.map[o1])

\* what the header of a converted model must carry: WotLK+ stores the NUMBER of skin profiles; upgrading a model with n
\* embedded views yields n (1 if it had none); within WotLK+ the count is kept; up to TBC the views array itself is written
ExpectedProfiles(vfrom, vto, nviews, srcprofiles) ==
  IF VerNum(vto) <= 263 THEN -1
  ELSE IF VerNum(vfrom) <= 263 THEN (IF nviews > 0 THEN nviews ELSE 1) ELSE srcprofiles
ExpectedViewsAfterParse(vfrom, vto, nviews) ==
  IF VerNum(vto) > 263 THEN 0 ELSE IF VerNum(vfrom) <= 263 THEN nviews ELSE 0

\* Parallel arrays of one structure (interpolation ranges x timestamps x values of a track; ranges x timestamps of an event)
\* are present or absent independently: the writer accepts all 2^k combinations (none is rejected with Err), so every
\* non-empty array of an accepted object must survive write -> parse.  mask: bit 1 ranges, 2 timestamps, 4 values.
Skipped(mask) == CASE CollectSkipRule = "all-empty" -> mask = 0
                   [] CollectSkipRule = "no-keys"   -> mask \in {0, 1}
                   [] CollectSkipRule = "no-times"  -> mask \in {0, 1, 4, 5}
ArraysPreserved == \A mask \in 0..7 : Skipped(mask) => mask = 0

\* save(path) next to write(&mut W): whatever the destination held before {absent, shorter file, longer file}, afterwards the
\* file IS the bytes write produces.  Lengths suffice to state it: a non-truncating open leaves Max(len, prelen) bytes.
MaxOf(a, b) == IF a >= b THEN a ELSE b
SaveToPath(len, prelen) == IF SaveTruncates THEN len ELSE MaxOf(len, prelen)          \* prelen = -1: absent
SaveYieldsBytes == \A len \in {0, 1, 48, 324, 1000} : \A prelen \in {-1, len \div 2, 2 * len + 17} : SaveToPath(len, prelen) = len

\* the documented sizes agree with the field sums and with the writer's constants for every version
SizesAgree ==
  /\ \A ver \in VerSet : HeaderSize("m2", VerNum(ver)) = DocHeaderSize(VerNum(ver))
  /\ \A ver \in VerSet : \A sec \in SecSet("m2") : CursorStep("m2", sec, VerNum(ver)) = RecBytes("m2", sec, VerNum(ver))
  /\ TrackBytes(256) = 28 /\ TrackBytes(260) = 28 /\ TrackBytes(264) = 20
  /\ BoneBytes(256) = 108 /\ BoneBytes(260) = 112 /\ BoneBytes(264) = 88 /\ BoneBytes(272) = 88
  /\ AnimRecBytes(256) = 32 /\ AnimRecBytes(260) = 52
  /\ HeaderSize("skin_old", 264) = 48 /\ HeaderSize("skin_new", 264) = 60 /\ HeaderSize("anim", 272) = 56
=============================================================================
