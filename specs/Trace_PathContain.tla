--------------------------- MODULE Trace_PathContain ---------------------------
(* Stage (D) for C11.  One trace = one run of the real `warcraft-rs mpq extract` process:           *)
(*   Reset{class attributes of the case}  Extract{options, names, exit, created[], modified[], ...}  *)
(* created / modified / removed are the differences between two snapshots of the whole sandbox tree, *)
(* each path a sequence of components relative to the sandbox root; `out` likewise.                  *)
(*                                                                                                   *)
(* P (verdict):  every created / modified / removed path is beneath the requested output directory.  *)
(* D (DRIFT):    the set of touched paths equals what the model predicts for these names and options *)
(*               (PredictTouched of PathContain.tla: the guarded code as written; else the unguarded deviation).   *)
EXTENDS PathContain, Json, IOUtils, TLCExt

Rec == ndJsonDeserialize(IOEnv.TRACE)
VARIABLE tl

\* ---- P ---------------------------------------------------------------------------------------------
Changed(e) == ToSet(e.created) \cup ToSet(e.modified) \cup ToSet(e.removed)
ContainedP(e) == \A p \in Changed(e) : Below(e.out, p)

\* ---- D ---------------------------------------------------------------------------------------------
Unread(e) == {i \in 1..Len(e.names) : e.names[i].r # "present"}
OptOf(e) == [preserve |-> e.preserve, explicit |-> e.explicit, chain |-> e.chain,
             form |-> e.outform, preout |-> e.preout, skip |-> e.skip, unread |-> Unread(e)]
\* unreadable entries touch nothing; a single archive without --skip-errors touches nothing at all if one entry is unreadable
Predicted(e, guard) == IF EarlyAbortOf([i \in 1..Len(e.names) |-> e.names[i].c], OptOf(e)) THEN {}
                       ELSE UNION {PredictTouched(ConcName(e.names[i], e.names[i].ix), OptOf(e), guard) : i \in (1..Len(e.names)) \ Unread(e)}
Observed(e) == ToSet(e.touched)

\* classification of a rejected run (goes into the finding signature): is every outside path one the model of
\* the unguarded deviation (the code before 97c8245) predicts for exactly these names and options?
ObsOutside(e)  == {p \in Observed(e) : ~Below(e.out, p)}
PredOutside(e) == {p \in Predicted(e, FALSE) : ~Below(e.out, p)}
RawOutside(e)  == {p \in ToSet(e.created) \cup ToSet(e.modified) : ~Below(e.out, p)}
\* is every outside path explained by the deviation class "directory state carried over from the previous entry, keyed by the TEXT
\* of the name split at one separator kind" (PathContain!SepCacheEscapes: the entry before it was accepted and has the same
\* directory text, the remainder holds the `..` components behind separators of the other kind)?
CarryOver(e) == /\ ObsOutside(e) # {}
                /\ \E kind \in Seps : \A p \in ObsOutside(e) : \E i \in 2..Len(e.names) :
                      /\ SepCacheEscapes(e.names[i - 1], e.names[i], kind, OptOf(e))
                      /\ p \in PredictTouched(ConcName(e.names[i], e.names[i].ix), OptOf(e), FALSE)
EscapeKind(e) == IF /\ e.out = OutAbs /\ ObsOutside(e) \subseteq PredOutside(e)
                    /\ Cardinality(RawOutside(e)) = Cardinality(ObsOutside(e))       \* `touched` is an injective renaming of created + modified
                    /\ \A p \in ToSet(e.removed) : Below(e.out, p)
                 THEN (IF CarryOver(e) THEN "escape-as-unguarded-deviation, reached by text-keyed carry-over from the previous entry (SepCacheEscapes)"
                       ELSE "escape-as-unguarded-deviation")
                 ELSE "escape-unmodelled"

Diag(e) == IF e.built # "ok" \/ e.exit < 0 THEN PrintT(<<"DRIFT", tl, "run not performed: " \o e.built>>)
           ELSE IF Observed(e) = Predicted(e, TRUE) THEN TRUE
           ELSE IF Observed(e) = Predicted(e, FALSE) THEN PrintT(<<"DRIFT", tl, "touched set matches the unguarded deviation, not the code as written">>)
           ELSE PrintT(<<"DRIFT", tl, "touched set differs from both models">>)

TInit == tl = 1 /\ InitWith(<<>>, [preserve |-> FALSE, explicit |-> TRUE, chain |-> FALSE, form |-> "rel", preout |-> FALSE, skip |-> TRUE, unread |-> {}])
Step(e) == CASE e.ev = "Reset"   -> TRUE
             [] e.ev = "Extract" -> /\ Diag(e)
                                    /\ IF ContainedP(e) THEN TRUE ELSE PrintT(<<"BAD", tl, EscapeKind(e)>>)
             [] OTHER -> Assert(FALSE, <<"unknown event", e>>)
TNext == /\ tl <= Len(Rec)
        /\ tl' = tl + 1
        /\ Step(Rec[tl])
        /\ UNCHANGED vars

Accepted == LET d == TLCGet("stats").diameter IN
            IF d - 1 = Len(Rec) THEN PrintT(<<"CONSUMED", Len(Rec)>>) ELSE Print(<<"TRACE_STUCK_AT", d>>, FALSE)
=============================================================================
