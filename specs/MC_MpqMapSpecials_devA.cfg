\* as coded: remove_from_listfile compares spellings exactly - TLC must exhibit a stale line
CONSTANTS
  Names = {"a", "b"}
  Toks = {"t1"}
  LfBig = TRUE
  QDevs = {"delexact"}
  MaxBlocks = 4
  StartKinds <- KindsQuick
SPECIFICATION MCSpec
CONSTRAINT Bound
INVARIANT ListfileNoStale
CHECK_DEADLOCK FALSE
