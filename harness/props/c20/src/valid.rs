//! Valid input files for every format family of the `warcraft-rs` CLI, produced with the library
//! crates' own writers / builders / serializers, plus the reference "does the library accept
//! these bytes" verdicts.
//!
//! Self-contained: only depends on the wow-* crates, `image` (to hand a `DynamicImage` to
//! `wow_blp::convert::image_to_blp`) and `wverif_common`.
//!
//! Notes on the writers used
//!  * dbc       `wow_cdbc::DbcWriter` can only write a `RecordSet`, and a `RecordSet` can only be
//!              obtained from the parser (constructors are `pub(crate)`). So a seed image is
//!              assembled by hand (20 byte header + records + string block), parsed with a schema
//!              and re-emitted through `DbcWriter::write_records`; the bytes returned are the
//!              writer's output.
//!  * blp       `image_to_blp` + `encode_blp` / `encode_blp0`
//!  * m2        `M2Model::write`
//!  * skin      `SkinG::<H>::write` (old and new header)
//!  * anim      `AnimFile::write` (modern "MAOF" and legacy)
//!  * wmo_root  `WmoWriter::write_root`
//!  * wmo_group `WmoWriter::write_group`
//!  * adt       `AdtBuilder::build` + `BuiltAdt::to_bytes`
//!  * wdt       `WdtWriter::write`
//!  * wdl       `WdlParser::write`

#![allow(dead_code)]

use std::fs::File;
use std::io::{BufReader, Cursor};
use std::path::{Path, PathBuf};
use std::sync::atomic::{AtomicU64, Ordering};

use wverif_common::{guarded, variant_name, Outcome, Rng};

pub const KINDS: &[&str] = &[
    "dbc", "blp", "m2", "skin", "anim", "wmo_root", "wmo_group", "adt", "wdt", "wdl",
];

pub fn variant_count(kind: &str) -> u32 {
    match kind {
        "dbc" => 5,
        "blp" => 8,
        "m2" => 5,
        "skin" => 3,
        "anim" => 3,
        "wmo_root" => 3,
        "wmo_group" => 3,
        "adt" => 5,
        "wdt" => 6,
        "wdl" => 4,
        _ => 0,
    }
}

pub fn extension(kind: &str) -> &'static str {
    match kind {
        "dbc" => "dbc",
        "blp" => "blp",
        "m2" => "m2",
        "skin" => "skin",
        "anim" => "anim",
        "wmo_root" | "wmo_group" => "wmo",
        "adt" => "adt",
        "wdt" => "wdt",
        "wdl" => "wdl",
        _ => "bin",
    }
}

pub fn make_valid(kind: &str, variant: u32, rng: &mut Rng) -> Result<Vec<u8>, String> {
    let n = variant_count(kind);
    if n == 0 {
        return Err(format!("unknown kind {kind}"));
    }
    let v = variant % n;
    // a writer that panics must not take the driver down
    let kind_s = kind.to_string();
    let mut local = rng.clone();
    let out = guarded(|| match kind_s.as_str() {
        "dbc" => make_dbc(v, &mut local),
        "blp" => make_blp(v, &mut local),
        "m2" => make_m2(v, &mut local),
        "skin" => make_skin(v, &mut local),
        "anim" => make_anim(v, &mut local),
        "wmo_root" => make_wmo_root(v, &mut local),
        "wmo_group" => make_wmo_group(v, &mut local),
        "adt" => make_adt(v, &mut local),
        "wdt" => make_wdt(v, &mut local),
        "wdl" => make_wdl(v, &mut local),
        _ => Err("unsupported".to_string()),
    });
    // advance the caller's stream so that successive calls differ
    let _ = rng.next_u64();
    match out {
        Outcome::Done(r) => r,
        Outcome::Panic(m) => Err(format!("writer panicked: {m}")),
        Outcome::Hang => Err("writer hung".into()),
    }
}

// ------------------------------------------------------------------------------------------
// small helpers
// ------------------------------------------------------------------------------------------

fn word(rng: &mut Rng, min: usize, max: usize) -> String {
    let n = rng.range(min as u64, max as u64) as usize;
    (0..n).map(|_| (b'a' + rng.below(26) as u8) as char).collect()
}

fn fcoord(rng: &mut Rng) -> f32 {
    (rng.below(20000) as f32) / 10.0 - 1000.0
}

fn small_f(rng: &mut Rng) -> f32 {
    (rng.below(2000) as f32) / 100.0 - 10.0
}

static TMP_SEQ: AtomicU64 = AtomicU64::new(0);

fn tmp_path(dir: &Path, ext: &str) -> PathBuf {
    let n = TMP_SEQ.fetch_add(1, Ordering::Relaxed);
    dir.join(format!("c20v-{}-{}.{}", std::process::id(), n, ext))
}

struct TmpFile(PathBuf);
impl TmpFile {
    fn new(dir: &Path, ext: &str, bytes: &[u8]) -> Result<Self, String> {
        let _ = std::fs::create_dir_all(dir);
        let p = tmp_path(dir, ext);
        std::fs::write(&p, bytes).map_err(|e| format!("tmp write {p:?}: {e}"))?;
        Ok(TmpFile(p))
    }
}
impl Drop for TmpFile {
    fn drop(&mut self) {
        let _ = std::fs::remove_file(&self.0);
    }
}

fn class<T, E: std::fmt::Debug>(o: Outcome<Result<T, E>>) -> String {
    match o {
        Outcome::Done(Ok(_)) => "ok".into(),
        Outcome::Done(Err(e)) => format!("err:{}", variant_name(&e)),
        Outcome::Panic(_) => "panic".into(),
        Outcome::Hang => "hang".into(),
    }
}

// ------------------------------------------------------------------------------------------
// DBC
// ------------------------------------------------------------------------------------------

/// (name, type_name) per field of the dbc variant; all scalar (the writer emits
/// `field_count = schema.fields.len()`, which disagrees with `Schema::validate` for arrays).
fn dbc_fields(variant: u32) -> Vec<(&'static str, &'static str)> {
    match variant % variant_count("dbc") {
        0 => vec![("ID", "UInt32"), ("Value", "Int32"), ("Ratio", "Float32")],
        1 => vec![("ID", "UInt32"), ("Name", "String"), ("Flags", "UInt32"), ("Description", "String")],
        2 => vec![("ID", "UInt32"), ("Value", "UInt32")],
        3 => vec![("ID", "UInt32"), ("Name", "String"), ("Enabled", "Bool")],
        _ => vec![("Key", "Int32"), ("A", "UInt32"), ("B", "Float32"), ("Label", "String"), ("C", "Int32")],
    }
}

fn dbc_record_count(variant: u32, rng: &mut Rng) -> usize {
    match variant % variant_count("dbc") {
        0 => rng.range(2, 9) as usize,
        1 => rng.range(2, 6) as usize,
        2 => 0,
        3 => 1,
        _ => rng.range(3, 12) as usize,
    }
}

/// Has the dbc variant a key field in its schema (variant 4 has none)?
fn dbc_key(variant: u32) -> Option<&'static str> {
    match variant % variant_count("dbc") {
        4 => None,
        _ => Some("ID"),
    }
}

fn dbc_schema(variant: u32) -> wow_cdbc::Schema {
    use wow_cdbc::{FieldType, Schema, SchemaField};
    let mut s = Schema::new(format!("C20Test{}", variant % variant_count("dbc")));
    for (n, t) in dbc_fields(variant) {
        let ft = match t {
            "UInt32" => FieldType::UInt32,
            "Int32" => FieldType::Int32,
            "Float32" => FieldType::Float32,
            "String" => FieldType::String,
            "Bool" => FieldType::Bool,
            _ => FieldType::UInt32,
        };
        s.add_field(SchemaField::new(n, ft));
    }
    if let Some(k) = dbc_key(variant) {
        s.set_key_field(k);
    }
    s
}

pub fn schema_yaml(kind: &str, variant: u32) -> Option<String> {
    if kind != "dbc" {
        return None;
    }
    let v = variant % variant_count("dbc");
    let mut y = String::new();
    y.push_str(&format!("name: C20Test{v}\n"));
    if let Some(k) = dbc_key(v) {
        y.push_str(&format!("key_field: {k}\n"));
    }
    y.push_str("fields:\n");
    for (n, t) in dbc_fields(v) {
        y.push_str(&format!("  - name: {n}\n    type_name: {t}\n"));
    }
    Some(y)
}

fn make_dbc(v: u32, rng: &mut Rng) -> Result<Vec<u8>, String> {
    use wow_cdbc::{DbcParser, DbcWriter};
    let fields = dbc_fields(v);
    let nrec = dbc_record_count(v, rng);
    // --- seed image, by hand (see module doc: no public RecordSet constructor) ---
    let mut strings: Vec<u8> = vec![0];
    let mut recs: Vec<u8> = Vec::new();
    for r in 0..nrec {
        for (i, (_, t)) in fields.iter().enumerate() {
            let w: u32 = match *t {
                "UInt32" | "Int32" if i == 0 => (r as u32 + 1) * 10 + rng.below(10) as u32,
                "UInt32" => rng.next_u32() & 0x00FF_FFFF,
                "Int32" => (rng.below(2001) as i32 - 1000) as u32,
                "Float32" => small_f(rng).to_bits(),
                "Bool" => rng.below(2) as u32,
                "String" => {
                    if rng.chance(1, 8) {
                        0
                    } else {
                        let off = strings.len() as u32;
                        strings.extend_from_slice(word(rng, 1, 12).as_bytes());
                        strings.push(0);
                        off
                    }
                }
                _ => 0,
            };
            recs.extend_from_slice(&w.to_le_bytes());
        }
    }
    let mut seed = Vec::new();
    seed.extend_from_slice(b"WDBC");
    seed.extend_from_slice(&(nrec as u32).to_le_bytes());
    seed.extend_from_slice(&(fields.len() as u32).to_le_bytes());
    seed.extend_from_slice(&((fields.len() * 4) as u32).to_le_bytes());
    seed.extend_from_slice(&(strings.len() as u32).to_le_bytes());
    seed.extend_from_slice(&recs);
    seed.extend_from_slice(&strings);
    // --- through the library: parse with schema, re-emit with DbcWriter ---
    let schema = dbc_schema(v);
    let parser = DbcParser::parse_bytes(&seed).map_err(|e| format!("seed parse: {e:?}"))?;
    let parser = parser.with_schema(schema.clone()).map_err(|e| format!("seed schema: {e:?}"))?;
    let rs = parser.parse_records().map_err(|e| format!("seed records: {e:?}"))?;
    let mut cur = Cursor::new(Vec::new());
    {
        let mut w = DbcWriter::new(&mut cur).with_schema(schema);
        w.write_records(&rs).map_err(|e| format!("DbcWriter: {e:?}"))?;
    }
    Ok(cur.into_inner())
}

// ------------------------------------------------------------------------------------------
// BLP
// ------------------------------------------------------------------------------------------

struct BlpSpec {
    w: u32,
    h: u32,
    alpha: bool,
    mips: bool,
    target: wow_blp::convert::BlpTarget,
}

fn blp_spec(v: u32) -> BlpSpec {
    use wow_blp::convert::{AlphaBits, Blp2Format, BlpOldFormat, BlpTarget, DxtAlgorithm};
    let algo = DxtAlgorithm::RangeFit;
    match v {
        // BLP1 palettized, 8 bit alpha, mipmaps, non-square
        0 => BlpSpec { w: 16, h: 8, alpha: true, mips: true, target: BlpTarget::Blp1(BlpOldFormat::Raw1 { alpha_bits: AlphaBits::Bit8 }) },
        // BLP2 DXT1 no alpha, mipmaps
        1 => BlpSpec { w: 16, h: 16, alpha: false, mips: true, target: BlpTarget::Blp2(Blp2Format::Dxt1 { has_alpha: false, compress_algorithm: algo }) },
        // BLP1 JPEG, no alpha, no mipmaps
        2 => BlpSpec { w: 8, h: 8, alpha: false, mips: false, target: BlpTarget::Blp1(BlpOldFormat::Jpeg { has_alpha: false }) },
        // BLP2 raw BGRA, no mipmaps, non-square
        3 => BlpSpec { w: 4, h: 8, alpha: true, mips: false, target: BlpTarget::Blp2(Blp2Format::Raw3) },
        // BLP2 DXT5 with alpha, mipmaps, non-square
        4 => BlpSpec { w: 32, h: 16, alpha: true, mips: true, target: BlpTarget::Blp2(Blp2Format::Dxt5 { has_alpha: true, compress_algorithm: algo }) },
        // BLP2 palettized, 1 bit alpha, mipmaps
        5 => BlpSpec { w: 8, h: 8, alpha: true, mips: true, target: BlpTarget::Blp2(Blp2Format::Raw1 { alpha_bits: AlphaBits::Bit1 }) },
        // BLP2 JPEG with alpha, mipmaps
        6 => BlpSpec { w: 16, h: 16, alpha: true, mips: true, target: BlpTarget::Blp2(Blp2Format::Jpeg { has_alpha: true }) },
        // BLP2 DXT3 with alpha, no mipmaps
        _ => BlpSpec { w: 8, h: 4, alpha: true, mips: false, target: BlpTarget::Blp2(Blp2Format::Dxt3 { has_alpha: true, compress_algorithm: algo }) },
    }
}

fn random_image(w: u32, h: u32, alpha: bool, rng: &mut Rng) -> image::DynamicImage {
    // smooth-ish gradient plus noise so that palettes / dxt blocks are not degenerate
    let (r0, g0, b0) = (rng.byte(), rng.byte(), rng.byte());
    if alpha {
        let mut img = image::RgbaImage::new(w, h);
        for (x, y, p) in img.enumerate_pixels_mut() {
            let n = rng.byte() & 0x0F;
            *p = image::Rgba([
                r0.wrapping_add((x * 7) as u8).wrapping_add(n),
                g0.wrapping_add((y * 11) as u8),
                b0.wrapping_add(((x + y) * 5) as u8),
                if (x + y) % 3 == 0 { 0 } else { 255 - (n << 2) },
            ]);
        }
        image::DynamicImage::ImageRgba8(img)
    } else {
        let mut img = image::RgbImage::new(w, h);
        for (x, y, p) in img.enumerate_pixels_mut() {
            let n = rng.byte() & 0x0F;
            *p = image::Rgb([
                r0.wrapping_add((x * 7) as u8).wrapping_add(n),
                g0.wrapping_add((y * 11) as u8),
                b0.wrapping_add(((x + y) * 5) as u8),
            ]);
        }
        image::DynamicImage::ImageRgb8(img)
    }
}

fn encode_blp_spec(spec: BlpSpec, rng: &mut Rng) -> Result<Vec<u8>, String> {
    use wow_blp::convert::image_to_blp;
    use wow_blp::encode::encode_blp;
    let img = random_image(spec.w, spec.h, spec.alpha, rng);
    let blp = image_to_blp(img, spec.mips, spec.target, image::imageops::FilterType::Triangle)
        .map_err(|e| format!("image_to_blp: {e:?}"))?;
    encode_blp(&blp).map_err(|e| format!("encode_blp: {e:?}"))
}

fn make_blp(v: u32, rng: &mut Rng) -> Result<Vec<u8>, String> {
    encode_blp_spec(blp_spec(v), rng)
}

// ------------------------------------------------------------------------------------------
// M2 / SKIN / ANIM
// ------------------------------------------------------------------------------------------

fn m2_version(v: u32) -> wow_m2::M2Version {
    use wow_m2::M2Version::*;
    match v {
        0 => WotLK,
        1 => Vanilla,
        2 => TBC,
        3 => Cataclysm,
        _ => MoP,
    }
}

fn make_m2(v: u32, rng: &mut Rng) -> Result<Vec<u8>, String> {
    use wow_m2::chunks::vertex::M2Vertex;
    use wow_m2::common::{C2Vector, C3Vector};
    use wow_m2::header::M2Header;
    use wow_m2::M2Model;
    let mut model = M2Model::default();
    model.header = M2Header::new(m2_version(v));
    model.name = Some(format!("C20_{}", word(rng, 3, 10)));
    let nv = rng.range(3, 12);
    for _ in 0..nv {
        model.vertices.push(M2Vertex {
            position: C3Vector { x: small_f(rng), y: small_f(rng), z: small_f(rng) },
            bone_weights: [255, 0, 0, 0],
            bone_indices: [0, 0, 0, 0],
            normal: C3Vector { x: 0.0, y: 0.0, z: 1.0 },
            tex_coords: C2Vector { x: rng.f32(), y: rng.f32() },
            tex_coords2: None,
        });
    }
    let mut cur = Cursor::new(Vec::new());
    model.write(&mut cur).map_err(|e| format!("M2Model::write: {e:?}"))?;
    Ok(cur.into_inner())
}

fn skin_parts(rng: &mut Rng, with_batches: bool) -> (Vec<u16>, Vec<u16>, Vec<u8>, Vec<wow_m2::skin::SkinSubmesh>, Vec<wow_m2::skin::SkinBatch>) {
    use wow_m2::skin::{SkinBatch, SkinSubmesh};
    let nvert = rng.range(6, 16) as u16; // > 4: an old-format file is recognised by "second u32 > 4"
    let ntri = rng.range(2, 6) as u16;
    let indices: Vec<u16> = (0..nvert).collect();
    let triangles: Vec<u16> = (0..ntri * 3).map(|_| rng.below(nvert as u64) as u16).collect();
    let bone_indices: Vec<u8> = (0..nvert as usize * 4).map(|i| if i % 4 == 0 { 0 } else { 0 }).collect();
    let submeshes = vec![SkinSubmesh {
        id: 0,
        level: 0,
        vertex_start: 0,
        vertex_count: nvert,
        triangle_start: 0,
        triangle_count: ntri * 3,
        bone_count: 1,
        bone_start: 0,
        bone_influence: 1,
        center: [small_f(rng), small_f(rng), small_f(rng)],
        sort_center: [0.0, 0.0, 0.0],
        bounding_radius: 1.0 + rng.f32(),
    }];
    // SkinG::write advances the running offset by 40 bytes per submesh while SkinSubmesh::write emits
    // 48, so the batch array of a written file starts 8 bytes (per submesh) too early and reads back as
    // garbage. Well-formed files therefore carry no batches (see make_invalid_but_parseable("skin")).
    let batches = if !with_batches {
        Vec::new()
    } else {
        vec![SkinBatch {
            flags: 0,
            priority_plane: 0,
            shader_id: 0,
            skin_section_index: 0,
            geoset_index: 0,
            color_index: 0xFFFF,
            material_index: 0,
            material_layer: 0,
            texture_count: 1,
            texture_combo_index: 0,
            texture_coord_combo_index: 0,
            texture_weight_combo_index: 0,
            texture_transform_combo_index: 0,
        }]
    };
    (indices, triangles, bone_indices, submeshes, batches)
}

fn make_skin(v: u32, rng: &mut Rng) -> Result<Vec<u8>, String> {
    build_skin(v, false, rng)
}

fn build_skin(v: u32, with_batches: bool, rng: &mut Rng) -> Result<Vec<u8>, String> {
    use wow_m2::skin::{OldSkinHeader, SkinG, SkinHeader};
    use wow_m2::M2Version;
    let (indices, triangles, bone_indices, submeshes, batches) = skin_parts(rng, with_batches);
    let mut cur = Cursor::new(Vec::new());
    match v {
        // old header (magic + 5 arrays + bone_count_max): WotLK character models
        0 => {
            let mut header = OldSkinHeader::new();
            header.bone_count_max = 21;
            let skin = SkinG::<OldSkinHeader> { header, indices, triangles, bone_indices, submeshes, batches };
            skin.write(&mut cur).map_err(|e| format!("OldSkin::write: {e:?}"))?;
        }
        // new header with version field (Cataclysm numbering)
        1 => {
            let mut header = SkinHeader::new(M2Version::Cataclysm);
            header.vertex_count = indices.len() as u32;
            let skin = SkinG::<SkinHeader> { header, indices, triangles, bone_indices, submeshes, batches };
            skin.write(&mut cur).map_err(|e| format!("Skin::write: {e:?}"))?;
        }
        // new header, version 4 with the BfA centre fields
        _ => {
            let mut header = SkinHeader::new(M2Version::BfA);
            header.vertex_count = indices.len() as u32;
            header.center_position = Some([small_f(rng), small_f(rng), small_f(rng)]);
            header.center_bounds = Some(1.0 + rng.f32());
            let skin = SkinG::<SkinHeader> { header, indices, triangles, bone_indices, submeshes, batches };
            skin.write(&mut cur).map_err(|e| format!("Skin::write: {e:?}"))?;
        }
    }
    Ok(cur.into_inner())
}

fn make_anim(v: u32, rng: &mut Rng) -> Result<Vec<u8>, String> {
    use wow_m2::anim::{
        AnimEntry, AnimFile, AnimFormat, AnimHeader, AnimMetadata, AnimSection, AnimSectionHeader,
        LegacyStructureHints, ANIM_MAGIC,
    };
    let nsec = match v {
        0 => 1,
        1 => rng.range(2, 4) as usize,
        _ => 1,
    };
    let mut sections = Vec::new();
    let mut entries = Vec::new();
    for i in 0..nsec {
        let id = (i as u32 + 1) * 4 + rng.below(4) as u32;
        let start = rng.below(100) as u32;
        sections.push(AnimSection {
            header: AnimSectionHeader { magic: *b"AFID", id, start, end: start + 1 + rng.below(3000) as u32 },
            // AnimSection::parse derives the bone count from the *whole* section size, so a section
            // that carries bone data does not survive a write/parse cycle; keep them empty.
            bone_animations: Vec::new(),
        });
        entries.push(AnimEntry { id, offset: 0, size: 0 });
    }
    let file = if v < 2 {
        AnimFile {
            format: AnimFormat::Modern,
            sections,
            metadata: AnimMetadata::Modern {
                header: AnimHeader { magic: ANIM_MAGIC, version: 1, id_count: nsec as u32, unknown: 0, anim_entry_offset: 20 },
                entries,
            },
        }
    } else {
        AnimFile {
            format: AnimFormat::Legacy,
            sections,
            metadata: AnimMetadata::Legacy {
                file_size: 0,
                animation_count: nsec as u32,
                structure_hints: LegacyStructureHints { appears_valid: true, estimated_blocks: 1, has_timestamps: true },
            },
        }
    };
    let mut cur = Cursor::new(Vec::new());
    file.write(&mut cur).map_err(|e| format!("AnimFile::write: {e:?}"))?;
    Ok(cur.into_inner())
}

// ------------------------------------------------------------------------------------------
// WMO
// ------------------------------------------------------------------------------------------

/// (target version, with materials, rich) of the wmo_root variants.
/// `WmoWriter::write_materials` declares 40 bytes per MOMT entry for targets before MoP but emits 64,
/// which breaks the chunk framing of everything behind MOMT; so materials only appear with a MoP target.
fn wmo_root_shape(v: u32) -> (wow_wmo::WmoVersion, bool, bool) {
    match v {
        0 => (wow_wmo::WmoVersion::Classic, false, false),
        1 => (wow_wmo::WmoVersion::Mop, true, true),
        _ => (wow_wmo::WmoVersion::Wotlk, false, true),
    }
}

fn wv3(rng: &mut Rng) -> wow_wmo::Vec3 {
    wow_wmo::Vec3 { x: small_f(rng), y: small_f(rng), z: small_f(rng) }
}

fn wbox(rng: &mut Rng) -> wow_wmo::BoundingBox {
    let a = wv3(rng);
    wow_wmo::BoundingBox {
        min: a,
        max: wow_wmo::Vec3 { x: a.x + 1.0 + rng.f32() * 20.0, y: a.y + 1.0 + rng.f32() * 20.0, z: a.z + 1.0 + rng.f32() * 20.0 },
    }
}

fn wcolor(rng: &mut Rng) -> wow_wmo::Color {
    wow_wmo::Color { r: rng.byte(), g: rng.byte(), b: rng.byte(), a: 255 }
}

fn make_wmo_root(v: u32, rng: &mut Rng) -> Result<Vec<u8>, String> {
    let (version, with_mats, rich) = wmo_root_shape(v);
    build_wmo_root(version, with_mats, rich, rng)
}

fn build_wmo_root(version: wow_wmo::WmoVersion, with_mats: bool, rich: bool, rng: &mut Rng) -> Result<Vec<u8>, String> {
    use wow_wmo::wmo_group_types::WmoGroupFlags;
    use wow_wmo::wmo_types::*;
    use wow_wmo::WmoWriter;
    let ntex = if rich { rng.range(2, 4) as usize } else { 1 };
    let textures: Vec<String> = (0..ntex).map(|_| format!("world\\c20\\{}.blp", word(rng, 3, 9))).collect();
    // offsets of the texture names inside MOTX as the writer lays them out (name + NUL, back to back)
    let mut offs = Vec::new();
    let mut o = 0u32;
    let mut texture_offset_index_map = std::collections::HashMap::new();
    for (i, t) in textures.iter().enumerate() {
        offs.push(o);
        texture_offset_index_map.insert(o, i as u32);
        o += t.len() as u32 + 1;
    }
    let nmat = if !with_mats { 0 } else if rich { rng.range(1, 3) as usize } else { 1 };
    let materials: Vec<WmoMaterial> = (0..nmat)
        .map(|i| WmoMaterial {
            flags: WmoMaterialFlags::empty(),
            shader: 0,
            blend_mode: 0,
            texture1: offs[i % offs.len()],
            emissive_color: wcolor(rng),
            sidn_color: wcolor(rng),
            framebuffer_blend: wcolor(rng),
            texture2: 0,
            diffuse_color: wcolor(rng),
            ground_type: 0,
        })
        .collect();
    let ngroups = if rich { rng.range(1, 3) as usize } else { 1 };
    let groups: Vec<WmoGroupInfo> = (0..ngroups)
        .map(|_| WmoGroupInfo { flags: WmoGroupFlags::empty(), bounding_box: wbox(rng), name: format!("grp_{}", word(rng, 2, 6)) })
        .collect();
    let (portals, portal_references, lights, doodad_defs, doodad_sets) = if rich {
        let p = WmoPortal { vertices: vec![wv3(rng), wv3(rng), wv3(rng), wv3(rng)], normal: wow_wmo::Vec3 { x: 0.0, y: 0.0, z: 1.0 } };
        let pr = WmoPortalReference { portal_index: 0, group_index: 0, side: 1 };
        let l = WmoLight {
            light_type: WmoLightType::Omni,
            position: wv3(rng),
            color: wcolor(rng),
            intensity: 1.0 + rng.f32(),
            rotation: [0.0, 0.0, 0.0, 1.0],
            attenuation_start: 1.0,
            attenuation_end: 5.0,
            use_attenuation: true,
            properties: WmoLightProperties::Omni,
        };
        (vec![p], vec![pr], vec![l], Vec::new(), vec![WmoDoodadSet { name: "Set_$DefaultGlobal".into(), start_doodad: 0, n_doodads: 0 }])
    } else {
        (Vec::new(), Vec::new(), Vec::new(), Vec::new(), Vec::new())
    };
    let root = WmoRoot {
        version,
        header: WmoHeader {
            n_materials: materials.len() as u32,
            n_groups: groups.len() as u32,
            n_portals: portals.len() as u32,
            n_lights: lights.len() as u32,
            n_doodad_names: 0,
            n_doodad_defs: doodad_defs.len() as u32,
            n_doodad_sets: doodad_sets.len() as u32,
            flags: WmoFlags::empty(),
            ambient_color: wcolor(rng),
        },
        materials,
        groups,
        portals,
        portal_references,
        visible_block_lists: Vec::new(),
        lights,
        doodad_defs,
        doodad_sets,
        bounding_box: wbox(rng),
        textures,
        texture_offset_index_map,
        skybox: None,
        convex_volume_planes: None,
    };
    let mut cur = Cursor::new(Vec::new());
    WmoWriter::new().write_root(&mut cur, &root, version).map_err(|e| format!("write_root: {e:?}"))?;
    Ok(cur.into_inner())
}

/// A group file with the real on-disk layout (68 byte MOGP header, then MOPY MOVI MOVT MONR MOTV MOBA
/// inside MOGP), assembled BY HAND: `WmoWriter::write_group` emits a 36 byte MOGP header while
/// `group_parser::parse_group_file` (and the real format) expects 68, so the parser skips into the middle
/// of MOVT and reports 0 vertices / 0 triangles for every writer-made group file.
fn make_wmo_group_by_hand(rng: &mut Rng) -> Vec<u8> {
    fn chunk(out: &mut Vec<u8>, id: &[u8; 4], data: &[u8]) {
        out.extend(id.iter().rev());
        out.extend_from_slice(&(data.len() as u32).to_le_bytes());
        out.extend_from_slice(data);
    }
    let nv = rng.range(3, 9) as usize;
    let ntri = rng.range(1, 4) as usize;
    let mut body = Vec::new();
    // MOGP header, 68 bytes
    body.extend_from_slice(&0u32.to_le_bytes()); // group name
    body.extend_from_slice(&0u32.to_le_bytes()); // descriptive name
    body.extend_from_slice(&0x0000_0005u32.to_le_bytes()); // flags: BSP | normals... (HAS_BASE_VERTICES | HAS_NORMALS)
    for f in [-5.0f32, -5.0, -5.0, 5.0, 5.0, 5.0] {
        body.extend_from_slice(&f.to_le_bytes());
    }
    body.extend_from_slice(&0u16.to_le_bytes()); // portal start
    body.extend_from_slice(&0u16.to_le_bytes()); // portal count
    body.extend_from_slice(&0u16.to_le_bytes()); // trans batches
    body.extend_from_slice(&0u16.to_le_bytes()); // int batches
    body.extend_from_slice(&1u16.to_le_bytes()); // ext batches
    body.extend_from_slice(&0u16.to_le_bytes()); // padding
    body.extend_from_slice(&[0u8; 4]); // fog ids
    body.extend_from_slice(&0u32.to_le_bytes()); // liquid
    body.extend_from_slice(&(rng.below(50000) as u32).to_le_bytes()); // WMOAreaTable id
    body.extend_from_slice(&0u32.to_le_bytes()); // flags2
    body.extend_from_slice(&(-1i16).to_le_bytes());
    body.extend_from_slice(&(-1i16).to_le_bytes());
    assert_eq!(body.len(), 68);
    let mut d = Vec::new();
    for _ in 0..ntri {
        d.extend_from_slice(&[0x20u8, 0u8]); // MOPY: flags, material id
    }
    chunk(&mut body, b"MOPY", &d);
    d.clear();
    for _ in 0..ntri * 3 {
        d.extend_from_slice(&(rng.below(nv as u64) as u16).to_le_bytes());
    }
    chunk(&mut body, b"MOVI", &d);
    d.clear();
    for _ in 0..nv * 3 {
        d.extend_from_slice(&small_f(rng).to_le_bytes());
    }
    chunk(&mut body, b"MOVT", &d);
    d.clear();
    for _ in 0..nv {
        for f in [0.0f32, 0.0, 1.0] {
            d.extend_from_slice(&f.to_le_bytes());
        }
    }
    chunk(&mut body, b"MONR", &d);
    d.clear();
    for _ in 0..nv * 2 {
        d.extend_from_slice(&rng.f32().to_le_bytes());
    }
    chunk(&mut body, b"MOTV", &d);
    d.clear();
    d.extend_from_slice(&[0u8; 12]); // bounding box (6 x i16)
    d.extend_from_slice(&0u32.to_le_bytes()); // start index
    d.extend_from_slice(&((ntri * 3) as u16).to_le_bytes()); // count
    d.extend_from_slice(&0u16.to_le_bytes()); // min vertex
    d.extend_from_slice(&((nv - 1) as u16).to_le_bytes()); // max vertex
    d.push(0); // flags
    d.push(0); // material id
    chunk(&mut body, b"MOBA", &d);
    let mut out = Vec::new();
    chunk(&mut out, b"MVER", &17u32.to_le_bytes());
    chunk(&mut out, b"MOGP", &body);
    out
}

fn make_wmo_group(v: u32, rng: &mut Rng) -> Result<Vec<u8>, String> {
    use wow_wmo::wmo_group_types::*;
    if v == 2 {
        return Ok(make_wmo_group_by_hand(rng));
    }
    use wow_wmo::WmoWriter;
    let rich = v >= 1;
    let version = if rich { wow_wmo::WmoVersion::Wotlk } else { wow_wmo::WmoVersion::Classic };
    let nv = rng.range(3, 9) as usize;
    let ntri = rng.range(1, 4) as usize;
    let vertices: Vec<wow_wmo::Vec3> = (0..nv).map(|_| wv3(rng)).collect();
    let normals: Vec<wow_wmo::Vec3> = (0..nv).map(|_| wow_wmo::Vec3 { x: 0.0, y: 0.0, z: 1.0 }).collect();
    let tex_coords: Vec<TexCoord> = (0..nv).map(|_| TexCoord { u: rng.f32(), v: rng.f32() }).collect();
    let indices: Vec<u16> = (0..ntri * 3).map(|_| rng.below(nv as u64) as u16).collect();
    let mut flags = WmoGroupFlags::HAS_NORMALS;
    if rich {
        flags |= WmoGroupFlags::HAS_VERTEX_COLORS;
    }
    let group = WmoGroup {
        header: WmoGroupHeader { flags, bounding_box: wbox(rng), name_offset: 0, group_index: 0 },
        materials: (0..ntri).map(|_| 0u16).collect(),
        vertices,
        normals,
        tex_coords,
        batches: vec![WmoBatch {
            flags: [0; 10],
            material_id: 0,
            start_index: 0,
            count: (ntri * 3) as u16,
            start_vertex: 0,
            end_vertex: (nv - 1) as u16,
            use_large_material_id: false,
        }],
        indices,
        vertex_colors: if rich { Some((0..nv).map(|_| wcolor(rng)).collect()) } else { None },
        bsp_nodes: None,
        liquid: None,
        doodad_refs: None,
    };
    let mut cur = Cursor::new(Vec::new());
    WmoWriter::new().write_group(&mut cur, &group, version).map_err(|e| format!("write_group: {e:?}"))?;
    Ok(cur.into_inner())
}

// ------------------------------------------------------------------------------------------
// ADT
// ------------------------------------------------------------------------------------------

fn adt_version(v: u32) -> wow_adt::AdtVersion {
    use wow_adt::AdtVersion::*;
    match v {
        0 => VanillaEarly,
        1 => TBC,
        2 => WotLK,
        3 => Cataclysm,
        _ => MoP,
    }
}

fn make_adt(v: u32, rng: &mut Rng) -> Result<Vec<u8>, String> {
    use wow_adt::{AdtBuilder, DoodadPlacement, WmoPlacement};
    let mut b = AdtBuilder::new().with_version(adt_version(v));
    let ntex = rng.range(1, 3);
    for _ in 0..ntex {
        b = b.add_texture(format!("tileset/c20/{}.blp", word(rng, 3, 9)));
    }
    if v >= 1 {
        b = b.add_model(format!("world/c20/{}.m2", word(rng, 3, 9)));
        b = b.add_doodad_placement(DoodadPlacement {
            name_id: 0,
            unique_id: rng.below(100000) as u32,
            position: [16000.0 + fcoord(rng), 100.0 + small_f(rng), 16000.0 + fcoord(rng)],
            rotation: [0.0, rng.below(360) as f32, 0.0],
            scale: 1024,
            flags: 0,
        });
    }
    if v >= 2 {
        b = b.add_wmo(format!("world/wmo/c20/{}.wmo", word(rng, 3, 9)));
        b = b.add_wmo_placement(WmoPlacement {
            name_id: 0,
            unique_id: rng.below(100000) as u32,
            position: [16000.0 + fcoord(rng), 50.0, 16000.0 + fcoord(rng)],
            rotation: [0.0, 0.0, 0.0],
            extents_min: [15000.0, 0.0, 15000.0],
            extents_max: [17000.0, 100.0, 17000.0],
            flags: 0,
            doodad_set: 0,
            name_set: 0,
            scale: 1024,
        });
    }
    let built = b.build().map_err(|e| format!("AdtBuilder::build: {e:?}"))?;
    built.to_bytes().map_err(|e| format!("BuiltAdt::to_bytes: {e:?}"))
}

// ------------------------------------------------------------------------------------------
// WDT
// ------------------------------------------------------------------------------------------

fn wdt_set_tiles(wdt: &mut wow_wdt::WdtFile, rng: &mut Rng, max: u64) {
    let n = 1 + rng.below(max);
    for _ in 0..n {
        let (x, y) = (rng.below(64) as usize, rng.below(64) as usize);
        if let Some(e) = wdt.main.get_mut(x, y) {
            e.set_has_adt(true);
            e.area_id = rng.below(5000) as u32;
        }
    }
}

fn write_wdt(wdt: &wow_wdt::WdtFile) -> Result<Vec<u8>, String> {
    let mut out = Vec::new();
    wow_wdt::WdtWriter::new(&mut out).write(wdt).map_err(|e| format!("WdtWriter: {e:?}"))?;
    Ok(out)
}

fn make_wdt(v: u32, rng: &mut Rng) -> Result<Vec<u8>, String> {
    use wow_wdt::chunks::maid::MaidSection;
    use wow_wdt::chunks::mphd::FileDataIds;
    use wow_wdt::chunks::{MaidChunk, ModfChunk, ModfEntry, MphdFlags, MwmoChunk};
    use wow_wdt::version::WowVersion;
    use wow_wdt::WdtFile;
    let wdt = match v {
        // classic terrain map: tiles set, empty MWMO, no flags
        0 => {
            let mut w = WdtFile::new(WowVersion::Classic);
            wdt_set_tiles(&mut w, rng, 40);
            w.mwmo = Some(MwmoChunk::new());
            w
        }
        // WotLK terrain map: MCCV / big alpha flags, tiles set, empty MWMO
        1 => {
            let mut w = WdtFile::new(WowVersion::WotLK);
            w.mphd.flags = MphdFlags::ADT_HAS_MCCV | MphdFlags::ADT_HAS_BIG_ALPHA | MphdFlags::ADT_HAS_DOODADREFS_SORTED_BY_SIZE_CAT;
            wdt_set_tiles(&mut w, rng, 200);
            w.mwmo = Some(MwmoChunk::new());
            w
        }
        // Cataclysm terrain map: no MWMO at all
        2 => {
            let mut w = WdtFile::new(WowVersion::Cataclysm);
            w.mphd.flags = MphdFlags::ADT_HAS_BIG_ALPHA | MphdFlags::UNK_FIRELANDS;
            wdt_set_tiles(&mut w, rng, 60);
            w
        }
        // WMO-only map: global object, MWMO + MODF, no tiles
        3 => {
            let mut w = WdtFile::new(WowVersion::Classic);
            w.mphd.flags = MphdFlags::WDT_USES_GLOBAL_MAP_OBJ;
            let mut m = MwmoChunk::new();
            m.add_filename(format!("World\\wmo\\Dungeon\\{}\\{}.wmo", word(rng, 3, 8), word(rng, 3, 8)));
            w.mwmo = Some(m);
            let mut e = ModfEntry::new();
            e.unique_id = 0xFFFF_FFFF;
            e.position = [fcoord(rng), fcoord(rng), fcoord(rng)];
            e.lower_bounds = [-100.0, -100.0, -100.0];
            e.upper_bounds = [100.0, 100.0, 100.0];
            let mut modf = ModfChunk::new();
            modf.add_entry(e);
            w.modf = Some(modf);
            w
        }
        // classic terrain map with no tile at all
        4 => {
            let mut w = WdtFile::new(WowVersion::Classic);
            w.mwmo = Some(MwmoChunk::new());
            w
        }
        // BfA terrain map with MAID
        _ => {
            let mut w = WdtFile::new(WowVersion::BfA);
            w.mphd.flags = MphdFlags::UNK_FIRELANDS | MphdFlags::ADT_HAS_HEIGHT_TEXTURING;
            w.mphd.set_file_data_ids(FileDataIds {
                lgt: rng.below(1 << 22) as u32,
                occ: rng.below(1 << 22) as u32,
                fogs: rng.below(1 << 22) as u32,
                mpv: rng.below(1 << 22) as u32,
                tex: rng.below(1 << 22) as u32,
                wdl: rng.below(1 << 22) as u32,
                pd4: rng.below(1 << 22) as u32,
            });
            let mut maid = MaidChunk::new();
            for _ in 0..(1 + rng.below(30)) {
                let (x, y) = (rng.below(64) as usize, rng.below(64) as usize);
                let id = 1 + rng.below(1 << 22) as u32;
                maid.set(MaidSection::RootAdt, x, y, id).map_err(|e| format!("maid.set: {e:?}"))?;
                if let Some(e) = w.main.get_mut(x, y) {
                    e.set_has_adt(true);
                }
            }
            w.maid = Some(maid);
            w
        }
    };
    write_wdt(&wdt)
}

// ------------------------------------------------------------------------------------------
// WDL
// ------------------------------------------------------------------------------------------

fn wdl_tiles(f: &mut wow_wdl::types::WdlFile, rng: &mut Rng, max: u64, holes: bool) {
    let n = 1 + rng.below(max);
    use wow_wdl::types::{HeightMapTile, HolesData};
    for _ in 0..n {
        let (x, y) = (rng.below(64) as u32, rng.below(64) as u32);
        let mut t = HeightMapTile::new();
        let base = rng.below(2000) as i16 - 500;
        for h in t.outer_values.iter_mut() {
            *h = base + (rng.below(64) as i16);
        }
        for h in t.inner_values.iter_mut() {
            *h = base + (rng.below(64) as i16);
        }
        f.heightmap_tiles.insert((x, y), t);
        // the validator wants a non-zero MAOF entry for every tile that has a heightmap
        f.map_tile_offsets[(y * 64 + x) as usize] = 1;
        if holes {
            let mut hd = HolesData::new();
            for _ in 0..rng.below(6) {
                hd.set_hole(rng.below(16) as usize, rng.below(16) as usize, true);
            }
            f.holes_data.insert((x, y), hd);
        }
    }
}

fn wdl_vec(rng: &mut Rng) -> wow_wdl::types::Vec3d {
    wow_wdl::types::Vec3d::new(fcoord(rng), fcoord(rng), fcoord(rng))
}

fn make_wdl(v: u32, rng: &mut Rng) -> Result<Vec<u8>, String> {
    use wow_wdl::parser::WdlParser;
    use wow_wdl::types::*;
    use wow_wdl::version::WdlVersion;
    let (ver, file) = match v {
        // WotLK: tiles with MAHO holes + MWMO/MWID/MODF
        0 => {
            let mut f = WdlFile::with_version(WdlVersion::Wotlk);
            wdl_tiles(&mut f, rng, 12, true);
            let name = format!("World\\wmo\\c20\\{}.wmo", word(rng, 3, 8));
            f.wmo_filenames.push(name);
            f.wmo_indices.push(0);
            f.wmo_placements.push(ModelPlacement {
                id: rng.below(100000) as u32,
                wmo_id: 0,
                position: wdl_vec(rng),
                rotation: Vec3d::new(0.0, 0.0, 0.0),
                bounds: BoundingBox::new(Vec3d::new(-10.0, -10.0, -10.0), Vec3d::new(10.0, 10.0, 10.0)),
                flags: 0,
                doodad_set: 0,
                name_set: 0,
                padding: 0,
            });
            (WdlVersion::Wotlk, f)
        }
        // Vanilla: tiles, no holes, no model chunks
        1 => {
            let mut f = WdlFile::with_version(WdlVersion::Vanilla);
            wdl_tiles(&mut f, rng, 12, false);
            (WdlVersion::Vanilla, f)
        }
        // no tile at all
        2 => (WdlVersion::Wotlk, WdlFile::with_version(WdlVersion::Wotlk)),
        // Legion: tiles with holes + MLDD/MLDX/MLMD/MLMX
        _ => {
            let mut f = WdlFile::with_version(WdlVersion::Legion);
            wdl_tiles(&mut f, rng, 8, true);
            for _ in 0..(1 + rng.below(3)) {
                f.m2_placements.push(M2Placement {
                    id: rng.below(100000) as u32,
                    m2_id: rng.below(1 << 22) as u32,
                    position: wdl_vec(rng),
                    rotation: Vec3d::new(0.0, 0.0, 0.0),
                    scale: 1.0,
                    flags: 0,
                });
                f.m2_visibility.push(M2VisibilityInfo {
                    bounds: BoundingBox::new(Vec3d::new(-1.0, -1.0, -1.0), Vec3d::new(1.0, 1.0, 1.0)),
                    radius: 1.0 + rng.f32() * 50.0,
                });
            }
            f.wmo_legion_placements.push(M2Placement {
                id: rng.below(100000) as u32,
                m2_id: rng.below(1 << 22) as u32,
                position: wdl_vec(rng),
                rotation: Vec3d::new(0.0, 0.0, 0.0),
                scale: 1.0,
                flags: 0,
            });
            f.wmo_legion_visibility.push(M2VisibilityInfo {
                bounds: BoundingBox::new(Vec3d::new(-5.0, -5.0, -5.0), Vec3d::new(5.0, 5.0, 5.0)),
                radius: 9.0,
            });
            (WdlVersion::Legion, f)
        }
    };
    let mut cur = Cursor::new(Vec::new());
    WdlParser::with_version(ver).write(&mut cur, &file).map_err(|e| format!("WdlParser::write: {e:?}"))?;
    Ok(cur.into_inner())
}

// ------------------------------------------------------------------------------------------
// reference verdicts of the library
// ------------------------------------------------------------------------------------------

/// Same full-parse entry point as the CLI's `info` / `validate` for the kind, on a file in
/// `tmpdir`, opened the way the CLI opens it:
///   dbc       `DbcParser::parse(BufReader<File>)` + `parse_records()`          (dbc info)
///   blp       `wow_blp::parser::load_blp(path)`                                (blp info/validate)
///   m2        `M2Model::load(path)`                                            (m2 info/validate/tree/convert)
///   skin      `SkinFile::load(path)`                                           (m2 skin-info / skin-convert)
///   anim      `AnimFile::load(path)`                                           (m2 anim-info / anim-convert)
///   wmo_*     `parse_wmo_with_metadata(BufReader<File>)`                       (wmo info/validate/tree)
///   adt       `parse_adt_with_metadata(BufReader<File>)`                       (adt info/validate/tree/convert)
///   wdt       `WdtReader::new(BufReader<File>, WotLK).read()`                  (wdt info/validate/tiles/tree; WotLK = CLI default of --version)
///   wdl       `WdlParser::new().parse(BufReader<File>)`                        (wdl info/validate without --version)
pub fn lib_parse(kind: &str, bytes: &[u8], tmpdir: &Path) -> String {
    let tf = match TmpFile::new(tmpdir, extension(kind), bytes) {
        Ok(t) => t,
        Err(e) => return format!("tool:{e}"),
    };
    let p = tf.0.clone();
    let open = |p: &Path| File::open(p).map(BufReader::new);
    match kind {
        "dbc" => class(guarded(|| -> Result<(), wow_cdbc::Error> {
            let mut r = open(&p).map_err(wow_cdbc::Error::from)?;
            let parser = wow_cdbc::DbcParser::parse(&mut r)?;
            parser.parse_records()?;
            Ok(())
        })),
        "blp" => class(guarded(|| wow_blp::parser::load_blp(&p).map(|_| ()))),
        "m2" => class(guarded(|| wow_m2::M2Model::load(&p).map(|_| ()))),
        "skin" => class(guarded(|| wow_m2::SkinFile::load(&p).map(|_| ()))),
        "anim" => class(guarded(|| wow_m2::AnimFile::load(&p).map(|_| ()))),
        "wmo_root" | "wmo_group" => class(guarded(|| -> Result<(), wow_wmo::WmoError> {
            let mut r = open(&p).map_err(wow_wmo::WmoError::from)?;
            wow_wmo::parse_wmo_with_metadata(&mut r).map(|_| ())
        })),
        "adt" => class(guarded(|| -> Result<(), wow_adt::AdtError> {
            let mut r = open(&p).map_err(wow_adt::AdtError::from)?;
            wow_adt::parse_adt_with_metadata(&mut r).map(|_| ())
        })),
        "wdt" => class(guarded(|| -> Result<(), wow_wdt::error::Error> {
            let r = open(&p).map_err(wow_wdt::error::Error::from)?;
            wow_wdt::WdtReader::new(r, wow_wdt::version::WowVersion::WotLK).read().map(|_| ())
        })),
        "wdl" => class(guarded(|| -> Result<(), wow_wdl::error::WdlError> {
            let mut r = open(&p).map_err(wow_wdl::error::WdlError::Io)?;
            wow_wdl::parser::WdlParser::new().parse(&mut r).map(|_| ())
        })),
        _ => "tool:unknown-kind".into(),
    }
}

/// Messages of `WdtFile::validate()` for the bytes (None when they do not parse).
pub fn wdt_validate_messages(bytes: &[u8]) -> Option<Vec<String>> {
    match guarded(|| {
        wow_wdt::WdtReader::new(Cursor::new(bytes), wow_wdt::version::WowVersion::WotLK).read().ok().map(|w| w.validate())
    }) {
        Outcome::Done(v) => v,
        _ => None,
    }
}

/// Errors and warnings that the CLI's `blp validate` computes from a loaded image (the rules live
/// in /repo/warcraft-rs/src/commands/blp.rs `validate_blp`; wow-blp has no validate of its own).
/// Mirrors them on the library's parse result: returns (errors, warnings).
pub fn blp_rule_messages(bytes: &[u8], tmpdir: &Path, strict: bool) -> Option<(Vec<String>, Vec<String>)> {
    use wow_blp::types::BlpContent;
    let tf = TmpFile::new(tmpdir, "blp", bytes).ok()?;
    let p = tf.0.clone();
    let blp = match guarded(|| wow_blp::parser::load_blp(&p)) {
        Outcome::Done(Ok(b)) => b,
        _ => return None,
    };
    let mut errors = Vec::new();
    let mut warnings = Vec::new();
    if blp.header.width == 0 || blp.header.height == 0 {
        errors.push("Invalid dimensions (0 width or height)".to_string());
    }
    if !blp.header.width.is_power_of_two() || !blp.header.height.is_power_of_two() {
        if strict {
            errors.push("Dimensions are not powers of 2".to_string());
        } else {
            warnings.push("Dimensions are not powers of 2 (non-standard but may work)".to_string());
        }
    }
    if blp.header.has_mipmaps() {
        let expected = (blp.header.width.max(blp.header.height) as f32).log2() as usize + 1;
        let actual = blp.image_count();
        if actual < expected {
            warnings.push(format!("Incomplete mipmap chain: expected {expected} levels, got {actual}"));
        }
    }
    match &blp.content {
        BlpContent::Jpeg(j) => {
            if j.header.is_empty() {
                errors.push("JPEG header is empty".to_string());
            }
        }
        BlpContent::Dxt1(_) | BlpContent::Dxt3(_) | BlpContent::Dxt5(_) => {
            if blp.header.width % 4 != 0 || blp.header.height % 4 != 0 {
                errors.push("DXT format requires dimensions to be multiples of 4".to_string());
            }
        }
        _ => {}
    }
    Some((errors, warnings))
}

/// ("ok" | "err:<Variant>" | "panic", number of errors + warnings reported), or ("n/a", 0).
///   wdt       parse + `WdtFile::validate()`: "ok", number of messages (all of them; the CLI calls the ones
///             containing "Invalid" / "Missing required" errors, the rest warnings)
///   wdl       parse + `validation::validate_wdl_file`: "ok"/0 or "err:ValidationError"/1
///   m2        load + `M2Model::validate()`: "ok"/0 or "err:<Variant>"/1
///   anim      load + `AnimFile::validate()` (the CLI never calls it)
///   wmo_root  `WmoParser::parse_root` + `WmoValidator::validate_root`: errors + warnings of the report
///             (the CLI's `wmo validate` does NOT use the validator, it only parses)
///   blp       the rules of the CLI's `blp validate` (non-strict) applied to `load_blp`'s result: number of errors
///   others    ("n/a", 0)
/// When the bytes do not parse the parse verdict is returned with count 0.
pub fn lib_validate(kind: &str, bytes: &[u8], tmpdir: &Path) -> (String, i64) {
    match kind {
        "wdt" => {
            let r = guarded(|| {
                wow_wdt::WdtReader::new(Cursor::new(bytes), wow_wdt::version::WowVersion::WotLK).read().map(|w| w.validate())
            });
            match r {
                Outcome::Done(Ok(m)) => ("ok".into(), m.len() as i64),
                Outcome::Done(Err(e)) => (format!("err:{}", variant_name(&e)), 0),
                _ => ("panic".into(), 0),
            }
        }
        "wdl" => {
            let r = guarded(|| {
                wow_wdl::parser::WdlParser::new()
                    .parse(&mut Cursor::new(bytes))
                    .and_then(|f| wow_wdl::validation::validate_wdl_file(&f))
            });
            match r {
                Outcome::Done(Ok(())) => ("ok".into(), 0),
                Outcome::Done(Err(e)) => (format!("err:{}", variant_name(&e)), 1),
                _ => ("panic".into(), 0),
            }
        }
        "m2" => {
            let r = guarded(|| wow_m2::parse_m2(&mut Cursor::new(bytes)).and_then(|f| f.model().validate()));
            match r {
                Outcome::Done(Ok(())) => ("ok".into(), 0),
                Outcome::Done(Err(e)) => (format!("err:{}", variant_name(&e)), 1),
                _ => ("panic".into(), 0),
            }
        }
        "anim" => {
            let r = guarded(|| wow_m2::AnimFile::parse(&mut Cursor::new(bytes)).and_then(|f| f.validate()));
            match r {
                Outcome::Done(Ok(())) => ("ok".into(), 0),
                Outcome::Done(Err(e)) => (format!("err:{}", variant_name(&e)), 1),
                _ => ("panic".into(), 0),
            }
        }
        "wmo_root" => {
            let r = guarded(|| -> Result<i64, wow_wmo::WmoError> {
                let root = wow_wmo::WmoParser::new().parse_root(&mut Cursor::new(bytes))?;
                let rep = wow_wmo::WmoValidator::new().validate_root(&root)?;
                Ok((rep.error_count() + rep.warning_count()) as i64)
            });
            match r {
                Outcome::Done(Ok(n)) => ("ok".into(), n),
                Outcome::Done(Err(e)) => (format!("err:{}", variant_name(&e)), 0),
                _ => ("panic".into(), 0),
            }
        }
        "blp" => match blp_rule_messages(bytes, tmpdir, false) {
            Some((e, _w)) => ("ok".into(), e.len() as i64),
            None => (lib_parse("blp", bytes, tmpdir), 0),
        },
        _ => ("n/a".into(), 0),
    }
}

// ------------------------------------------------------------------------------------------
// damaged-but-parseable files
// ------------------------------------------------------------------------------------------

/// Files the library parses fine but which its (or the CLI's) validation rejects with an *error*:
///   blp   DXT1 image whose dimensions are not multiples of 4 (`blp validate` -> "DXT format requires
///         dimensions to be multiples of 4", exit 1)
///   m2    model without vertices (`M2Model::validate()` -> ValidationError "Model has no vertices";
///         `m2 validate` exits 1)
///   wmo_root  Classic-target root WITH a material: the writer's MOMT framing defect leaves stray bytes that the
///         parser files under unknown / malformed chunks; `wmo validate` still prints "valid", exit 0
///   skin  old-format skin with a submesh and a batch: loads, batch fields read back as garbage, nothing notices
///   wdt   None: `WdtFile::validate()` can only produce an "Invalid ..." message for `mver.version != 18`,
///         and `MverChunk::read` already rejects such a file (Error::InvalidVersion); no message ever
///         contains "Missing required". So the CLI's "✗ N error(s) found" branch of `wdt validate` is
///         unreachable from a file. See `make_warned_but_parseable("wdt")` for the warning branch.
pub fn make_invalid_but_parseable(kind: &str, rng: &mut Rng) -> Option<Vec<u8>> {
    let mut local = rng.clone();
    let _ = rng.next_u64();
    let kind_s = kind.to_string();
    match guarded(move || -> Option<Vec<u8>> {
        match kind_s.as_str() {
            "blp" => {
                use wow_blp::convert::{Blp2Format, BlpTarget, DxtAlgorithm};
                let spec = BlpSpec {
                    w: 6,
                    h: 10,
                    alpha: false,
                    mips: false,
                    target: BlpTarget::Blp2(Blp2Format::Dxt1 { has_alpha: false, compress_algorithm: DxtAlgorithm::RangeFit }),
                };
                encode_blp_spec(spec, &mut local).ok()
            }
            // Classic target WITH materials: MOMT declared 40 bytes/entry, 64 written (WmoWriter defect);
            // still "parses" (the stray bytes become unknown / malformed chunks) and `wmo validate` says valid.
            "wmo_root" => build_wmo_root(wow_wmo::WmoVersion::Classic, true, false, &mut local).ok(),
            // old-format skin with one submesh AND one batch: loads fine, but the batch reads back as garbage
            // (SkinG::write offset defect); no validator notices.
            "skin" => build_skin(0, true, &mut local).ok(),
            "m2" => {
                let mut model = wow_m2::M2Model::default();
                model.header = wow_m2::header::M2Header::new(wow_m2::M2Version::WotLK);
                model.name = Some(format!("C20_empty_{}", word(&mut local, 3, 6)));
                let mut cur = Cursor::new(Vec::new());
                model.write(&mut cur).ok()?;
                Some(cur.into_inner())
            }
            _ => None,
        }
    }) {
        Outcome::Done(v) => v,
        _ => None,
    }
}

/// Files that parse and make the validation report *warnings* only (exit status stays 0):
///   wdt   terrain map with MWMO (=> detected as pre-Cataclysm) carrying flags 0x0040 and 0x0080:
///         `validate()` returns 2 messages ("Flag 0x0040 present but not expected before Cataclysm",
///         "Flag 0x0080 (height texturing) present but not active before MoP"); the CLI prints
///         "ℹ 2 warning(s) (use -w to show)".
///   blp   non power-of-two raw image: "Dimensions are not powers of 2" (an error with --strict).
pub fn make_warned_but_parseable(kind: &str, rng: &mut Rng) -> Option<Vec<u8>> {
    let mut local = rng.clone();
    let _ = rng.next_u64();
    let kind_s = kind.to_string();
    match guarded(move || -> Option<Vec<u8>> {
        match kind_s.as_str() {
            "wdt" => {
                use wow_wdt::chunks::{MphdFlags, MwmoChunk};
                let mut w = wow_wdt::WdtFile::new(wow_wdt::version::WowVersion::WotLK);
                w.mphd.flags = MphdFlags::ADT_HAS_MCCV | MphdFlags::UNK_FIRELANDS | MphdFlags::ADT_HAS_HEIGHT_TEXTURING;
                wdt_set_tiles(&mut w, &mut local, 5);
                w.mwmo = Some(MwmoChunk::new());
                write_wdt(&w).ok()
            }
            "blp" => {
                use wow_blp::convert::{Blp2Format, BlpTarget};
                let spec = BlpSpec { w: 6, h: 10, alpha: true, mips: false, target: BlpTarget::Blp2(Blp2Format::Raw3) };
                encode_blp_spec(spec, &mut local).ok()
            }
            _ => None,
        }
    }) {
        Outcome::Done(v) => v,
        _ => None,
    }
}

/// Hand-made inputs on which the library PANICS (debug build) in the CLI's parse path; lib_parse says "panic".
///   wmo_group  MVER + MOGP whose declared size (40) is below the 68 byte header: `chunk_info.size - 68`
///              underflows in wow-wmo/src/group_parser.rs (parse_group_file); `wmo info|validate|tree` abort
///              with exit status 101.
/// Files that parse and pass the default validation but violate the rule an optional validate flag enforces:
///   blp  `--strict`: "dimensions are powers of two" must hold PER DIMENSION -- variant 0: only the width is not a power of
///        two (6x8), 1: only the height (8x6), 2: both (6x10); Raw3, no mipmaps
///   wdl  `--version WotLK`: a Legion file (ML* chunks) is not a valid pre-Legion file
pub fn make_flag_violating(kind: &str, variant: u32, rng: &mut Rng) -> Option<Vec<u8>> {
    match kind {
        "blp" => {
            use wow_blp::convert::{Blp2Format, BlpTarget};
            let (w, h) = [(6, 8), (8, 6), (6, 10)][variant as usize % 3];
            let mut local = rng.clone();
            let _ = rng.next_u64();
            match guarded(move || encode_blp_spec(BlpSpec { w, h, alpha: true, mips: false, target: BlpTarget::Blp2(Blp2Format::Raw3) }, &mut local).ok()) {
                Outcome::Done(v) => v,
                _ => None,
            }
        }
        "wdl" => make_valid("wdl", 3, rng).ok(),
        _ => None,
    }
}

/// The library-side verdict for a validate FLAG: "fail" if the rule the flag switches on is violated, "ok" if not, "n/a".
pub fn lib_validate_flag(kind: &str, flag: &str, bytes: &[u8], tmpdir: &Path) -> String {
    match (kind, flag) {
        ("blp", "strict") => match blp_rule_messages(bytes, tmpdir, true) {
            Some((e, _)) => if e.is_empty() { "ok".into() } else { "fail".into() },
            None => "n/a".into(),
        },
        ("wdl", "wotlk") => {
            let r = guarded(|| {
                wow_wdl::parser::WdlParser::with_version(wow_wdl::version::WdlVersion::Wotlk)
                    .parse(&mut Cursor::new(bytes))
                    .and_then(|f| wow_wdl::validation::validate_wdl_file(&f))
            });
            match r {
                Outcome::Done(Ok(())) => "ok".into(),
                Outcome::Done(Err(_)) => "fail".into(),
                _ => "n/a".into(),
            }
        }
        _ => "n/a".into(),
    }
}

pub fn make_known_crasher(kind: &str) -> Option<Vec<u8>> {
    match kind {
        "wmo_group" => {
            let mut b = Vec::new();
            b.extend_from_slice(b"REVM");
            b.extend_from_slice(&4u32.to_le_bytes());
            b.extend_from_slice(&17u32.to_le_bytes());
            b.extend_from_slice(b"PGOM");
            b.extend_from_slice(&40u32.to_le_bytes());
            b.extend_from_slice(&[0u8; 200]);
            Some(b)
        }
        _ => None,
    }
}
