"""C17 -- DBC tables survive write->parse and all access paths agree."""
import json
from vlib import core

META = {
    "disabled": False,
    "level": "model_checking",
    "level_text": "DbcLayout.tla is the arithmetic oracle of the WDBC layout (RecordSize, FieldCount as Schema::validate counts it, per-field offsets, "
                  "file = 20 + n*rs + string block), a model of string interning and of string references at every kind of offset (Locate), the iterator routes "
                  "(RouteIdx), column-name classes and key-column order classes, a writer/reader machine whose access paths compute record positions differently, "
                  "and the key lookup structures; the pre-fix behaviours of the code (field_count = fields.len(), strings inside arrays not interned, Int32 keys "
                  "ignored) are kept as named deviations. TLC checks on all schemas of <= 2 fields over 9 types x {scalar, array 1, array 3} that the size arithmetic "
                  "holds, interning is injective and duplicate-free, references resolve, paths agree, lookups are sound, plus constant-level laws (routes, stride, "
                  "Locate, names, key orders). TLC then enumerates table shapes and emits record size, field count, field offsets, routes, reference kinds, column "
                  "names, key columns and absent-key probes with each; the harness encodes the table byte by byte from those numbers and drives parse (eager, cached "
                  "strings, lazy by index / iterator incl. nth, skip, step_by, last, mmap, parallel), key lookups (hash, sorted + binary search), "
                  "DbcWriter::write_records and re-parse (also with cached strings); TLC validates every event, records per index.",
    "level_note": "Values and strings are compared as tokens of a canonical rendering (floats by bit pattern, strings by the text a reference denotes). quick: all 1- and "
                  "2-field schemas, a seed-rotated 1/41 of the 3-field schemas, 240 seed-rotated 4/5/6/12-field schemas, 8- and 24-field schemas with key "
                  "first/middle/last/absent and both key types, a key-order slice (5 order classes x n in {4,5,9,100}), n in {0..3,100,10^4}; per-index / route events for "
                  "tables of <= 128 records; thorough: all 19 683 3-field schemas and more long ones.",
    "technique": "TLA+ layout oracle and writer/reader machine (DbcLayout.tla) model-checked by TLC; TLC-emitted layouts drive a byte-level builder; "
                 "trace validation of wow-cdbc's parse / access paths / key lookups / writer by TLC",
    "design_ref": "DESIGN.md section 5, C13-C18 recipe and C17 paragraph",
    "crates": ["c17"],
}


def sig(b):
    r = b.get("reset") or {}
    return {"ev": b["ev"], "why": str(b.get("why", "")).strip('"'), "keyty": r.get("keyty"), "arrGt1": r.get("arrGt1"),
            "strInArr": r.get("strInArr"), "n0": r.get("n") == 0, "namecls": r.get("namecls"), "keyorder": r.get("keyorder")}


def run(ctx, cases_override=None):
    ctx.mc("MC_DbcLayout", timeout=900)
    if cases_override:
        cases, ncases = cases_override, sum(1 for _ in open(cases_override))
    else:
        cases, ncases = ctx.gen("Gen_DbcLayout", timeout=900)
    binary = ctx.build("c17")
    trace = ctx.harness(binary, cases)
    res = ctx.validate("Trace_DbcLayout", trace, timeout=1500)
    kinds, samples, shapes = {}, [], set()
    with open(trace) as f:
        for line in f:
            r = json.loads(line)
            kinds[r["ev"]] = kinds.get(r["ev"], 0) + 1
            if r["ev"] == "Reset":
                shapes.add((json.dumps(r["schema"]), r["key"], r["n"], r["strcls"]))
            if kinds[r["ev"]] <= 1:
                s = dict(r)
                for k in ("ents", "block"):
                    if isinstance(s.get(k), list):
                        s[k] = s[k][:4]
                samples.append(s)
    with open(cases) as f:
        first = [json.loads(x) for x in f.read().splitlines()[:2]]
    cov = {
        "traces_validated_against_impl": res["traces"],
        "samples": first + samples,
        "events_by_kind": kinds,
        "cases_generated_by_tlc": ncases,
        "evaluations": res["events"],
        "distinct_nontrivial": len(shapes),
        "rule": "one shape = (schema, key field, record count, string class); distinct by construction (TLC enumerates a set)",
        "exhaustive": False,
        "schemas_le2_fields_exhaustive": True,
    }
    assumptions = ["input tables are WDBC files whose string references lie inside the string block (start of a string, inside one, a terminator, offset 0, last byte)",
                   "the schema handed to parser and writer is the one the table was encoded with; column names are labels and may repeat",
                   "floats are compared by bit pattern; no NaN is generated"]
    return core.finish(ctx, "model_checking", cov, assumptions, res["bad"], sig_fn=sig, trace=trace)


def replay(ctx, payload):
    cases, _ = ctx.gen("Gen_DbcLayout", timeout=900)
    idx = int(str(payload.get("case", "0:")).split(":")[0])
    lines = open(cases).read().splitlines()
    sel = ctx.path("replay-cases.ndjson")
    pad = json.dumps({"kind": "dbc", "schema": [{"ty": "UInt8", "arr": 0}], "key": 0, "n": 0, "strcls": "plain", "rs": 1, "fc": 1, "offs": [0], "size0": 20})
    with open(sel, "w") as f:
        for i, l in enumerate(lines[:idx + 1]):
            f.write((l if i == idx else pad) + "\n")
    return run(ctx, cases_override=sel)
