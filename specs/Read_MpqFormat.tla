--------------------------- MODULE Read_MpqFormat ---------------------------
(* Direction 1 of C02, reference side: TLC evaluates the reference reader (MpqFormat!RefReadFile)  *)
(* on the bytes of archives written by the library and emits, per archive, the decoded header and  *)
(* per name the decoded sector lists (method byte | raw, payload) under the standard format and --  *)
(* where named deviations of the library can apply -- under every combination of them.  Payloads    *)
(* with a method byte are inflated by Python's zlib/bz2; the comparison with what was put into the  *)
(* archive is decided by TLC in Trace_MpqFormat.  Files whose sectors are all stored raw are        *)
(* compared byte for byte right here (field `rawsame`).                                            *)
EXTENDS MpqFormatHB, Json, IOUtils, TLC

Rec == ndJsonDeserialize(IOEnv.ARCH)

NoHeaderNat == [hsize |-> -1, asize |-> -1, ver |-> -1, shift |-> -1, htpos |-> -1, btpos |-> -1,
                htcount |-> -1, btcount |-> -1, hibt |-> -1, hthi |-> -1, bthi |-> -1, asize64 |-> -1, nohetbet |-> FALSE]

FileOut(fi) == [res |-> fi.res, flags |-> Hex32(fi.flags), pos |-> fi.pos, csize |-> fi.csize, fsize |-> fi.fsize,
                blk |-> fi.blk, single |-> fi.single, cflag |-> fi.cflag, enc |-> fi.enc,
                sectors |-> fi.sectors, stored |-> fi.stored, locale |-> fi.locale, platform |-> fi.platform, crc |-> fi.crc]

AllRaw(fi) == \A si \in 1..Len(fi.sectors) : fi.sectors[si].m = -1
RawSame(fi, data) ==
  IF fi.res # "ok" \/ ~AllRaw(fi) THEN "n/a"
  ELSE IF ConcatAll([si \in 1..Len(fi.sectors) |-> fi.sectors[si].p]) = data THEN "same" ELSE "differs"

\* std = decoding under the standard format; devs = decodings under every combination of the named
\* deviations that can matter for this file (smallest combination first)
DecodeName(bs, ar, ht, bt, nb, data) ==
  LET std   == RefReadFile(bs, ar, ht, bt, nb, Std)
      cands == IF std.pos < 0 THEN {}
               ELSE CandLabels(nb, std.enc, std.single, std.cflag, Has(std.flags, F_SECTORCRC), std.fsize, std.csize,
                               CeilDiv(std.fsize, SectorSize(ar.hn.shift)), "w")
      subs  == SubsetSeqs(cands)
  IN  [ nb |-> nb, std |-> FileOut(std), rawsame |-> RawSame(std, data),
        devs |-> [di \in 1..Len(subs) |->
                    LET dv == RefReadFile(bs, ar, ht, bt, nb, DialectOf(subs[di]))
                    IN  [labels |-> LabelSeq(subs[di]), v |-> FileOut(dv), rawsame |-> RawSame(dv, data)]] ]

\* a file that was added under a non-neutral locale: looked up by (name, locale); standard format only
DecodeLoc(bs, ar, ht, bt, lf) ==
  LET std == RefReadFileL(bs, ar, ht, bt, lf.nb, lf.locale, Std)
  IN  [nb |-> lf.nb, locale |-> lf.locale, std |-> FileOut(std), rawsame |-> RawSame(std, lf.data)]

Listfile == <<40,108,105,115,116,102,105,108,101,41>>       \* "(listfile)"

\* ---- growth round 4: V3/V4 archives ---------------------------------------------------------
\* Pass 1 (r.xpass = 1): only the two extended tables, decrypted; a compressed body goes to Python's zlib/bz2 and comes
\* back as r.hetplain / r.betplain for pass 2 (r.xpass = 0), which does everything else.
IsXBytes(bs) == LET base == FindHeader(bs) IN base >= 0 /\ U16At(bs, base + 12) \in {2, 3}
NoExt == [res |-> "none", version |-> -1, dsize |-> -1, stored |-> -1, m |-> -1, p |-> <<>>]
NoXOut == [isx |-> FALSE, hx |-> [asize64 |-> -1, betpos |-> -1, hetpos |-> -1, htsz |-> -1, btsz |-> -1, hibtsz |-> -1, hetsz |-> -1, betsz |-> -1, rawchunk |-> -1],
           xs |-> [hetsz |-> -1, betsz |-> -1], md5 |-> <<>>, hetbet |-> FALSE,
           hetext |-> [res |-> "none", dsize |-> -1, stored |-> -1, m |-> -1], betext |-> [res |-> "none", dsize |-> -1, stored |-> -1, m |-> -1],
           het |-> NoHet, bet |-> NoBet, agree |-> [std |-> FALSE, lib |-> FALSE], slots |-> [std |-> FALSE, lib |-> FALSE],
           files |-> <<>>, absent |-> <<>>]
Pass1(r) ==
  LET bs == r.bytes
      ar == OpenArchiveX(bs)
      has == r.res = "ok" /\ IsXBytes(bs) /\ ar.hx.hetpos > 0 /\ ar.hx.betpos > 0
      et == IF has THEN XTablesOfArchive(bs, ar) ELSE [het |-> NoExt, bet |-> NoExt]
  IN  [case |-> r.case, het |-> et.het, bet |-> et.bet]

\* the tables are usable under x-dialect xx only if everything the reference requires of them holds
XUsable(xt, hetext, betext, xx) ==
  /\ hetext.res = "ok" /\ betext.res = "ok"
  /\ HetConforms(xt.het, hetext.dsize, xx) /\ BetConforms(xt.bet, betext.dsize, xx) /\ HetBetAgree(xt.het, xt.bet, xx)
  /\ XSlotsOk(xt, xx)
XFile(bs, ar, xt, usable, nb, data, xx) ==
  IF ~usable THEN [v |-> FileOut(NoFile("badtables")), rawsame |-> "n/a"]
  ELSE LET fi == RefReadFileX(bs, ar.base, ar.hn.shift, xt, nb, Std, xx) IN [v |-> FileOut(fi), rawsame |-> RawSame(fi, data)]
DecodeX(r, bs, ar) ==
  LET hasx   == ar.hx.hetpos > 0 /\ ar.hx.betpos > 0
      et     == IF hasx THEN XTablesOfArchive(bs, ar) ELSE [het |-> NoExt, bet |-> NoExt]
      xt     == XTables(r.hetplain, r.betplain)
      slim(e) == [res |-> e.res, dsize |-> e.dsize, stored |-> e.stored, m |-> e.m]
      ustd   == hasx /\ XUsable(xt, et.het, et.bet, XStd)
      ulib   == hasx /\ XUsable(xt, et.het, et.bet, XLib)
      hdrs   == hasx /\ xt.het.res = "ok" /\ xt.bet.res = "ok"
  IN  [ isx |-> TRUE, hx |-> [fl \in DOMAIN ar.hx \ {"digests"} |-> ar.hx[fl]], xs |-> ar.xs, hetbet |-> hasx,
        \* the ranges the digests cover and the digests the header keeps; Python's hashlib computes MD5 of each range
        md5 |-> LET rgs == Md5Ranges(ar.hn, ar.hx) IN [gi \in 1..Len(rgs) |-> [what |-> rgs[gi].what, lo |-> ar.base + rgs[gi].lo, len |-> rgs[gi].len,
                                                                           want |-> ar.hx.digests[rgs[gi].what]]],
        hetext |-> slim(et.het), betext |-> slim(et.bet), het |-> xt.het, bet |-> xt.bet,
        agree |-> [std |-> hdrs /\ HetBetAgree(xt.het, xt.bet, XStd), lib |-> hdrs /\ HetBetAgree(xt.het, xt.bet, XLib)],
        slots |-> [std |-> ustd, lib |-> ulib],
        files |-> [fi \in 1..Len(r.files) |-> [nb |-> r.files[fi].nb, std |-> XFile(bs, ar, xt, ustd, r.files[fi].nb, r.files[fi].data, XStd),
                                                lib |-> XFile(bs, ar, xt, ulib, r.files[fi].nb, r.files[fi].data, XLib)]],
        absent |-> [ai \in 1..Len(r.absent) |-> [std |-> XFile(bs, ar, xt, ustd, r.absent[ai].nb, <<>>, XStd).v.res,
                                                  lib |-> XFile(bs, ar, xt, ulib, r.absent[ai].nb, <<>>, XLib).v.res]] ]

\* V3/V4: the header is judged by HeaderConformsX (trace spec, on the logged integers); the classic tables are decoded as for V1/V2
\* when their part of the header is usable
OpenAny(bs) ==
  IF IsXBytes(bs)
  THEN LET ax == OpenArchiveX(bs)
           okc == /\ \A fld \in {"hsize", "htpos", "btpos", "htcount", "btcount", "hibt"} : ax.hn[fld] >= 0
                  /\ ax.hn.htcount >= 1 /\ IsPow2(ax.hn.htcount)
                  /\ ax.hn.htpos + 16 * ax.hn.htcount <= ax.alen /\ ax.hn.btpos + 16 * ax.hn.btcount <= ax.alen
       IN  [res |-> IF okc THEN "ok" ELSE "noclassic", base |-> ax.base, alen |-> ax.alen, hn |-> ax.hn, hok |-> okc, isx |-> TRUE, ax |-> ax]
  ELSE OpenArchive(bs) @@ [isx |-> FALSE, ax |-> <<>>]

Decode(r) ==
  IF r.xpass = 1 THEN Pass1(r) ELSE
  IF r.res # "ok" THEN [case |-> r.case, open |-> "notbuilt", base |-> -1, alen |-> 0, hn |-> NoHeaderNat,
                        files |-> <<>>, locfiles |-> <<>>, absent |-> <<>>, listfile |-> <<>>, x |-> NoXOut]
  ELSE
  LET bs == r.bytes
      ar == OpenAny(bs)
      xo == IF ar.isx THEN DecodeX(r, bs, ar.ax) ELSE NoXOut
  IN  IF ar.res = "noheader"
      THEN [case |-> r.case, open |-> ar.res, base |-> -1, alen |-> 0, hn |-> NoHeaderNat,
            files |-> <<>>, locfiles |-> <<>>, absent |-> <<>>, listfile |-> <<>>, x |-> NoXOut]
      ELSE IF ar.res # "ok"
      THEN [case |-> r.case, open |-> ar.res, base |-> ar.base, alen |-> ar.alen, hn |-> ar.hn,
            files |-> <<>>, locfiles |-> <<>>, absent |-> <<>>, listfile |-> <<>>, x |-> xo]
      ELSE LET ht == HashTableOf(bs, ar.base, ar.hn)
               bt == BlockTableOf(bs, ar.base, ar.hn)
           IN  [ case |-> r.case, open |-> "ok", base |-> ar.base, alen |-> ar.alen, hn |-> ar.hn,
                 files  |-> [fi \in 1..Len(r.files) |-> DecodeName(bs, ar, ht, bt, r.files[fi].nb, r.files[fi].data)],
                 locfiles |-> [li \in 1..Len(r.locfiles) |-> DecodeLoc(bs, ar, ht, bt, r.locfiles[li])],
                 absent |-> [ai \in 1..Len(r.absent) |-> RefReadFile(bs, ar, ht, bt, r.absent[ai].nb, Std).res],
                 listfile |-> << DecodeName(bs, ar, ht, bt, Listfile, <<>>) >>, x |-> xo ]

Out == [ri \in 1..Len(Rec) |-> Decode(Rec[ri])]
ASSUME ndJsonSerialize(IOEnv.OUT, Out)
ASSUME PrintT(<<"DECODED", Len(Rec)>>)
=============================================================================
