--------------------------- MODULE IntegrityDefs ---------------------------
(* Constant-level part of the C10 specification: archive configurations, region kinds, which     *)
(* regions exist in / are protected by a configuration, and what an alteration can do.  Shared   *)
(* by Integrity (model), Gen_Integrity (case generation) and Trace_Integrity (verdict).          *)
EXTENDS Naturals, FiniteSets, Sequences, TLC

\* ------------------------------------------------------------------------------------------------
\* configurations and regions
\* ------------------------------------------------------------------------------------------------
AttrKinds == {"none", "crc32", "full"}
Cfgs == {c \in [ver : 1..4, crc : BOOLEAN, attrs : AttrKinds, enc : BOOLEAN, comp : BOOLEAN, signed : BOOLEAN] :
            c.signed => (c.ver = 1 /\ ~c.crc)}     \* the harness signs V1 archives without sector CRCs

\* region kinds; every archive holds one single-unit file ("s") and one multi-sector file ("m") whose
\* sectors are partly stored raw, partly compressed
FileRegions  == {"single_raw", "single_comp", "multi_offsets", "multi_raw", "multi_comp", "listfile"}
CheckRegions == {"crc_single", "crc_multi", "attributes", "sig_value"}
MetaRegions  == {"header", "hash", "block", "hiblock", "het", "bet"}
OtherRegions == {"sig_header", "gap", "prefix"}   \* prefix: bytes in front of an archive that does not start at offset 0
RegionKinds  == FileRegions \cup CheckRegions \cup MetaRegions \cup OtherRegions

MultiRegion(r)  == r \in {"multi_offsets", "multi_raw", "multi_comp"}
SingleRegion(r) == r \in {"single_raw", "single_comp", "listfile"}

Exists(c, r) ==
    CASE r = "single_raw"  -> ~c.comp
      [] r = "single_comp" -> c.comp
      [] r \in {"crc_single", "crc_multi"} -> c.crc
      [] r = "attributes"  -> c.attrs # "none"
      [] r \in {"sig_value", "sig_header"} -> c.signed
      [] r \in {"het", "bet"} -> c.ver >= 3
      [] r = "hiblock"     -> FALSE                 \* never written for archives < 4 GB
      [] OTHER -> TRUE

\* which bytes the archive's metadata claims to protect
Protected(c, r) ==
    CASE r \in FileRegions  -> c.crc \/ c.attrs # "none" \/ c.signed
      [] r \in {"crc_single", "crc_multi"} -> c.crc
      [] r = "attributes"   -> c.attrs # "none"
      [] r = "sig_value"    -> c.signed
      [] r \in MetaRegions  -> c.ver = 4 \/ c.signed
      [] r = "gap"          -> c.signed
      [] OTHER -> FALSE                              \* sig_header: excluded from the hash, not parsed

\* what one alteration inside a region can do to what a reader sees
\*   content      some file decodes to different bytes
\*   decode_fail  the codec rejects the stored bytes of a file / sector
\*   lookup       a file cannot be found or the archive cannot be opened
\*   benign       no reader-visible change (besides checksum values themselves)
Effects(r) ==
    CASE r \in {"single_raw", "multi_raw"}   -> {"content"}
      [] r \in {"single_comp", "multi_comp", "listfile"} -> {"content", "decode_fail"}
      [] r = "multi_offsets"                 -> {"content", "decode_fail", "benign"}
      [] r \in MetaRegions                   -> {"content", "lookup", "benign"}
      [] OTHER                               -> {"benign"}


\* The weak signature covers every byte of the hashed range except EXACTLY the signature area [slo, shi) (the 72-byte
\* (signature) entry, blanked before hashing); inside the area the last 64 bytes are the RSA value.  Nothing else -- in
\* particular not the position of the area relative to the 64 KiB digest units the hash is computed in -- matters.
\* The hashed range is the WHOLE archive [begin, end) wherever it starts in the file (begin = archive offset, end = begin +
\* archive size); bytes in front of / behind it are outside.
SigClass(off, begin, end, slo, shi) ==
    IF off < begin \/ off >= end THEN "outside"
    ELSE IF off < slo \/ off >= shi THEN "signed"
    ELSE IF off < slo + 8 THEN "sig_header" ELSE "sig_value"
SigMustFail(off, begin, end, slo, shi) == SigClass(off, begin, end, slo, shi) \in {"signed", "sig_value"}
\* The version-4 digests are functions of the whole header / table bytes: an intact table verifies whatever its size is
\* relative to any unit the implementation streams it in (Trace_Integrity!T_Intact applies to every archive size).

\* verdict over OBSERVED outcomes (used by Trace_Integrity): the judgement of Integrity!Sound on logged facts
ObsHolds(c, r, detected, unchanged) == Protected(c, r) => (detected \/ unchanged)
=============================================================================
