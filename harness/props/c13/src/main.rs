//! C13 driver: builds M2Model / SkinFile / AnimFile objects from the shapes TLC generated (distinct values
//! everywhere, derived from (shape, VERIF_SEED)), drives the crate's public writers / parsers / converters and
//! records what it observed: per-section content tokens, byte tokens, and the arrays an independent walker
//! finds in the produced bytes using ONLY the header positions and element sizes TLC emitted with the shape.
//! The driver records; Trace_M2Layout.tla decides.
use std::io::Cursor;
use wow_m2::anim::{
    AnimBoneAnimation, AnimEntry, AnimFile, AnimFormat, AnimHeader, AnimMetadata, AnimRotation, AnimScaling, AnimSection,
    AnimSectionHeader, AnimTranslation, LegacyStructureHints,
};
use wow_m2::chunks::animation::{M2Animation, M2AnimationBlock, M2AnimationTrack, M2InterpolationType, M2Range};
use wow_m2::chunks::attachment::M2Attachment;
use wow_m2::chunks::bone::{M2Bone, M2BoneFlags};
use wow_m2::chunks::camera::{M2Camera, M2CameraFlags};
use wow_m2::chunks::color_animation::{M2Color, M2ColorAnimation};
use wow_m2::chunks::event::M2Event;
use wow_m2::chunks::light::{M2Light, M2LightFlags, M2LightType};
use wow_m2::chunks::m2_track::{M2Track, M2TrackBase};
use wow_m2::chunks::material::{M2BlendMode, M2Material, M2RenderFlags};
use wow_m2::chunks::particle_emitter::M2ParticleEmitter;
use wow_m2::chunks::ribbon_emitter::M2RibbonEmitter;
use wow_m2::chunks::texture::{M2Texture, M2TextureFlags, M2TextureType};
use wow_m2::chunks::texture_animation::{M2TextureAnimation, M2TextureAnimationType};
use wow_m2::chunks::transparency_animation::M2TransparencyAnimation;
use wow_m2::chunks::vertex::M2Vertex;
use wow_m2::common::{C2Vector, C3Vector, FixedString, M2Array, M2ArrayString, M2Parse, M2Vec, Quaternion};
use wow_m2::header::{M2Header, M2ModelFlags};
use wow_m2::model::*;
use wow_m2::skin::{OldSkinHeader, SkinBatch, SkinFile, SkinG, SkinHeader, SkinSubmesh};
use wow_m2::{parse_m2, M2Converter, M2Format, M2Model, M2Version};
use wverif_common::*;

// ---------------------------------------------------------------------------------------------
// tokens: digest of the Debug rendering with every `*offset: <n>` projected away (offsets are derived
// positions, not content; the key-frame bytes they point at are tokenised separately as `<section>+`)
// ---------------------------------------------------------------------------------------------
fn elide_offsets(s: &str) -> String {
    let b = s.as_bytes();
    let mut o = String::with_capacity(s.len());
    let pat = b"offset: ";
    let mut i = 0;
    while i < b.len() {
        if b[i..].starts_with(pat) {
            o.push_str("offset: #");
            i += pat.len();
            if b[i..].starts_with(b"Some(") {
                i += 5;
                while i < b.len() && b[i].is_ascii_digit() {
                    i += 1;
                }
                i += 1; // ')'
            } else if b[i..].starts_with(b"None") {
                i += 4;
            } else {
                while i < b.len() && b[i].is_ascii_digit() {
                    i += 1;
                }
            }
        } else {
            o.push(b[i] as char);
            i += 1;
        }
    }
    o
}
fn ptok<T: std::fmt::Debug>(v: &T) -> String {
    tok(elide_offsets(&format!("{:?}", v)).as_bytes())
}
fn pair(t: String, x: String) -> Value {
    json!([t, x])
}
fn same<T: std::fmt::Debug>(v: &T) -> Value {
    let t = ptok(v);
    pair(t.clone(), t)
}

struct Vals {
    rng: Rng,
    extreme: bool,
    n: u32,
}
impl Vals {
    fn u(&mut self) -> u32 {
        self.n += 1;
        (self.rng.next_u32() & 0x7FFF_0000) | (self.n & 0xFFFF)
    }
    fn u16(&mut self) -> u16 {
        self.n += 1;
        (self.n as u16).wrapping_mul(257) ^ (self.rng.next_u32() as u16 & 0x0F00)
    }
    fn f(&mut self) -> f32 {
        self.n += 1;
        if self.extreme {
            const X: [f32; 8] = [f32::MAX, f32::MIN, f32::MIN_POSITIVE, -0.0, 1.0e-40, f32::INFINITY, f32::NEG_INFINITY, 16777217.0];
            let k = (self.n as usize + self.rng.below(8) as usize) % 10;
            if k < 8 {
                return X[k];
            }
        }
        self.n as f32 * 0.25 + self.rng.f32()
    }
    fn v3(&mut self) -> C3Vector {
        C3Vector { x: self.f(), y: self.f(), z: self.f() }
    }
    fn v2(&mut self) -> C2Vector {
        C2Vector { x: self.f(), y: self.f() }
    }
    fn col(&mut self) -> M2Color {
        M2Color { r: self.f(), g: self.f(), b: self.f() }
    }
    fn bytes(&mut self, n: usize) -> Vec<u8> {
        (0..n).map(|_| {
            self.n += 1;
            (self.n as u8) ^ self.rng.byte()
        }).collect()
    }
}

/// fake "original" offsets of key-frame blobs: distinct, far outside any file we write
/// `mode` is the aliasing pattern of the shape: 0 = every array has its own original offset, 1 = the tracks of one
/// element share one timestamps array (same (count, offset), same bytes -- what a parse of a real file yields when
/// several tracks point at one array), 2 = all tracks of all elements of a section share one timestamps array
struct Ctr {
    n: u32,
    mode: u8,
    pool: Option<(u32, Vec<u8>)>,
}
impl Ctr {
    fn new(mode: u8) -> Self {
        Ctr { n: 0x0100_0000, mode, pool: None }
    }
    fn next(&mut self) -> u32 {
        self.n += 0x100;
        self.n
    }
    fn begin_elem(&mut self, i: usize) {
        if self.mode == 1 || i == 0 {
            self.pool = None;
        }
    }
    /// offset and bytes of a timestamps array: the pooled one if the pattern says so, else `fresh`
    fn ts(&mut self, fresh: Vec<u8>) -> (u32, Vec<u8>) {
        if self.mode > 0 {
            if let Some(p) = &self.pool {
                return p.clone();
            }
        }
        let o = self.next();
        if self.mode > 0 {
            self.pool = Some((o, fresh.clone()));
        }
        (o, fresh)
    }
}
struct Blob {
    ranges: Vec<u8>,
    ts: Vec<u8>,
    vals: Vec<u8>,
    o_r: u32,
    o_t: u32,
    o_v: u32,
}
/// `am` = array presence mask of the track: bit 1 interpolation ranges, bit 2 timestamps, bit 4 values -- each array of the
/// track is present or absent INDEPENDENTLY. Absent arrays are (0,0) with no bytes, exactly what a parse yields for them.
fn blk<T: M2Parse + Clone>(vals: Vec<T>, v: &mut Vals, c: &mut Ctr, am: i64) -> (M2AnimationBlock<T>, Blob) {
    let n = vals.len() as u32;
    let (has_r, has_t, has_v) = (am & 1 != 0, am & 2 != 0, am & 4 != 0);
    let (o_r, o_v) = (c.next(), c.next());
    let mut vb = Vec::new();
    for x in &vals {
        x.write(&mut vb).unwrap();
    }
    let fresh: Vec<u8> = (0..n).flat_map(|i| (i * 33 + (v.u() & 0xF)).to_le_bytes()).collect();
    let (o_t, ts) = if has_t { c.ts(fresh) } else { (0, Vec::new()) };
    let ranges = v.bytes(8);
    let track = M2AnimationTrack {
        interpolation_type: M2InterpolationType::Linear,
        global_sequence: -1,
        interpolation_ranges: if has_r { M2Array::new(1, o_r) } else { M2Array::new(0, 0) },
        timestamps: if has_t { M2Array::new(n, o_t) } else { M2Array::new(0, 0) },
        values: if has_v { M2Vec { array: M2Array::new(n, o_v), data: vals } } else { M2Vec::new() },
    };
    (M2AnimationBlock::new(track), Blob {
        ranges: if has_r { ranges } else { Vec::new() }, ts, vals: if has_v { vb } else { Vec::new() },
        o_r: if has_r { o_r } else { 0 }, o_t, o_v: if has_v { o_v } else { 0 } })
}
macro_rules! ab {
    ($kf:expr, $am:expr, $v:expr, $c:expr, $raws:expr, $Raw:ident, $idxf:ident, $idx:expr, $tt:expr, $mk:expr) => {{
        if $kf && ($am & 7) != 0 {
            let vals = vec![$mk, $mk];
            let (b, bl) = blk(vals, $v, $c, $am);
            // the object carries the raw bytes of every track that has ANY non-empty array (what M2Layout!ArraysPreserved
            // demands of a parse; the crate's collect_*_track_data skipped ranges-only tracks: C13-RANGES-ONLY-TRACK-DROPPED)
            if ($am & 7) != 0 {
            $raws.push($Raw {
                $idxf: $idx,
                track_type: $tt,
                interpolation_ranges: bl.ranges,
                timestamps: bl.ts,
                values: bl.vals,
                original_ranges_offset: bl.o_r,
                original_timestamps_offset: bl.o_t,
                original_values_offset: bl.o_v,
            });
            }
            b
        } else {
            M2AnimationBlock::default()
        }
    }};
}

fn version_of(name: &str) -> M2Version {
    match name {
        "Vanilla" => M2Version::Vanilla,
        "TBC" => M2Version::TBC,
        "WotLK" => M2Version::WotLK,
        "Cataclysm" => M2Version::Cataclysm,
        "MoP" => M2Version::MoP,
        "Legion" => M2Version::Legion,
        _ => tool_error("unknown version"),
    }
}

fn card(c: &Value, sec: &str) -> usize {
    c["card"][sec].as_u64().unwrap_or_else(|| tool_error(&format!("card {sec} missing"))) as usize
}

fn bone_track<T>(kf: bool, am: i64, vn: u32, elem: usize, v: &mut Vals, c: &mut Ctr, raws: &mut Vec<BoneAnimationRaw>, bi: usize, tt: TrackType) -> M2Track<T> {
    let pre = vn < 264;
    let (has_r, has_t, has_v) = (pre && am & 1 != 0, am & 2 != 0, am & 4 != 0);
    if !kf || !(has_r || has_t || has_v) {
        return M2Track {
            base: M2TrackBase { interpolation_type: M2InterpolationType::None, global_sequence: 65535 },
            ranges: if pre { Some(M2Array::new(0, 0)) } else { None },
            timestamps: M2Array::new(0, 0),
            values: M2Array::new(0, 0),
        };
    }
    let (o_v, o_r) = (c.next(), c.next());
    let fresh: Vec<u8> = (0..2u32).flat_map(|i| (i * 40 + (v.u() & 0xF)).to_le_bytes()).collect();
    let (o_t, ts) = if has_t { c.ts(fresh) } else { (0, Vec::new()) };
    let vals = if has_v { v.bytes(2 * elem) } else { Vec::new() };
    let ranges = v.bytes(8);
    // raw bytes for every bone track with any non-empty array (see the note in the ab! macro)
    if has_r || has_t || has_v {
        raws.push(BoneAnimationRaw {
            bone_index: bi,
            track_type: tt,
            timestamps: ts,
            values: vals,
            ranges: if has_r { Some(ranges) } else { None },
            original_timestamps_offset: o_t,
            original_values_offset: if has_v { o_v } else { 0 },
            original_ranges_offset: if has_r { Some(o_r) } else { None },
        });
    }
    M2Track {
        base: M2TrackBase { interpolation_type: M2InterpolationType::Linear, global_sequence: 65535 },
        ranges: if pre { Some(if has_r { M2Array::new(1, o_r) } else { M2Array::new(0, 0) }) } else { None },
        timestamps: if has_t { M2Array::new(2, o_t) } else { M2Array::new(0, 0) },
        values: if has_v { M2Array::new(2, o_v) } else { M2Array::new(0, 0) },
    }
}

fn build_model(c: &Value, seed: u64, label: &str) -> M2Model {
    let ver = version_of(gs(c, "ver"));
    let vn = gi(c, "vn") as u32;
    // per-element presence pattern: element i of every animated section carries key frames iff bit (i mod 3) of kfmask
    let kfmask = c.get("kfmask").and_then(|x| x.as_i64()).unwrap_or(if gb(c, "kf") { 7 } else { 0 });
    let kfe = |i: usize| (kfmask >> (i % 3)) & 1 == 1;
    // array presence mask (bit 1 ranges, 2 timestamps, 4 values) of every track of element i; -1 = the default shape
    // (all arrays present; event ranges only below 264); `arot` rotates the mask over the elements
    let amask = c.get("amask").and_then(|x| x.as_i64()).unwrap_or(-1);
    let arot = c.get("arot").and_then(|x| x.as_bool()).unwrap_or(false);
    let ame = |i: usize| if amask < 0 { 7 } else if arot { (amask + 3 * i as i64) % 8 } else { amask };
    let alias = c.get("alias").and_then(|x| x.as_i64()).unwrap_or(0) as u8;
    let mut v = Vals { rng: Rng::derive(seed, label), extreme: gs(c, "floats") == "extreme", n: 0 };
    let mut ctr = Ctr::new(alias);
    let mut m = M2Model::default();
    m.header = M2Header::new(ver);
    m.header.flags = M2ModelFlags::TILT_X | M2ModelFlags::HAS_BONES;
    m.header.bounding_box_min = [v.f(), v.f(), v.f()];
    m.header.bounding_box_max = [v.f(), v.f(), v.f()];
    m.header.bounding_sphere_radius = v.f();
    m.header.collision_box_min = [v.f(), v.f(), v.f()];
    m.header.collision_box_max = [v.f(), v.f(), v.f()];
    m.header.collision_sphere_radius = v.f();
    // string lengths: the `strings` slice of the generator fixes them ({0,1,260,261,1024}); -1 = derive from the cardinality
    let namelen = c.get("namelen").and_then(|x| x.as_i64()).unwrap_or(-1);
    let texlen = c.get("texlen").and_then(|x| x.as_i64()).unwrap_or(-1);
    let text = |v: &mut Vals, n: usize| -> String { (0..n).map(|i| (b'A' + ((i * 7 + i / 26 + v.u() as usize % 5) % 26) as u8) as char).collect() };
    m.name = match (card(c, "name"), namelen) {
        (0, _) => None,
        (_, n) if n >= 0 => Some(text(&mut v, n as usize)),
        (1, _) => Some(format!("Mdl{}", v.u() % 1000)),
        _ => Some(text(&mut v, 300)),
    };
    m.global_sequences = (0..card(c, "global_sequences")).map(|_| v.u()).collect();
    for _ in 0..card(c, "animations") {
        let old = vn <= 256;
        m.animations.push(M2Animation {
            animation_id: v.u16(),
            sub_animation_id: v.u16(),
            start_timestamp: v.u(),
            end_timestamp: if old { Some(v.u()) } else { None },
            movement_speed: v.f(),
            flags: v.u(),
            frequency: v.u16() as i16,
            padding: v.u16(),
            replay: if old { Some(M2Range { minimum: v.f(), maximum: v.f() }) } else { None },
            minimum_extent: if old { None } else { Some([v.f(), v.f(), v.f()]) },
            maximum_extent: if old { None } else { Some([v.f(), v.f(), v.f()]) },
            extent_radius: if old { None } else { Some(v.f()) },
            next_animation: if old { None } else { Some(v.u16() as i16) },
            aliasing: if old { None } else { Some(v.u16()) },
        });
    }
    m.animation_lookup = (0..card(c, "animation_lookup")).map(|_| v.u16()).collect();
    let nb = card(c, "bones");
    for bi in 0..nb {
        let kf = kfe(bi);
        let am = ame(bi);
        ctr.begin_elem(bi);
        let translation = bone_track(kf, am, vn, 12, &mut v, &mut ctr, &mut m.raw_data.bone_animation_data, bi, TrackType::Translation);
        let rotation = bone_track(kf, am, vn, 8, &mut v, &mut ctr, &mut m.raw_data.bone_animation_data, bi, TrackType::Rotation);
        let scale = bone_track(kf, am, vn, 12, &mut v, &mut ctr, &mut m.raw_data.bone_animation_data, bi, TrackType::Scale);
        m.bones.push(M2Bone {
            bone_id: (v.u() % 500) as i32,
            flags: M2BoneFlags::from_bits_retain(v.u() & 0x3FF),
            parent_bone: bi as i16 - 1,
            submesh_id: v.u16(),
            unknown: [0, 0],
            bone_name_crc: if vn >= 260 { Some(v.u()) } else { None },
            translation,
            rotation,
            scale,
            pivot: v.v3(),
        });
    }
    m.key_bone_lookup = (0..card(c, "key_bone_lookup")).map(|_| v.u16()).collect();
    for i in 0..card(c, "vertices") {
        let bidx = if nb > 0 { (i % nb) as u8 } else { 0 };
        m.vertices.push(M2Vertex {
            position: v.v3(),
            bone_weights: [200, 55, (v.u() & 0x3F) as u8, 0],
            bone_indices: [bidx, 0, 0, 0],
            normal: v.v3(),
            tex_coords: v.v2(),
            tex_coords2: Some(v.v2()),
        });
    }
    for i in 0..card(c, "textures") {
        // the second texture of three is a "hardcoded" one without a file name
        let named = i != 1;
        let data: Vec<u8> = if !named { Vec::new() } else if texlen >= 0 { text(&mut v, texlen as usize).into_bytes() } else { format!("Tex\\Dir{}\\t{}.blp", v.u() % 97, i).into_bytes() };
        let array = if named { M2Array::new(data.len() as u32 + 1, ctr.next()) } else { M2Array::new(0, 0) };
        m.textures.push(M2Texture {
            texture_type: if named { M2TextureType::Hardcoded } else { M2TextureType::Body },
            flags: M2TextureFlags::from_bits_retain(v.u() & 3),
            filename: M2ArrayString { string: FixedString { data }, array },
        });
    }
    for _ in 0..card(c, "materials") {
        m.materials.push(M2Material {
            flags: M2RenderFlags::from_bits_retain(v.u16() & 0x1F),
            blend_mode: M2BlendMode::from_bits_retain(v.u16() & 7),
        });
    }
    let r = &mut m.raw_data;
    r.bone_lookup_table = (0..card(c, "bone_lookup_table")).map(|_| v.u16()).collect();
    r.texture_lookup_table = (0..card(c, "texture_lookup_table")).map(|_| v.u16()).collect();
    r.texture_units = (0..card(c, "texture_units")).map(|_| v.u16()).collect();
    r.transparency_lookup_table = (0..card(c, "transparency_lookup_table")).map(|_| v.u16()).collect();
    r.texture_animation_lookup = (0..card(c, "texture_animation_lookup")).map(|_| v.u16()).collect();
    r.attachment_lookup_table = (0..card(c, "attachment_lookup_table")).map(|_| v.u16()).collect();
    r.camera_lookup_table = (0..card(c, "camera_lookup_table")).map(|_| v.u16()).collect();
    r.bounding_triangles = v.bytes(2 * 3 * card(c, "bounding_triangles"));
    r.bounding_vertices = v.bytes(12 * card(c, "bounding_vertices"));
    r.bounding_normals = v.bytes(12 * card(c, "bounding_normals"));
    if vn <= 263 {
        let sub = if vn < 260 { 32 } else { 48 };
        for k in 0..card(c, "views") {
            let n = 1 + 2 * k; // 1, 3, 5 elements in the sub-arrays of successive views
            let mut mv = vec![0u8; 44];
            mv[40..44].copy_from_slice(&(v.u() % 256).to_le_bytes());
            r.embedded_skins.push(EmbeddedSkinRaw {
                model_view: mv,
                indices: v.bytes(2 * n),
                triangles: v.bytes(2 * 3 * n),
                properties: v.bytes(4 * n),
                submeshes: v.bytes(sub * n),
                batches: v.bytes(24 * n),
                original_model_view_offset: ctr.next(),
                original_indices_offset: ctr.next(),
                original_triangles_offset: ctr.next(),
                original_properties_offset: ctr.next(),
                original_submeshes_offset: ctr.next(),
                original_batches_offset: ctr.next(),
            });
        }
    }
    for i in 0..card(c, "particle_emitters") {
        let kf = kfe(i);
        let am = ame(i);
        ctr.begin_elem(i);
        let mut e = M2ParticleEmitter::parse(&mut Cursor::new(vec![0u8; 4096]), vn).unwrap_or_else(|e| tool_error(&format!("zero emitter: {e:?}")));
        e.id = v.u();
        e.position = v.v3();
        e.bone_index = v.u16();
        e.texture_index = v.u16();
        e.parent_emitter = v.u16();
        e.geometry_model_unknown = v.u16();
        e.blending_type = (v.u() % 7) as u8;
        e.particle_type = (v.u() % 3) as u8;
        e.head_or_tail = (v.u() % 3) as u8;
        macro_rules! fl { ($($f:ident),*) => { $( e.$f = v.f(); )* } }
        fl!(lifetime, emission_rate, emission_area_length, emission_area_width, emission_velocity, min_lifetime, max_lifetime,
            min_emission_rate, max_emission_rate, min_emission_area_length, max_emission_area_length, min_emission_area_width,
            max_emission_area_width, min_emission_velocity, max_emission_velocity, position_variation, min_position_variation,
            max_position_variation, initial_size, min_initial_size, max_initial_size, size_variation, min_size_variation,
            max_size_variation, horizontal_range, min_horizontal_range, max_horizontal_range, vertical_range, min_vertical_range,
            max_vertical_range, gravity, min_gravity, max_gravity, initial_velocity, min_initial_velocity, max_initial_velocity,
            speed_variation, min_speed_variation, max_speed_variation, rotation_speed, min_rotation_speed, max_rotation_speed,
            initial_rotation, min_initial_rotation, max_initial_rotation, color_animation_speed, color_median_time,
            lifespan_unused, emission_rate_unused, unknown_2);
        e.mid_point_color = v.col();
        e.unknown_1 = v.u();
        let rs = &mut r.particle_animation_data;
        use ParticleTrackType as P;
        e.emission_speed_animation = ab!(kf, am, &mut v, &mut ctr, rs, ParticleAnimationRaw, emitter_index, i, P::EmissionSpeed, v.f());
        e.emission_rate_animation = ab!(kf, am, &mut v, &mut ctr, rs, ParticleAnimationRaw, emitter_index, i, P::EmissionRate, v.f());
        e.emission_area_animation = ab!(kf, am, &mut v, &mut ctr, rs, ParticleAnimationRaw, emitter_index, i, P::EmissionArea, v.f());
        e.xy_scale_animation = ab!(kf, am, &mut v, &mut ctr, rs, ParticleAnimationRaw, emitter_index, i, P::XYScale, v.v2());
        e.z_scale_animation = ab!(kf, am, &mut v, &mut ctr, rs, ParticleAnimationRaw, emitter_index, i, P::ZScale, v.f());
        e.color_animation = ab!(kf, am, &mut v, &mut ctr, rs, ParticleAnimationRaw, emitter_index, i, P::Color, v.col());
        e.transparency_animation = ab!(kf, am, &mut v, &mut ctr, rs, ParticleAnimationRaw, emitter_index, i, P::Transparency, v.f());
        e.size_animation = ab!(kf, am, &mut v, &mut ctr, rs, ParticleAnimationRaw, emitter_index, i, P::Size, v.f());
        e.intensity_animation = ab!(kf, am, &mut v, &mut ctr, rs, ParticleAnimationRaw, emitter_index, i, P::Intensity, v.f());
        e.z_source_animation = ab!(kf, am, &mut v, &mut ctr, rs, ParticleAnimationRaw, emitter_index, i, P::ZSource, v.f());
        m.particle_emitters.push(e);
    }
    for i in 0..card(c, "ribbon_emitters") {
        let kf = kfe(i);
        let am = ame(i);
        ctr.begin_elem(i);
        let rs = &mut r.ribbon_animation_data;
        use RibbonTrackType as R;
        m.ribbon_emitters.push(M2RibbonEmitter {
            bone_index: v.u() % 64,
            position: v.v3(),
            texture_indices: M2Array::new(0, 0),
            material_indices: M2Array::new(0, 0),
            color_animation: ab!(kf, am, &mut v, &mut ctr, rs, RibbonAnimationRaw, emitter_index, i, R::Color, v.col()),
            alpha_animation: ab!(kf, am, &mut v, &mut ctr, rs, RibbonAnimationRaw, emitter_index, i, R::Alpha, v.f()),
            height_above_animation: ab!(kf, am, &mut v, &mut ctr, rs, RibbonAnimationRaw, emitter_index, i, R::HeightAbove, v.f()),
            height_below_animation: ab!(kf, am, &mut v, &mut ctr, rs, RibbonAnimationRaw, emitter_index, i, R::HeightBelow, v.f()),
            edges_per_second: v.f(),
            edge_lifetime: v.f(),
            gravity: v.f(),
            texture_rows: v.u16(),
            texture_cols: v.u16(),
            texture_slice: if vn >= 272 { Some(v.u16()) } else { None },
            variation: if vn >= 272 { Some(v.u16()) } else { None },
            id: v.u(),
            flags: v.u(),
        });
    }
    for i in 0..card(c, "texture_animations") {
        let kf = kfe(i);
        let am = ame(i);
        ctr.begin_elem(i);
        let rs = &mut r.texture_animation_data;
        use TextureTrackType as T;
        m.texture_animations.push(M2TextureAnimation {
            animation_type: [M2TextureAnimationType::Scroll, M2TextureAnimationType::Rotate, M2TextureAnimationType::Scale][i % 3],
            translation_u: ab!(kf, am, &mut v, &mut ctr, rs, TextureAnimationRaw, animation_index, i, T::TranslationU, v.f()),
            translation_v: ab!(kf, am, &mut v, &mut ctr, rs, TextureAnimationRaw, animation_index, i, T::TranslationV, v.f()),
            rotation: ab!(kf, am, &mut v, &mut ctr, rs, TextureAnimationRaw, animation_index, i, T::Rotation, v.f()),
            scale_u: ab!(kf, am, &mut v, &mut ctr, rs, TextureAnimationRaw, animation_index, i, T::ScaleU, v.f()),
            scale_v: ab!(kf, am, &mut v, &mut ctr, rs, TextureAnimationRaw, animation_index, i, T::ScaleV, v.f()),
        });
    }
    for i in 0..card(c, "color_animations") {
        let kf = kfe(i);
        let am = ame(i);
        ctr.begin_elem(i);
        let rs = &mut r.color_animation_data;
        m.color_animations.push(M2ColorAnimation {
            color: ab!(kf, am, &mut v, &mut ctr, rs, ColorAnimationRaw, animation_index, i, ColorTrackType::Color, v.col()),
            alpha: ab!(kf, am, &mut v, &mut ctr, rs, ColorAnimationRaw, animation_index, i, ColorTrackType::Alpha, v.u16()),
        });
    }
    for i in 0..card(c, "transparency_animations") {
        let kf = kfe(i);
        let am = ame(i);
        ctr.begin_elem(i);
        let rs = &mut r.transparency_animation_data;
        m.transparency_animations.push(M2TransparencyAnimation {
            alpha: ab!(kf, am, &mut v, &mut ctr, rs, TransparencyAnimationRaw, animation_index, i, TransparencyTrackType::Alpha, v.f()),
        });
    }
    for i in 0..card(c, "events") {
        let kf = kfe(i);
        let am = ame(i);
        ctr.begin_elem(i);
        let mut e = M2Event::new([b'$', b'E', b'0' + i as u8, b'A' + (v.u() % 26) as u8], (v.u() % 40) as i16);
        e.data = v.u();
        e.unknown = v.u16();
        e.position = [v.f(), v.f(), v.f()];
        e.interp_type = 1;
        let (ev_r, ev_t) = if amask < 0 { (vn < 264, true) } else { (am & 1 != 0, am & 2 != 0) };
        if kf && (ev_r || ev_t) {
            let o_r = ctr.next();
            let fresh: Vec<u8> = (0..2u32).flat_map(|k| (k * 50 + (v.u() & 0xF)).to_le_bytes()).collect();
            let (o_t, ts) = if ev_t { ctr.ts(fresh) } else { (0, Vec::new()) };
            let ranges = if ev_r { v.bytes(8) } else { Vec::new() };
            e.ranges = if ev_r { M2Array::new(1, o_r) } else { M2Array::new(0, 0) };
            e.times = if ev_t { M2Array::new(2, o_t) } else { M2Array::new(0, 0) };
            // the parser keeps an event's raw bytes iff it has ranges or timestamps (collect_event_data)
            r.event_data.push(EventRaw {
                event_index: i,
                ranges,
                original_ranges_offset: if ev_r { o_r } else { 0 },
                timestamps: ts,
                original_timestamps_offset: o_t,
            });
        }
        m.events.push(e);
    }
    for i in 0..card(c, "attachments") {
        let kf = kfe(i);
        let am = ame(i);
        ctr.begin_elem(i);
        let rs = &mut r.attachment_animation_data;
        m.attachments.push(M2Attachment {
            id: v.u() % 60,
            bone_index: (v.u() % 90) as i32,
            position: v.v3(),
            scale_animation: ab!(kf, am, &mut v, &mut ctr, rs, AttachmentAnimationRaw, attachment_index, i, AttachmentTrackType::Scale, v.f()),
        });
    }
    for i in 0..card(c, "cameras") {
        let kf = kfe(i);
        let am = ame(i);
        ctr.begin_elem(i);
        let rs = &mut r.camera_animation_data;
        use CameraTrackType as C;
        m.cameras.push(M2Camera {
            camera_type: v.u() % 3,
            fov: v.f(),
            far_clip: v.f(),
            near_clip: v.f(),
            position_animation: ab!(kf, am, &mut v, &mut ctr, rs, CameraAnimationRaw, camera_index, i, C::Position, v.v3()),
            position_base: v.v3(),
            target_position_animation: ab!(kf, am, &mut v, &mut ctr, rs, CameraAnimationRaw, camera_index, i, C::TargetPosition, v.v3()),
            target_position_base: v.v3(),
            roll_animation: ab!(kf, am, &mut v, &mut ctr, rs, CameraAnimationRaw, camera_index, i, C::Roll, v.f()),
            id: if vn >= 264 { v.u() } else { 0 },
            flags: if vn >= 264 { M2CameraFlags::from_bits_retain(v.u16() & 3) } else { M2CameraFlags::empty() },
        });
    }
    for i in 0..card(c, "lights") {
        let kf = kfe(i);
        let am = ame(i);
        ctr.begin_elem(i);
        let rs = &mut r.light_animation_data;
        use LightTrackType as L;
        m.lights.push(M2Light {
            light_type: [M2LightType::Directional, M2LightType::Point, M2LightType::Spot][i % 3],
            bone_index: v.u16(),
            position: v.v3(),
            ambient_color_animation: ab!(kf, am, &mut v, &mut ctr, rs, LightAnimationRaw, light_index, i, L::AmbientColor, v.col()),
            diffuse_color_animation: ab!(kf, am, &mut v, &mut ctr, rs, LightAnimationRaw, light_index, i, L::DiffuseColor, v.col()),
            attenuation_start_animation: ab!(kf, am, &mut v, &mut ctr, rs, LightAnimationRaw, light_index, i, L::AttenuationStart, v.f()),
            attenuation_end_animation: ab!(kf, am, &mut v, &mut ctr, rs, LightAnimationRaw, light_index, i, L::AttenuationEnd, v.f()),
            visibility_animation: ab!(kf, am, &mut v, &mut ctr, rs, LightAnimationRaw, light_index, i, L::Visibility, v.f()),
            id: v.u(),
            flags: M2LightFlags::from_bits_retain(v.u16() & 3),
        });
    }
    m
}

// cross-version projections of the version-gated sections (common fields only)
fn x_anims(a: &[M2Animation]) -> String {
    ptok(&a.iter().map(|a| (a.animation_id, a.sub_animation_id, a.movement_speed.to_bits(), a.flags, a.frequency, a.padding)).collect::<Vec<_>>())
}
fn x_track<T>(t: &M2Track<T>) -> (u16, u16, u32, u32) {
    (t.base.interpolation_type as u16, t.base.global_sequence, t.timestamps.count, t.values.count)
}
fn x_bones(b: &[M2Bone]) -> String {
    ptok(&b.iter().map(|b| (b.bone_id, b.flags.bits(), b.parent_bone, b.submesh_id, x_track(&b.translation), x_track(&b.rotation), x_track(&b.scale), format!("{:?}", b.pivot))).collect::<Vec<_>>())
}
fn x_bonekf(r: &[BoneAnimationRaw]) -> String {
    // cross-version: timestamps and values only; a track that has nothing but ranges does not exist from WotLK on
    ptok(&r.iter().filter(|r| !(r.timestamps.is_empty() && r.values.is_empty())).map(|r| (r.bone_index, format!("{:?}", r.track_type), r.timestamps.clone(), r.values.clone())).collect::<Vec<_>>())
}
fn x_cameras(cs: &[M2Camera]) -> String {
    ptok(&cs.iter().map(|c| (c.camera_type, c.fov.to_bits(), c.far_clip.to_bits(), c.near_clip.to_bits(), format!("{:?}{:?}{:?}{:?}{:?}", c.position_animation, c.position_base, c.target_position_animation, c.target_position_base, c.roll_animation))).collect::<Vec<_>>())
}
fn x_ribbons(rs: &[M2RibbonEmitter]) -> String {
    ptok(&rs.iter().map(|r| { let mut q = r.clone(); q.texture_slice = None; q.variation = None; q }).collect::<Vec<_>>())
}
fn x_particles(ps: &[M2ParticleEmitter]) -> String {
    ptok(&ps.iter().map(|p| (p.id, p.flags.bits(), format!("{:?}", p.position), p.bone_index, p.texture_index, p.lifetime.to_bits(), p.emission_rate.to_bits(), p.gravity.to_bits(), p.unknown_1,
        format!("{:?}{:?}{:?}", p.emission_speed_animation, p.color_animation, p.z_source_animation))).collect::<Vec<_>>())
}
fn views_tok(es: &[EmbeddedSkinRaw]) -> Value {
    same(&es.iter().map(|e| (e.model_view.get(40..44).map(|s| s.to_vec()), e.indices.clone(), e.triangles.clone(), e.properties.clone(), e.batches.clone())).collect::<Vec<_>>())
}
fn views_sub_tok(es: &[EmbeddedSkinRaw], vn: u32) -> Value {
    // full token: the raw records; cross-version token: the fields the 32-byte (Vanilla) and the 48-byte (TBC) record share
    let size = if vn < 260 { 32 } else { 48 };
    let common: Vec<Vec<Vec<u8>>> = es.iter().map(|e| e.submeshes.chunks_exact(size).map(|r| {
        let mut c = r[0..16].to_vec();
        if size == 32 { c.extend_from_slice(&r[16..32]); } else { c.extend_from_slice(&r[20..32]); c.extend_from_slice(&r[44..48]); }
        c
    }).collect()).collect();
    pair(ptok(&es.iter().map(|e| e.submeshes.clone()).collect::<Vec<_>>()), ptok(&(common, es.iter().map(|e| e.submeshes.len() % size).collect::<Vec<_>>())))
}

fn model_tokens(m: &M2Model) -> Value {
    let h = &m.header;
    let hx = ptok(&(h.flags.bits(), h.bounding_box_min, h.bounding_box_max, h.bounding_sphere_radius, h.collision_box_min, h.collision_box_max, h.collision_sphere_radius));
    let ht = ptok(&(h.version, &hx));
    let r = &m.raw_data;
    let mut o = Map::new();
    let mut put = |k: &str, v: Value| {
        o.insert(k.to_string(), v);
    };
    put("header", pair(ht, hx));
    put("name", same(&m.name));
    put("global_sequences", same(&m.global_sequences));
    put("animations", pair(ptok(&m.animations), x_anims(&m.animations)));
    put("animation_lookup", same(&m.animation_lookup));
    put("bones", pair(ptok(&m.bones), x_bones(&m.bones)));
    put("bones+", pair(ptok(&r.bone_animation_data), x_bonekf(&r.bone_animation_data)));
    put("key_bone_lookup", same(&m.key_bone_lookup));
    put("vertices", same(&m.vertices));
    put("textures", same(&m.textures));
    put("materials", same(&m.materials));
    put("bone_lookup_table", same(&r.bone_lookup_table));
    put("texture_lookup_table", same(&r.texture_lookup_table));
    put("texture_units", same(&r.texture_units));
    put("transparency_lookup_table", same(&r.transparency_lookup_table));
    put("texture_animation_lookup", same(&r.texture_animation_lookup));
    put("bounding_triangles", same(&r.bounding_triangles));
    put("bounding_vertices", same(&r.bounding_vertices));
    put("bounding_normals", same(&r.bounding_normals));
    put("attachment_lookup_table", same(&r.attachment_lookup_table));
    put("camera_lookup_table", same(&r.camera_lookup_table));
    put("views", views_tok(&r.embedded_skins));
    put("views_submeshes", views_sub_tok(&r.embedded_skins, m.header.version));
    put("particle_emitters", pair(ptok(&m.particle_emitters), x_particles(&m.particle_emitters)));
    put("particle_emitters+", same(&r.particle_animation_data));
    put("ribbon_emitters", pair(ptok(&m.ribbon_emitters), x_ribbons(&m.ribbon_emitters)));
    put("ribbon_emitters+", same(&r.ribbon_animation_data));
    put("texture_animations", same(&m.texture_animations));
    put("texture_animations+", same(&r.texture_animation_data));
    put("color_animations", same(&m.color_animations));
    put("color_animations+", same(&r.color_animation_data));
    put("transparency_animations", same(&m.transparency_animations));
    put("transparency_animations+", same(&r.transparency_animation_data));
    put("events", same(&m.events));
    put("events+", same(&r.event_data));
    put("attachments", same(&m.attachments));
    put("attachments+", same(&r.attachment_animation_data));
    put("cameras", pair(ptok(&m.cameras), x_cameras(&m.cameras)));
    put("cameras+", same(&r.camera_animation_data));
    put("lights", same(&m.lights));
    put("lights+", same(&r.light_animation_data));
    Value::Object(o)
}

fn res_of<T>(o: &Outcome<std::result::Result<T, wow_m2::M2Error>>) -> String {
    match o {
        Outcome::Done(r) => res_class(r),
        Outcome::Panic(_) => "panic".into(),
        Outcome::Hang => "hang".into(),
    }
}
fn note_of<T>(o: &Outcome<std::result::Result<T, wow_m2::M2Error>>) -> String {
    match o {
        Outcome::Done(Err(e)) => normalise_digits(&format!("{e:?}")),
        Outcome::Panic(m) => m.clone(),
        _ => String::new(),
    }
}
fn take<T>(o: Outcome<std::result::Result<T, wow_m2::M2Error>>) -> Option<T> {
    match o {
        Outcome::Done(Ok(v)) => Some(v),
        _ => None,
    }
}

fn write_model(m: &M2Model) -> Outcome<std::result::Result<Vec<u8>, wow_m2::M2Error>> {
    guarded(|| {
        let mut cur = Cursor::new(Vec::new());
        m.write(&mut cur).map(|_| cur.into_inner())
    })
}
fn parse_model(bytes: &[u8]) -> Outcome<std::result::Result<M2Model, wow_m2::M2Error>> {
    guarded(|| {
        parse_m2(&mut Cursor::new(bytes)).map(|f| match f {
            M2Format::Legacy(m) => m,
            M2Format::Chunked(m) => m,
        })
    })
}

// ---------------------------------------------------------------------------------------------
// layer L: the independent array walker -- knows nothing but the numbers TLC emitted with the shape
// ---------------------------------------------------------------------------------------------
fn rd32(b: &[u8], p: usize) -> i64 {
    if p + 4 <= b.len() { u32::from_le_bytes([b[p], b[p + 1], b[p + 2], b[p + 3]]) as i64 } else { -1 }
}
fn clamp31(v: i64) -> i64 {
    v.min(0x7FFF_FFFF)
}
fn walk(bytes: &[u8], c: &Value) -> Value {
    let mut arrs = Vec::new();
    for sec in ga(c, "order") {
        let sec = sec.as_str().unwrap();
        let pos = c["hdrpos"][sec].as_i64().unwrap_or(-1);
        if pos < 0 {
            continue;
        }
        let elem = c["elem"][sec].as_i64().unwrap_or(1);
        let (count, off) = (rd32(bytes, pos as usize), rd32(bytes, pos as usize + 4));
        arrs.push(json!([sec, clamp31(count), clamp31(off), elem]));
    }
    Value::Array(arrs)
}

/// Every public way of producing the file x pre-state of the destination {absent, shorter file, longer file}: the resulting
/// FILE contents are logged (len + tok); the spec says they equal the bytes of `write`.
fn save_events(t: &mut Vec<Value>, c: &Value, case: &str, len: usize, save: &dyn Fn(&std::path::Path) -> std::result::Result<(), wow_m2::M2Error>) {
    if !c.get("save").and_then(|x| x.as_bool()).unwrap_or(false) {
        return;
    }
    let sc = Scratch::new("c13save");
    for (pre, fill) in [("absent", None), ("shorter", Some(len / 2)), ("longer", Some(2 * len + 17))] {
        let path = sc.file(&format!("{pre}.bin"));
        if let Some(n) = fill {
            std::fs::write(&path, vec![0xAAu8; n]).unwrap_or_else(|e| tool_error(&format!("prefill: {e}")));
        }
        let r = guarded(|| save(&path));
        let bytes = std::fs::read(&path).unwrap_or_default();
        t.push(json!({"ev":"Save","case":case,"api":"save","pre":pre,"prelen":fill.map(|n| n as i64).unwrap_or(-1),"res":res_of(&r),"note":note_of(&r),"len":bytes.len(),"tok":tok(&bytes)}));
    }
}

fn run_m2(t: &mut Vec<Value>, c: &Value, case: &str, seed: u64) {
    let m = build_model(c, seed, case);
    let from = gs(c, "ver");
    let w = write_model(&m);
    t.push(json!({"ev":"Write","case":case,"res":res_of(&w),"note":note_of(&w),"len":0,"tok":"","secs":model_tokens(&m)}));
    let bytes = match take(w) {
        Some(b) => b,
        None => return,
    };
    let n = t.len() - 1;
    t[n]["len"] = json!(bytes.len());
    t[n]["tok"] = json!(tok(&bytes));
    t.push(json!({"ev":"Arrays","case":case,"len":bytes.len(),"hsize":c["hsize"],"arrs":walk(&bytes, c)}));
    save_events(t, c, case, bytes.len(), &|p| m.save(p));
    let p = parse_model(&bytes);
    let (pres, pnote) = (res_of(&p), note_of(&p));
    let pm = take(p);
    let hc = |m: &M2Model| (m.header.views.count as i64, m.header.num_skin_profiles.map(|x| x as i64).unwrap_or(-1));
    t.push(json!({"ev":"Parse","case":case,"res":pres,"note":pnote,"secs":pm.as_ref().map(model_tokens).unwrap_or(json!({})),
                  "hviews":pm.as_ref().map(|m| hc(m).0).unwrap_or(-1),"hprof":pm.as_ref().map(|m| hc(m).1).unwrap_or(-1)}));
    if let (Ok(sec), Some(pm)) = (std::env::var("C13_DUMP"), pm.as_ref()) {
        // debugging aid (never used by the check): show both renderings of one section
        let show = |m: &M2Model| -> String {
            match sec.as_str() {
                "vertices" => format!("{:?}", m.vertices),
                "textures" => format!("{:?}", m.textures),
                "bones" => format!("{:?}", m.bones),
                "bones+" => format!("{:?}", m.raw_data.bone_animation_data),
                "views" => format!("{:?}", m.raw_data.embedded_skins),
                "events" => format!("{:?} {:?}", m.events, m.raw_data.event_data),
                "attachments" => format!("{:?} {:?}", m.attachments, m.raw_data.attachment_animation_data),
                "cameras" => format!("{:?} {:?}", m.cameras, m.raw_data.camera_animation_data),
                "lights" => format!("{:?} {:?}", m.lights, m.raw_data.light_animation_data),
                "particle_emitters" => format!("{:?} {:?}", m.particle_emitters, m.raw_data.particle_animation_data),
                "ribbon_emitters" => format!("{:?} {:?}", m.ribbon_emitters, m.raw_data.ribbon_animation_data),
                "animations" => format!("{:?}", m.animations),
                _ => format!("{:?}", m.header),
            }
        };
        eprintln!("IN : {}\nOUT: {}", elide_offsets(&show(&m)), elide_offsets(&show(pm)));
    }
    if let Some(pm) = pm.as_ref() {
        let rw = write_model(&pm);
        let (rres, rnote) = (res_of(&rw), note_of(&rw));
        let rb = take(rw).unwrap_or_default();
        t.push(json!({"ev":"Rewrite","case":case,"res":rres,"note":rnote,"len":rb.len(),"tok":tok(&rb)}));
    }
    // conversions start from the object a parse of the written file yields (its header carries the counts of the file,
    // e.g. views.count); the built object only if the parse failed
    let src: &M2Model = pm.as_ref().unwrap_or(&m);
    let (sviews, sprof) = hc(src);
    let conv = M2Converter::new();
    for to in ga(c, "convs") {
        let to = to.as_str().unwrap();
        let tv = version_of(to);
        // both public entry points, for every (from, to): the converter object (multi-step path planning, what the CLI
        // uses) and the model's own single-step method
        for api in ["converter", "model"] {
            let cv = if api == "converter" { guarded(|| conv.convert(src, tv)) } else { guarded(|| src.convert(tv)) };
            let (cres, cnote) = (res_of(&cv), note_of(&cv));
            let mut e = json!({"ev":"Convert","case":case,"from":from,"to":to,"api":api,"res":cres,"note":cnote,"secs":{},"rver":0,
                               "sviews":sviews,"sprof":sprof,"rviews":-1,"rprof":-1,"pviews":-1,"pprof":-1,
                               "wres":"skipped","wlen":0,"wtok":"","pres":"skipped","pver":0,"psecs":{}});
            if let Some(cm) = take(cv) {
                e["secs"] = model_tokens(&cm);
                e["rver"] = json!(cm.header.version);
                e["rviews"] = json!(hc(&cm).0);
                e["rprof"] = json!(hc(&cm).1);
                let cw = write_model(&cm);
                e["wres"] = json!(res_of(&cw));
                if let Some(cb) = take(cw) {
                    e["wlen"] = json!(cb.len());
                    e["wtok"] = json!(tok(&cb));
                    let cp = parse_model(&cb);
                    e["pres"] = json!(res_of(&cp));
                    if let Some(cpm) = take(cp) {
                        e["pver"] = json!(cpm.header.version);
                        e["pviews"] = json!(hc(&cpm).0);
                        e["pprof"] = json!(hc(&cpm).1);
                        e["psecs"] = model_tokens(&cpm);
                    }
                }
            }
            t.push(e);
        }
    }
}

// ---------------------------------------------------------------------------------------------
// skin files
// ---------------------------------------------------------------------------------------------
fn skin_tokens(s: &SkinFile) -> Value {
    let mut o = Map::new();
    o.insert("layout".into(), same(&s.is_new_format()));
    o.insert("indices".into(), same(s.indices()));
    o.insert("triangles".into(), same(s.triangles()));
    o.insert("bone_indices".into(), same(s.bone_indices()));
    o.insert("submeshes".into(), same(s.submeshes()));
    o.insert("batches".into(), same(s.batches()));
    let hdr = match s {
        SkinFile::New(n) => format!("new {} {}", n.header.version, n.header.vertex_count),
        SkinFile::Old(o) => format!("old {}", o.header.bone_count_max),
    };
    o.insert("header".into(), same(&hdr));
    // the header scalars a layout family carries whatever the version (new: vertex_count, old: bone_count_max): a conversion
    // inside one family has to keep them (round 5)
    let scal = match s {
        SkinFile::New(n) => format!("new {}", n.header.vertex_count),
        SkinFile::Old(o) => format!("old {}", o.header.bone_count_max),
    };
    o.insert("hdr_scalars".into(), same(&scal));
    Value::Object(o)
}
fn build_skin(c: &Value, seed: u64, label: &str) -> SkinFile {
    let mut v = Vals { rng: Rng::derive(seed, label), extreme: false, n: 0 };
    let indices: Vec<u16> = (0..card(c, "indices")).map(|_| v.u16()).collect();
    let triangles: Vec<u16> = (0..card(c, "triangles") * 3).map(|_| v.u16()).collect();
    let bone_indices: Vec<u8> = v.bytes(4 * card(c, "bone_indices"));
    let submeshes: Vec<SkinSubmesh> = (0..card(c, "submeshes")).map(|_| SkinSubmesh {
        id: v.u16(), level: v.u16(), vertex_start: v.u16(), vertex_count: v.u16(), triangle_start: v.u16(), triangle_count: v.u16(),
        bone_count: v.u16(), bone_start: v.u16(), bone_influence: v.u16(), center: [v.f(), v.f(), v.f()], sort_center: [v.f(), v.f(), v.f()], bounding_radius: v.f(),
    }).collect();
    let batches: Vec<SkinBatch> = (0..card(c, "batches")).map(|_| SkinBatch {
        flags: v.u() as u8, priority_plane: (v.u() % 100) as i8, shader_id: v.u16(), skin_section_index: v.u16(), geoset_index: v.u16(), color_index: v.u16(),
        material_index: v.u16(), material_layer: v.u16(), texture_count: v.u16(), texture_combo_index: v.u16(), texture_coord_combo_index: v.u16(),
        texture_weight_combo_index: v.u16(), texture_transform_combo_index: v.u16(),
    }).collect();
    if gs(c, "layout") == "skin_new" {
        let mut header = SkinHeader::new(version_of(gs(c, "ver")));
        header.vertex_count = v.u() % 5000;
        SkinFile::New(SkinG { header, indices, triangles, bone_indices, submeshes, batches })
    } else {
        let mut header = OldSkinHeader::new();
        header.bone_count_max = 21 + v.u() % 40;
        SkinFile::Old(SkinG { header, indices, triangles, bone_indices, submeshes, batches })
    }
}
fn run_skin(t: &mut Vec<Value>, c: &Value, case: &str, seed: u64) {
    let s = build_skin(c, seed, case);
    let w = guarded(|| {
        let mut cur = Cursor::new(Vec::new());
        s.write(&mut cur).map(|_| cur.into_inner())
    });
    t.push(json!({"ev":"Write","case":case,"res":res_of(&w),"note":note_of(&w),"len":0,"tok":"","secs":skin_tokens(&s)}));
    let bytes = match take(w) {
        Some(b) => b,
        None => return,
    };
    let n = t.len() - 1;
    t[n]["len"] = json!(bytes.len());
    t[n]["tok"] = json!(tok(&bytes));
    t.push(json!({"ev":"Arrays","case":case,"len":bytes.len(),"hsize":c["hsize"],"arrs":walk(&bytes, c)}));
    save_events(t, c, case, bytes.len(), &|p| s.save(p));
    let p = guarded(|| SkinFile::parse(&mut Cursor::new(&bytes)));
    let (pres, pnote) = (res_of(&p), note_of(&p));
    let ps = take(p);
    t.push(json!({"ev":"Parse","case":case,"res":pres,"note":pnote,"secs":ps.as_ref().map(skin_tokens).unwrap_or(json!({}))}));
    if let Some(ps) = ps {
        let rw = guarded(|| {
            let mut cur = Cursor::new(Vec::new());
            ps.write(&mut cur).map(|_| cur.into_inner())
        });
        let (rres, rnote) = (res_of(&rw), note_of(&rw));
        let rb = take(rw).unwrap_or_default();
        t.push(json!({"ev":"Rewrite","case":case,"res":rres,"note":rnote,"len":rb.len(),"tok":tok(&rb)}));
    }
    for to in ["Vanilla", "WotLK", "Cataclysm", "MoP"] {
        let tv = version_of(to);
        let cv = guarded(|| s.convert(tv));
        t.push(conv_event(case, gs(c, "ver"), to, "SkinFile::convert", cv, skin_tokens,
            |x: &SkinFile| { let mut cur = Cursor::new(Vec::new()); x.write(&mut cur).map(|_| cur.into_inner()) },
            |b: &[u8]| SkinFile::parse(&mut Cursor::new(b))));
    }
}

fn conv_event<T>(case: &str, from: &str, to: &str, api: &str, cv: Outcome<std::result::Result<T, wow_m2::M2Error>>,
                 toks: impl Fn(&T) -> Value, wr: impl Fn(&T) -> std::result::Result<Vec<u8>, wow_m2::M2Error>,
                 pr: impl Fn(&[u8]) -> std::result::Result<T, wow_m2::M2Error>) -> Value {
    let (cres, cnote) = (res_of(&cv), note_of(&cv));
    let mut e = json!({"ev":"Convert","case":case,"from":from,"to":to,"api":api,"res":cres,"note":cnote,"secs":{},"rver":0,
                       "sviews":-1,"sprof":-1,"rviews":-1,"rprof":-1,"pviews":-1,"pprof":-1,
                       "wres":"skipped","wlen":0,"wtok":"","pres":"skipped","pver":0,"psecs":{}});
    if let Some(cm) = take(cv) {
        e["secs"] = toks(&cm);
        let cw = guarded(|| wr(&cm));
        e["wres"] = json!(res_of(&cw));
        if let Some(cb) = take(cw) {
            e["wlen"] = json!(cb.len());
            e["wtok"] = json!(tok(&cb));
            let cp = guarded(|| pr(&cb));
            e["pres"] = json!(res_of(&cp));
            if let Some(cpm) = take(cp) {
                e["psecs"] = toks(&cpm);
            }
        }
    }
    e
}

// ---------------------------------------------------------------------------------------------
// anim files
// ---------------------------------------------------------------------------------------------
fn anim_tokens(a: &AnimFile) -> Value {
    let mut o = Map::new();
    o.insert("format".into(), same(&a.format));
    o.insert("sections".into(), same(&a.sections));
    o.insert("nsections".into(), same(&a.sections.len()));
    let ids: Vec<u32> = match &a.metadata {
        AnimMetadata::Modern { entries, .. } => entries.iter().map(|e| e.id).collect(),
        AnimMetadata::Legacy { .. } => a.sections.iter().map(|s| s.header.id).collect(),
    };
    o.insert("ids".into(), same(&ids));
    Value::Object(o)
}
fn build_anim(c: &Value, seed: u64, label: &str) -> AnimFile {
    let mut v = Vals { rng: Rng::derive(seed, label), extreme: false, n: 0 };
    let (ns, nb, data) = (gi(c, "nsec") as usize, gi(c, "nbones") as usize, gb(c, "data"));
    // presence pattern over the bone table: bone i carries key frames iff bit i of `mask`
    let mask = c.get("mask").and_then(|x| x.as_i64()).unwrap_or(if data { 5 } else { 0 });
    let mut sections = Vec::new();
    for si in 0..ns {
        let mut bones = Vec::new();
        for bi in 0..nb {
            let has = (mask >> bi) & 1 == 1;
            bones.push(AnimBoneAnimation {
                bone_id: if has { 1 + v.u() % 200 } else { 0 },
                translation: if has { Some(AnimTranslation { timestamps: vec![v.u() % 100, 100 + v.u() % 100], translations: vec![v.v3(), v.v3()] }) } else { None },
                rotation: if has && bi == 0 { Some(AnimRotation { timestamps: vec![v.u() % 100], rotations: vec![Quaternion { x: v.f(), y: v.f(), z: v.f(), w: v.f() }] }) } else { None },
                scaling: if has && bi == 2 { Some(AnimScaling { timestamps: vec![v.u() % 100], scalings: vec![v.v3()] }) } else { None },
            });
        }
        sections.push(AnimSection { header: AnimSectionHeader { magic: *b"AFID", id: 10 + si as u32 + (v.u() % 7) * 16, start: v.u() % 1000, end: 1000 + v.u() % 1000 }, bone_animations: bones });
    }
    if gs(c, "format") == "modern" {
        let entries = sections.iter().map(|s| AnimEntry { id: s.header.id, offset: 0, size: 0 }).collect();
        let header = AnimHeader { magic: *b"MAOF", version: 1, id_count: ns as u32, unknown: 0, anim_entry_offset: 20 };
        AnimFile { format: AnimFormat::Modern, sections, metadata: AnimMetadata::Modern { header, entries } }
    } else {
        AnimFile { format: AnimFormat::Legacy, sections, metadata: AnimMetadata::Legacy { file_size: 0, animation_count: ns as u32,
            structure_hints: LegacyStructureHints { appears_valid: true, estimated_blocks: ns as u32, has_timestamps: data } } }
    }
}
fn run_anim(t: &mut Vec<Value>, c: &Value, case: &str, seed: u64) {
    let a = build_anim(c, seed, case);
    let w = guarded(|| {
        let mut cur = Cursor::new(Vec::new());
        a.write(&mut cur).map(|_| cur.into_inner())
    });
    t.push(json!({"ev":"Write","case":case,"res":res_of(&w),"note":note_of(&w),"len":0,"tok":"","secs":anim_tokens(&a)}));
    let bytes = match take(w) {
        Some(b) => b,
        None => return,
    };
    let n = t.len() - 1;
    t[n]["len"] = json!(bytes.len());
    t[n]["tok"] = json!(tok(&bytes));
    // walker: MAOF entries (id, offset, size) at the positions TLC emitted; legacy files have no table to walk
    let mut arrs = Vec::new();
    if gs(c, "format") == "modern" {
        for (j, p) in ga(c, "entrypos").iter().enumerate() {
            let p = p.as_i64().unwrap() as usize;
            arrs.push(json!([format!("sec{}", j + 1), clamp31(rd32(&bytes, p + 8)), clamp31(rd32(&bytes, p + 4)), 1]));
        }
    }
    t.push(json!({"ev":"Arrays","case":case,"len":bytes.len(),"hsize":c["hsize"],"arrs":arrs}));
    save_events(t, c, case, bytes.len(), &|p| a.save(p));
    let p = guarded(|| AnimFile::parse(&mut Cursor::new(&bytes)));
    let (pres, pnote) = (res_of(&p), note_of(&p));
    let pa = take(p);
    t.push(json!({"ev":"Parse","case":case,"res":pres,"note":pnote,"secs":pa.as_ref().map(anim_tokens).unwrap_or(json!({}))}));
    if let Some(pa) = pa {
        let rw = guarded(|| {
            let mut cur = Cursor::new(Vec::new());
            pa.write(&mut cur).map(|_| cur.into_inner())
        });
        let (rres, rnote) = (res_of(&rw), note_of(&rw));
        let rb = take(rw).unwrap_or_default();
        t.push(json!({"ev":"Rewrite","case":case,"res":rres,"note":rnote,"len":rb.len(),"tok":tok(&rb)}));
    }
    let from = if gs(c, "format") == "modern" { "Legion" } else { "MoP" };
    for to in ["MoP", "Legion"] {
        let tv = version_of(to);
        let cv = guarded(|| Ok::<AnimFile, wow_m2::M2Error>(a.convert(tv)));
        t.push(conv_event(case, from, to, "AnimFile::convert", cv, anim_tokens,
            |x: &AnimFile| { let mut cur = Cursor::new(Vec::new()); x.write(&mut cur).map(|_| cur.into_inner()) },
            |b: &[u8]| AnimFile::parse(&mut Cursor::new(b))));
    }
}

fn main() {
    let a = args();
    install_quiet_panic_hook();
    let cases = read_cases(&a.cases);
    let trace = Trace::create(&a.trace);
    let seed = seed();
    let only: Option<usize> = a.extra.first().and_then(|s| s.parse().ok());
    for (ci, c) in cases.iter().enumerate() {
        if let Some(o) = only {
            if o != ci {
                continue;
            }
        }
        let kind = gs(c, "kind");
        let case = format!("{ci}:{kind}");
        let fmt = match kind {
            "m2" => "m2".to_string(),
            "skin" => gs(c, "layout").to_string(),
            _ => format!("anim_{}", gs(c, "format")),
        };
        // class attributes of the case (for signatures): which sections are populated
        let pop: Vec<String> = c.get("card").and_then(|x| x.as_object()).map(|o| o.iter().filter(|(_, n)| n.as_i64().unwrap_or(0) > 0).map(|(k, _)| k.clone()).collect()).unwrap_or_default();
        let mut evs = vec![json!({"ev":"Reset","case":case,"kind":kind,"fmt":fmt,"slice":gs(c,"slice"),
            "ver":c.get("ver").cloned().unwrap_or(json!(if fmt == "anim_modern" { "Legion" } else { "MoP" })),"vn":c.get("vn").cloned().unwrap_or(json!(0)),
            "kf":c.get("kf").cloned().unwrap_or(json!(false)),"floats":c.get("floats").cloned().unwrap_or(json!("normal")),
            "namelen":c.get("namelen").cloned().unwrap_or(json!(-1)),"texlen":c.get("texlen").cloned().unwrap_or(json!(-1)),
            "alias":c.get("alias").cloned().unwrap_or(json!(0)),"amask":c.get("amask").cloned().unwrap_or(json!(-1)),"arot":c.get("arot").cloned().unwrap_or(json!(false)),"kfmask":c.get("kfmask").cloned().unwrap_or(json!(-1)),"mask":c.get("mask").cloned().unwrap_or(json!(-1)),
            "pop":pop,"shape":c.get("card").cloned().unwrap_or(json!({"nsec":c.get("nsec"),"nbones":c.get("nbones"),"data":c.get("data"),"mask":c.get("mask")}))})];
        match kind {
            "m2" => run_m2(&mut evs, c, &case, seed),
            "skin" => run_skin(&mut evs, c, &case, seed),
            "anim" => run_anim(&mut evs, c, &case, seed),
            _ => tool_error("unknown case kind"),
        }
        trace.block(evs);
    }
    trace.flush();
}
