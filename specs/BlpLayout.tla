------------------------------ MODULE BlpLayout ------------------------------
(* C16 -- BLP textures (file-formats/graphics/wow-blp): arithmetic oracle of the mip chain and of   *)
(* the file layout, and a small layout machine (header, palette / JPEG header, levels back to back,  *)
(* locator filled while laying out; reader fetching level i through the locator).                    *)
(*                                                                                                 *)
(*   BLP0: 28-byte header, mip levels in external files      BLP1: 28 + 128 (offsets, sizes)          *)
(*   BLP2: 20 + 128                                                                                  *)
(*   direct content (palettised, raw BGRA, DXT): 256-entry palette (1024 bytes) then the levels      *)
(*   JPEG content: u32 header length, shared JPEG header, then the levels (sizes opaque)             *)
EXTENDS Integers, Sequences, SequencesExt, FiniteSets, TLC

Versions  == {"Blp0", "Blp1", "Blp2"}
Encodings == {"raw1", "raw3", "jpeg", "dxt1", "dxt3", "dxt5"}
\* which encodings a version can carry (convert/mod.rs: BlpOldFormat / Blp2Format)
TargetOk(bv, be) == IF bv = "Blp2" THEN be \in Encodings ELSE be \in {"raw1", "jpeg"}
AlphaOk(be, ba) == CASE be = "raw1" -> ba \in {0, 1, 4, 8}
                     [] be = "raw3" -> ba = 8
                     [] OTHER -> ba \in {0, 8}                     \* has_alpha false / true

BMax(ba, bb) == IF ba > bb THEN ba ELSE bb
BMin(ba, bb) == IF ba < bb THEN ba ELSE bb
CeilDiv(ba, bb) == (ba + bb - 1) \div bb
Pow2(bn) == FoldLeft(LAMBDA bacc, bi : 2 * bacc, 1, [bi \in 1..bn |-> bi])
Log2Floor(bn) == CHOOSE bk \in 0..16 : Pow2(bk) <= bn /\ bn < Pow2(bk + 1)

\* ---- mip chain ----------------------------------------------------------------------------------
MipCount(bw, bh, bmips) == IF bmips THEN Log2Floor(BMax(bw, bh)) + 1 ELSE 1
Dim(bw, bh, bi) == <<BMax(1, bw \div Pow2(bi)), BMax(1, bh \div Pow2(bi))>>
Chain(bw, bh, bmips) == [bi \in 1..MipCount(bw, bh, bmips) |-> Dim(bw, bh, bi - 1)]
\* named deviation (before 61197c7): convert/mipmap.rs:generate_mipmaps stopped as soon as ONE side had reached 1;
\* the as-coded chain since then is Chain / MipCount
CodeMipCount(bw, bh, bmips) == IF bmips THEN BMin(16, Log2Floor(BMin(bw, bh)) + 1) ELSE 1

\* ---- level sizes --------------------------------------------------------------------------------
LevelBytes(be, ba, bd) ==
    LET bpx == bd[1] * bd[2] IN
    CASE be = "raw1" -> bpx + CeilDiv(bpx * ba, 8)
      [] be = "raw3" -> 4 * bpx
      [] be = "dxt1" -> BMax(1, CeilDiv(bd[1], 4)) * BMax(1, CeilDiv(bd[2], 4)) * 8
      [] be \in {"dxt3", "dxt5"} -> BMax(1, CeilDiv(bd[1], 4)) * BMax(1, CeilDiv(bd[2], 4)) * 16
      [] OTHER -> -1                                            \* jpeg: opaque
LevelSizes(be, ba, bw, bh, bmips) == LET bch == Chain(bw, bh, bmips) IN [bi \in 1..Len(bch) |-> LevelBytes(be, ba, bch[bi])]

\* ---- header / file layout -----------------------------------------------------------------------
HeaderSize(bv) == 20 + (IF bv # "Blp2" THEN 8 ELSE 0) + (IF bv # "Blp0" THEN 128 ELSE 0)
LocatorPos(bv) == IF bv = "Blp0" THEN 0 ELSE IF bv = "Blp1" THEN 28 ELSE 20     \* 16 offsets, then 16 sizes
PALETTE == 1024
\* first byte a level may occupy (bjh = length of the shared JPEG header as stored, if any)
DataStart(bv, be, bjh) == HeaderSize(bv) + (IF be = "jpeg" THEN 4 + bjh ELSE PALETTE)
BSum(bseq) == FoldLeft(LAMBDA ba, bb : ba + bb, 0, bseq)
\* offsets of levels of the given sizes laid out back to back
LayOutOffsets(bstart, bsizes) == [bi \in 1..Len(bsizes) |-> bstart + BSum(SubSeq(bsizes, 1, bi - 1))]

\* the property's layout claims over an observed locator (sequences of equal length)
InFile(boffs, bsizes, blo, blen) == \A bi \in 1..Len(boffs) : boffs[bi] >= blo /\ boffs[bi] + bsizes[bi] <= blen
Disjoint(boffs, bsizes) == \A bi \in 1..Len(boffs) : \A bj \in (bi + 1)..Len(boffs) :
                              boffs[bi] + bsizes[bi] <= boffs[bj] \/ boffs[bj] + bsizes[bj] <= boffs[bi]
Ascending(boffs) == \A bi \in 1..(Len(boffs) - 1) : boffs[bi] < boffs[bi + 1]

\* ---- the file-path API as a byte producer ------------------------------------------------------------
\* save_blp(x, path) must leave at `path` (and, for BLP0, at the external level files path.b00, .b01, ...) exactly
\* the bytes encode would produce, whatever was there before: nothing, a shorter earlier save, a longer one.
PreStates == {"absent", "shorter", "longer"}
\* length of a file of bprev bytes (-1: absent) after bnew bytes were written from offset 0
AfterSave(bprev, bnew, btruncating) == IF btruncating THEN bnew ELSE BMax(bprev, bnew)
\* a save is a faithful byte producer for every pre-state iff it truncates
SaveLaw == \A bprev \in {-1, 0, 10, 50, 99, 100, 101, 1000} : \A bnew \in {0, 10, 100} :
             /\ AfterSave(bprev, bnew, TRUE) = bnew
             /\ (AfterSave(bprev, bnew, FALSE) = bnew <=> bprev <= bnew)

\* ---- alpha quantisation (palettised encoding) ---------------------------------------------------
\* decoded alpha bd for source alpha ba at depth bbits: 8 -> identity; 4 -> a multiple of 17 nearest to
\* the source; 1 -> fully transparent or opaque, the two extremes fixed; 0 -> no alpha channel
QuantOk(bbits, ba, bd) == CASE bbits = 8 -> bd = ba
                            [] bbits = 4 -> bd % 17 = 0 /\ bd - ba <= 8 /\ ba - bd <= 8
                            [] bbits = 1 -> bd \in {0, 255} /\ (ba = 0 => bd = 0) /\ (ba = 255 => bd = 255)
                            [] OTHER -> bd = 255
\* the code's choice for 4 bits: round(a / 255 * 15) replicated into both nibbles
Quant4(ba) == 17 * ((30 * ba + 255) \div 510)

\* ================================ layout machine =================================================
\* vshape : [ver, enc, alpha, w, h, mips, jh]     vimgs : level sizes the converter produced
\* vcur   : write cursor      vloc : locator being filled (<<off, size>> per level)     vext : external files
\* vpc, vdev, vgot : control, deviations taken, levels the reader fetched (<<off, size>>)
VARIABLES vshape, vimgs, vcur, vloc, vext, vpc, vdev, vgot
bvars == <<vshape, vimgs, vcur, vloc, vext, vpc, vdev, vgot>>

JpegSize(bd) == 7 + ((bd[1] * bd[2]) \div 3)                    \* any positive size function will do for the model
SizeOf(bs, bd) == IF bs.enc = "jpeg" THEN JpegSize(bd) ELSE LevelBytes(bs.enc, bs.alpha, bd)

BStart(bs) == /\ vshape = bs /\ vimgs = <<>> /\ vcur = 0 /\ vloc = <<>> /\ vext = <<>> /\ vpc = "convert" /\ vdev = {} /\ vgot = <<>>

\* convert: produce the chain (as coded since 61197c7), or what generate_mipmaps produced before (deviation)
C_Chain == /\ vpc = "convert" /\ vpc' = "header"
           /\ vimgs' = LET bch == Chain(vshape.w, vshape.h, vshape.mips) IN [bi \in 1..Len(bch) |-> SizeOf(vshape, bch[bi])]
           /\ UNCHANGED <<vshape, vcur, vloc, vext, vdev, vgot>>
C_ChainStopsEarly == /\ vpc = "convert" /\ vpc' = "header"
                     /\ CodeMipCount(vshape.w, vshape.h, vshape.mips) < MipCount(vshape.w, vshape.h, vshape.mips)
                     /\ vimgs' = [bi \in 1..CodeMipCount(vshape.w, vshape.h, vshape.mips) |-> SizeOf(vshape, Dim(vshape.w, vshape.h, bi - 1))]
                     /\ vdev' = vdev \cup {"mip-chain-stops-early"}
                     /\ UNCHANGED <<vshape, vcur, vloc, vext, vgot>>
E_Header == /\ vpc = "header" /\ vpc' = "prelude"
            /\ vcur' = HeaderSize(vshape.ver)
            /\ UNCHANGED <<vshape, vimgs, vloc, vext, vdev, vgot>>
E_Prelude == /\ vpc = "prelude" /\ vpc' = "levels"
             /\ vcur' = vcur + (IF vshape.enc = "jpeg" THEN 4 + vshape.jh ELSE PALETTE)
             /\ UNCHANGED <<vshape, vimgs, vloc, vext, vdev, vgot>>
\* one level per step: internal (BLP1/2) at the cursor, external (BLP0) into its own file
E_Level == /\ vpc = "levels" /\ Len(vloc) + Len(vext) < Len(vimgs)
           /\ LET bsz == vimgs[Len(vloc) + Len(vext) + 1] IN
              IF vshape.ver = "Blp0"
              THEN vext' = Append(vext, bsz) /\ UNCHANGED <<vloc, vcur>>
              ELSE vloc' = Append(vloc, <<vcur, bsz>>) /\ vcur' = vcur + bsz /\ UNCHANGED vext
           /\ UNCHANGED <<vshape, vimgs, vpc, vdev, vgot>>
E_Done == /\ vpc = "levels" /\ Len(vloc) + Len(vext) = Len(vimgs) /\ vpc' = "parse"
          /\ UNCHANGED <<vshape, vimgs, vcur, vloc, vext, vdev, vgot>>
\* reader: level i through the locator / the i-th external file, as many as the header arithmetic says
P_Level == /\ vpc = "parse" /\ Len(vgot) < BMin(MipCount(vshape.w, vshape.h, vshape.mips), IF vshape.ver = "Blp0" THEN Len(vext) ELSE Len(vloc))
           /\ vgot' = Append(vgot, IF vshape.ver = "Blp0" THEN <<0, vext[Len(vgot) + 1]>> ELSE vloc[Len(vgot) + 1])
           /\ UNCHANGED <<vshape, vimgs, vcur, vloc, vext, vpc, vdev>>
P_Done == /\ vpc = "parse" /\ Len(vgot) = BMin(MipCount(vshape.w, vshape.h, vshape.mips), IF vshape.ver = "Blp0" THEN Len(vext) ELSE Len(vloc))
          /\ vpc' = "done"
          /\ UNCHANGED <<vshape, vimgs, vcur, vloc, vext, vdev, vgot>>
BlpNext == C_Chain \/ C_ChainStopsEarly \/ E_Header \/ E_Prelude \/ E_Level \/ E_Done \/ P_Level \/ P_Done

\* ---- invariants ---------------------------------------------------------------------------------
Offs  == [bi \in 1..Len(vloc) |-> vloc[bi][1]]
Sizes == [bi \in 1..Len(vloc) |-> vloc[bi][2]]
Laid == vpc \in {"parse", "done"}
\* every stored range lies behind header + palette / JPEG header, inside the file, without overlap
LocatorSound == Laid => /\ InFile(Offs, Sizes, DataStart(vshape.ver, vshape.enc, vshape.jh), vcur)
                        /\ Disjoint(Offs, Sizes) /\ Ascending(Offs)
                        /\ Offs = LayOutOffsets(DataStart(vshape.ver, vshape.enc, vshape.jh), Sizes)
                        /\ vcur = DataStart(vshape.ver, vshape.enc, vshape.jh) + BSum(Sizes)
\* the chain halves down to 1x1 and has floor(log2 max(w,h)) + 1 members (ideal converter)
ChainLaw == \A bi \in 1..1 :
    LET bch == Chain(vshape.w, vshape.h, vshape.mips) IN
    /\ bch[1] = <<vshape.w, vshape.h>>
    /\ (vshape.mips => bch[Len(bch)] = <<1, 1>>)
    /\ \A bj \in 1..(Len(bch) - 1) : bch[bj + 1][1] = BMax(1, bch[bj][1] \div 2) /\ bch[bj + 1][2] = BMax(1, bch[bj][2] \div 2)
    /\ Len(bch) <= 16
ChainComplete == (Laid /\ "mip-chain-stops-early" \notin vdev) =>
                 Len(vimgs) = MipCount(vshape.w, vshape.h, vshape.mips) /\ Len(vloc) + Len(vext) = Len(vimgs)
\* the deviation bites exactly for images whose sides have different floor(log2)
DeviationOnlyNonSquare == ("mip-chain-stops-early" \in vdev) => Log2Floor(vshape.w) # Log2Floor(vshape.h)
\* the reader gets back exactly the levels that were laid out (structure identical)
ParseStructure == vpc = "done" => /\ Len(vgot) = Len(vimgs)
                                  /\ \A bi \in 1..Len(vgot) : vgot[bi][2] = vimgs[bi]
=============================================================================
