------------------------------ MODULE MpqFormat ------------------------------
(***************************************************************************)
(* An executable reference implementation, in TLA+, of the MPQ V1/V2       *)
(* on-disk format (classic hash/block tables), written from                *)
(*   - docs/src/formats/archives/mpq.md (header layout, hash/block entry   *)
(*     layout, flag values, method bytes, table keys, FIX_KEY rule), and    *)
(*   - the public format description ("The MoPaQ Archive Format",          *)
(*     StormLib's documented behaviour): sector layout, sector offset      *)
(*     table, per-sector keys, dword-granular cipher, base-name file key.  *)
(* It is NOT transcribed from the Rust sources.  All cryptography comes    *)
(* from MpqCrypto / Word32 (crypt table, HashString, EncStep/DecStep).     *)
(*                                                                         *)
(*   RefWrite(files, cfg, d)  lays out and encrypts an archive (bytes)     *)
(*   RefReadFile / RefRead    decode an archive into, per name, the list   *)
(*                            of sectors <<method byte | -1 (raw), payload>>*)
(*   Writer state machine     the same layout steps as TLC actions         *)
(*                            (WBegin, WAppendFile, WEmitHash, ...) used   *)
(*                            by MC_MpqFormat; RefWrite is their fold.     *)
(*                                                                         *)
(* inflate / bunzip2 of payloads is outside TLA+ (Python zlib/bz2).        *)
(*                                                                         *)
(* Named deviations ("dialect" record d).  The standard format is d = Std. *)
(* Each flag describes one place where the library under test differed     *)
(* from the published format when this specification was written (tail,     *)
(* pathkey, rawtable, oneblock, crclayout were repaired in /repo by        *)
(* d86b8d5, f4d4c14, 9cf2783, 0f74d94, 7734a50): the library as coded is   *)
(* the Std dialect now and every flag is a must-refute variant.  The flags *)
(* exist                                                                   *)
(* so that TLC can (i)                                                      *)
(* show on the model that the deviation breaks interoperability and (ii)   *)
(* attribute a rejected file of a real trace to a *named* deviation        *)
(* instead of masking everything that happens on the same files:           *)
(*   tail     the len mod 4 trailing bytes of an encrypted unit are         *)
(*            encrypted as a zero-padded dword with key + nwords            *)
(*            (standard: the cipher works on whole dwords, tail in clear)   *)
(*   pathkey  the file key is the hash of the full path                     *)
(*            (standard: of the name after the last backslash)              *)
(*   rawtable a multi-sector file without COMPRESS/IMPLODE still carries a  *)
(*            sector offset table, counted in csize  (library writer)       *)
(*   oneblock a multi-sector file without COMPRESS/IMPLODE is decrypted as  *)
(*            ONE cipher block with the base key      (library reader)      *)
(*   crclayout (reader side of the model only) sector checksums as the      *)
(*            library's builder stores them: offset table of n+1 entries,   *)
(*            n ADLER32 values of the UNCOMPRESSED sectors right after it,  *)
(*            not counted in csize (standard: n+2 entries, the checksums    *)
(*            form one more sector after the data, ADLER32 of each sector   *)
(*            as stored before encryption, counted in csize)                *)
(***************************************************************************)
EXTENDS Integers, Sequences, SequencesExt, FiniteSets, MpqCrypto

CONSTANT SectorBase          \* 512 in the format ("512 * 2^block_size_shift"); MC uses 8

Std  == [tail |-> FALSE, pathkey |-> FALSE, rawtable |-> FALSE, oneblock |-> FALSE, crclayout |-> FALSE]
LibW == [tail |-> TRUE,  pathkey |-> TRUE,  rawtable |-> TRUE,  oneblock |-> FALSE, crclayout |-> TRUE]    \* the library's writer before the fixes
LibR == [tail |-> TRUE,  pathkey |-> TRUE,  rawtable |-> FALSE, oneblock |-> TRUE,  crclayout |-> FALSE]   \* the library's reader before the fixes

---------------------------------------------------------------------------
(* Little-endian fields.  `off` is a 0-based byte offset into bs.          *)
U16At(bs, off) == bs[off + 1] + 256 * bs[off + 2]
U32At(bs, off) == WFromBytes(bs[off + 1], bs[off + 2], bs[off + 3], bs[off + 4])
LE16(v)  == <<v % 256, v \div 256>>
LE32(w)  == WBytes(w)
LE32n(v) == WBytes(WFromNat(v))
\* a word as a natural if it is < 2^23 (everything in a small archive is), else -1: keeps the
\* reader total on garbage (32-bit TLC ints would overflow on big words)
NatOf(w) == IF w[1] < 128 THEN w[1] * 65536 + w[2] ELSE -1
Zeros(cnt)  == [zi \in 1..cnt |-> 0]
Const(cnt, v) == [zi \in 1..cnt |-> v]
CeilDiv(a, b) == (a + b - 1) \div b
Min2(a, b) == IF a < b THEN a ELSE b
IsPow2(v) == \E e \in 0..22 : v = 2^e
ConcatAll(seqs) == FoldLeft(LAMBDA acc, sq : acc \o sq, <<>>, seqs)
\* ADLER32 as a word <<b, a>>
Adler32(bs) == LET st == FoldLeft(LAMBDA acc, ch : LET aa == (acc[1] + ch) % 65521 IN <<aa, (acc[2] + aa) % 65521>>, <<1, 0>>, bs)
               IN  <<st[2], st[1]>>

---------------------------------------------------------------------------
(* Block flags (mpq.md "Block Table Entry") as words.                      *)
F_IMPLODE   == <<0, 256>>       \* 0x00000100
F_COMPRESS  == <<0, 512>>       \* 0x00000200
F_ENCRYPTED == <<1, 0>>         \* 0x00010000
F_FIXKEY    == <<2, 0>>         \* 0x00020000
F_PATCH     == <<16, 0>>        \* 0x00100000
F_SINGLE    == <<256, 0>>       \* 0x01000000
F_DELMARK   == <<512, 0>>       \* 0x02000000
F_SECTORCRC == <<1024, 0>>      \* 0x04000000
F_EXISTS    == <<32768, 0>>     \* 0x80000000
Has(fl, m)  == And32(fl, m) = m

\* method bytes of the published subset (mpq.md "Compression Methods")
M_ZLIB  == 2
M_BZIP2 == 16

HASH_EMPTY   == <<65535, 65535>>    \* 0xFFFFFFFF  never used
HASH_DELETED == <<65535, 65534>>    \* 0xFFFFFFFE  deleted

TableKeyHash  == HashString(<<40,104,97,115,104,32,116,97,98,108,101,41>>, FILE_KEY)       \* "(hash table)"
TableKeyBlock == HashString(<<40,98,108,111,99,107,32,116,97,98,108,101,41>>, FILE_KEY)    \* "(block table)"

Magic == <<77, 80, 81, 26>>         \* 'M' 'P' 'Q' 0x1A
\* V1 32 bytes, V2 44, V3 68 (V2 + archive_size_64, bet_table_offset, het_table_offset; mpq.md "MPQ Headers")
HeaderSize(ver) == IF ver = 0 THEN 32 ELSE IF ver = 1 THEN 44 ELSE 68
SectorSize(shift) == SectorBase * (2 ^ shift)

---------------------------------------------------------------------------
(* The block cipher of the published format: whole dwords only, no special *)
(* case for any key.  EncStep/DecStep/CInit are MpqCrypto's.               *)
StdEncWords(ws, key) == FoldLeft(EncStep, CInit(key), ws).out
StdDecWords(ws, key) == FoldLeft(DecStep, CInit(key), ws).out
StdCryptBytes(bs, key, Blk(_, _)) ==
  LET nw == Len(bs) \div 4
  IN  IF nw = 0 THEN bs
      ELSE BytesOf(Blk(WordsOf(SubSeq(bs, 1, 4 * nw)), key)) \o SubSeq(bs, 4 * nw + 1, Len(bs))
\* named deviation `tail` (defined here, independently of MpqCrypto!EncryptBytes, which models whatever the
\* library's byte wrappers currently do): the trailing len mod 4 bytes are zero-padded to a dword, processed
\* as a one-word block with key + (number of full dwords), and only len mod 4 bytes are written back
TailCryptBytes(bs, key, Blk(_, _)) ==
  LET nw == Len(bs) \div 4
      tl == SubSeq(bs, 4 * nw + 1, Len(bs))
      full == IF nw = 0 THEN <<>> ELSE BytesOf(Blk(WordsOf(SubSeq(bs, 1, 4 * nw)), key))
  IN  IF Len(tl) = 0 THEN full
      ELSE full \o SubSeq(BytesOf(Blk(WordsOf(tl \o Zeros(4 - Len(tl))), Add32n(key, nw))), 1, Len(tl))
\* unit = single-unit file body or one sector
UnitEncrypt(bs, key, d) == IF d.tail THEN TailCryptBytes(bs, key, StdEncWords) ELSE StdCryptBytes(bs, key, StdEncWords)
UnitDecrypt(bs, key, d) == IF d.tail THEN TailCryptBytes(bs, key, StdDecWords) ELSE StdCryptBytes(bs, key, StdDecWords)

\* file key: hash of the plain name; FIX_KEY: (key + block offset) XOR file size
KeyName(name, d) == IF d.pathkey THEN name ELSE BaseName(name)
FileKeyOf(name, posW, fsizeW, flags, d) ==
  LET base == HashString(KeyName(name, d), FILE_KEY)
  IN  IF Has(flags, F_FIXKEY) THEN FixKey(base, posW, fsizeW) ELSE base

---------------------------------------------------------------------------
(*                               READER                                    *)
---------------------------------------------------------------------------
\* The header is searched at 512-byte aligned offsets (mpq.md "Header Search"); a user data header
\* 'MPQ\x1B' {user_data_max_size, archive_header_offset, user_data_header_size} found there points to the
\* MPQ header at (its own offset + archive_header_offset).  All table/file offsets are relative to the MPQ header.
UserMagic == <<77, 80, 81, 27>>
HeaderAt(bs, base) == base + 32 <= Len(bs) /\ SubSeq(bs, base + 1, base + 4) = Magic
HeaderVia(bs, off) ==
  IF HeaderAt(bs, off) THEN off
  ELSE IF off + 16 <= Len(bs) /\ SubSeq(bs, off + 1, off + 4) = UserMagic
       THEN LET ho == NatOf(U32At(bs, off + 8)) IN IF ho >= 0 /\ HeaderAt(bs, off + ho) THEN off + ho ELSE -1
       ELSE -1
FindHeader(bs) ==
  LET cands == {c \in 0..(Len(bs) \div 512) : HeaderVia(bs, 512 * c) >= 0}
  IN  IF cands = {} THEN -1 ELSE HeaderVia(bs, 512 * (CHOOSE c \in cands : \A c2 \in cands : c <= c2))
UserDataPrefix(len) ==     \* a user data header followed by filler, MPQ header at offset len
  UserMagic \o LE32n(len - 16) \o LE32n(len) \o LE32n(16) \o [pi \in 1..(len - 16) |-> (pi * 11) % 249]

ParseHeader(bs, base) ==
  LET ver == U16At(bs, base + 12)
      v2  == ver >= 1 /\ base + 44 <= Len(bs)
  IN  [ hsize   |-> U32At(bs, base + 4),
        asize   |-> U32At(bs, base + 8),
        ver     |-> ver,
        shift   |-> U16At(bs, base + 14),
        htpos   |-> U32At(bs, base + 16),
        btpos   |-> U32At(bs, base + 20),
        htcount |-> U32At(bs, base + 24),
        btcount |-> U32At(bs, base + 28),
        hibtlo  |-> IF v2 THEN U32At(bs, base + 32) ELSE WZero,
        hibthi  |-> IF v2 THEN U32At(bs, base + 36) ELSE WZero,
        hthi    |-> IF v2 THEN U16At(bs, base + 40) ELSE 0,
        bthi    |-> IF v2 THEN U16At(bs, base + 42) ELSE 0,
        \* V3: 64-bit archive size and the HET/BET positions (24 bytes at +44)
        v3ext   |-> IF ver = 2 /\ base + 68 <= Len(bs) THEN SubSeq(bs, base + 45, base + 68) ELSE <<>> ]

\* What the reference requires of a V1/V2 header of an archive of `alen` bytes (from the header
\* to the end of the file).  Evaluated on logged integers by Trace_MpqFormat as well.
HeaderConforms(hsize, asize, ver, shift, htpos, btpos, htcount, btcount, hibt, hthi, bthi, alen) ==
  /\ ver \in {0, 1}
  /\ hsize = HeaderSize(ver)
  /\ shift \in 0..22
  /\ htcount >= 1 /\ IsPow2(htcount)
  /\ btcount >= 0
  /\ htpos >= hsize /\ htpos + 16 * htcount <= alen
  /\ btpos >= hsize /\ btpos + 16 * btcount <= alen
  /\ (htpos + 16 * htcount <= btpos \/ btpos + 16 * btcount <= htpos)      \* tables do not overlap
  /\ (ver = 0 => asize = alen)                                             \* V1: 32-bit archive size
  /\ (ver = 1 => /\ hthi = 0 /\ bthi = 0
                 /\ (hibt = 0 \/ (hibt >= hsize /\ hibt + 2 * btcount <= alen)))

HeaderNat(h) ==    \* header fields as naturals (-1 = too large for a small archive)
  [ hsize |-> NatOf(h.hsize), asize |-> NatOf(h.asize), ver |-> h.ver, shift |-> h.shift,
    htpos |-> NatOf(h.htpos), btpos |-> NatOf(h.btpos), htcount |-> NatOf(h.htcount),
    btcount |-> NatOf(h.btcount), hibt |-> IF h.hibthi = WZero THEN NatOf(h.hibtlo) ELSE -1,
    hthi |-> h.hthi, bthi |-> h.bthi,
    \* V3 extension: archive size (low dword as a natural, high dword must be 0) and whether HET/BET positions are all zero
    asize64 |-> IF Len(h.v3ext) = 24 /\ SubSeq(h.v3ext, 5, 8) = <<0, 0, 0, 0>> THEN NatOf(U32At(h.v3ext, 0)) ELSE -1,
    nohetbet |-> Len(h.v3ext) = 24 /\ SubSeq(h.v3ext, 9, 24) = Zeros(16) ]

\* A V3 header over classic tables only (no HET/BET: both positions 0) is a V2 header plus the 64-bit archive size.
HeaderOk(hn, alen) ==
  /\ \A fld \in {"hsize", "asize", "htpos", "btpos", "htcount", "btcount", "hibt"} : hn[fld] >= 0
  /\ IF hn.ver = 2
     THEN /\ hn.hsize = HeaderSize(2) /\ hn.asize64 = alen /\ hn.nohetbet
          /\ HeaderConforms(HeaderSize(1), hn.asize, 1, hn.shift, hn.htpos, hn.btpos, hn.htcount, hn.btcount,
                            hn.hibt, hn.hthi, hn.bthi, alen)
          /\ hn.htpos >= HeaderSize(2) /\ hn.btpos >= HeaderSize(2)
     ELSE HeaderConforms(hn.hsize, hn.asize, hn.ver, hn.shift, hn.htpos, hn.btpos, hn.htcount, hn.btcount,
                         hn.hibt, hn.hthi, hn.bthi, alen)

\* encrypted table of `cnt` 16-byte entries at archive offset pos -> 4*cnt plain words
TableWords(bs, base, pos, cnt, key) ==
  StdDecWords(WordsOf(SubSeq(bs, base + pos + 1, base + pos + 16 * cnt)), key)

\* hash entry: name_hash_a, name_hash_b, locale:u16, platform:u16, block_index   (mpq.md)
HashTableOf(bs, base, hn) ==
  LET ws == TableWords(bs, base, hn.htpos, hn.htcount, TableKeyHash)
  IN  [hi \in 0..(hn.htcount - 1) |->
         [ ha |-> ws[4 * hi + 1], hb |-> ws[4 * hi + 2],
           locale |-> ws[4 * hi + 3][2], platform |-> ws[4 * hi + 3][1], blk |-> ws[4 * hi + 4] ]]

\* block entry: file_offset, compressed_size, uncompressed_size, flags             (mpq.md)
BlockTableOf(bs, base, hn) ==
  LET ws == TableWords(bs, base, hn.btpos, hn.btcount, TableKeyBlock)
  IN  [bi \in 0..(hn.btcount - 1) |->
         [ pos |-> ws[4 * bi + 1], csize |-> ws[4 * bi + 2], fsize |-> ws[4 * bi + 3], flags |-> ws[4 * bi + 4] ]]

\* "File Search Algorithm" (mpq.md): start at TABLE_OFFSET hash mod size, linear probing, stop at a
\* never-used entry; deleted entries are skipped.  Several entries may carry the same name with different
\* locales: the entry of the requested locale wins, else the neutral (0) one, else the first.  Slot or -1.
HashLookupL(ht, cnt, name, locale) ==
  LET ha   == HashString(name, NAME_A)
      hb   == HashString(name, NAME_B)
      home == NatOf(And32(HashString(name, TABLE_OFFSET), WFromNat(cnt - 1)))
      probe(acc, pk) ==
        IF acc.stop THEN acc
        ELSE LET slot == (home + pk) % cnt
                 en   == ht[slot]
             IN  IF en.blk = HASH_EMPTY THEN [acc EXCEPT !.stop = TRUE]
                 ELSE IF en.blk # HASH_DELETED /\ en.ha = ha /\ en.hb = hb
                      THEN [acc EXCEPT !.exact   = IF acc.exact < 0 /\ en.locale = locale THEN slot ELSE acc.exact,
                                       !.neutral = IF acc.neutral < 0 /\ en.locale = 0 THEN slot ELSE acc.neutral,
                                       !.first   = IF acc.first < 0 THEN slot ELSE acc.first]
                      ELSE acc
      res == FoldLeft(probe, [stop |-> FALSE, exact |-> -1, neutral |-> -1, first |-> -1], [pk \in 1..cnt |-> pk - 1])
  IN  IF res.exact >= 0 THEN res.exact ELSE IF res.neutral >= 0 THEN res.neutral ELSE res.first
HashLookup(ht, cnt, name) == HashLookupL(ht, cnt, name, 0)

\* one decoded sector: method byte (or -1 = stored raw), payload, expected plain length
Sector(plain, want, maybeCompressed) ==
  IF maybeCompressed /\ Len(plain) < want /\ Len(plain) >= 1
  THEN [m |-> plain[1], p |-> SubSeq(plain, 2, Len(plain)), want |-> want]
  ELSE [m |-> -1, p |-> plain, want |-> want]

NoFile(res) == [res |-> res, flags |-> WZero, pos |-> -1, csize |-> -1, fsize |-> -1, blk |-> -1,
                single |-> FALSE, cflag |-> FALSE, enc |-> "plain", sectors |-> <<>>, stored |-> <<>>,
                locale |-> -1, platform |-> -1, crc |-> "none"]

\* Decode the file of block entry `be` (looked up under `name`) of the archive at `base`.
\* First a *plan* is derived from the block entry (which byte ranges are cipher units, with which key
\* offset, what plain length each must have, whether a unit may be compressed); then every unit is
\* decrypted (one place) and turned into a sector.
ReadBlock(bs, base, ssize, be, blk, name, d) ==
  LET pos   == NatOf(be.pos)
      csize == NatOf(be.csize)
      fsize == NatOf(be.fsize)
      fl    == be.flags
      encd  == Has(fl, F_ENCRYPTED)
      key   == FileKeyOf(name, be.pos, be.fsize, fl, d)
      sngl  == Has(fl, F_SINGLE)
      cfl   == Has(fl, F_COMPRESS)
      nsec  == CeilDiv(fsize, ssize)
      crcf  == Has(fl, F_SECTORCRC) /\ ~sngl                     \* sector checksums are ignored for single-unit files
      stdcrc == crcf /\ ~d.crclayout
      libcrc == crcf /\ d.crclayout
      ntab  == IF stdcrc THEN nsec + 2 ELSE nsec + 1             \* entries of the sector offset table
      want(si) == Min2(ssize, fsize - (si - 1) * ssize)          \* si = 1..nsec
      inside(lo, hi) == lo >= 0 /\ lo <= hi /\ base + hi <= Len(bs)     \* byte range [lo,hi) of the archive
      slice(lo, hi)  == SubSeq(bs, base + lo + 1, base + hi)
      Plan(res, units, split) == [res |-> res, units |-> units, split |-> split]
      Unit(lo, hi, ko, wantl, mc) == [lo |-> lo, hi |-> hi, ko |-> ko, want |-> wantl, mc |-> mc]
      \* sector offset table: nsec+1 dwords relative to the file start, encrypted with key-1
      offw  == LET raww == WordsOf(slice(pos, pos + 4 * ntab))
               IN  IF encd THEN StdDecWords(raww, Sub32(key, <<0, 1>>)) ELSE raww
      off   == [oi \in 1..ntab |-> NatOf(offw[oi])]
      okoff == /\ off[1] = (IF libcrc THEN 4 * (nsec + 1) + 4 * nsec ELSE 4 * ntab)
               /\ \A oi \in 1..nsec : off[oi] >= 0 /\ off[oi] <= off[oi + 1] /\ off[oi + 1] - off[oi] <= want(oi)
               /\ (IF stdcrc THEN off[nsec + 1] <= off[nsec + 2] /\ off[nsec + 2] = csize
                   ELSE IF libcrc THEN off[nsec + 1] = csize + 4 * nsec
                   ELSE off[nsec + 1] = csize)
               /\ inside(pos, pos + off[ntab])
      \* the stored checksums (raw table of nsec dwords), or <<>> if absent / stored compressed
      crcw  == IF stdcrc /\ off[nsec + 2] - off[nsec + 1] = 4 * nsec THEN WordsOf(slice(pos + off[nsec + 1], pos + off[nsec + 2]))
               ELSE IF libcrc THEN WordsOf(slice(pos + 4 * (nsec + 1), pos + 4 * (nsec + 1) + 4 * nsec))
               ELSE <<>>
      plan ==
        IF pos < 0 \/ csize < 0 \/ fsize < 0 \/ ~Has(fl, F_EXISTS) THEN Plan("malformed:entry", <<>>, FALSE)
        ELSE IF Has(fl, F_IMPLODE) \/ Has(fl, F_PATCH) THEN Plan("unsupported", <<>>, FALSE)
        ELSE IF fsize = 0 THEN Plan("ok", <<>>, FALSE)
        ELSE IF sngl THEN
               \* one unit; compressed iff stored smaller than the file
               IF ~inside(pos, pos + csize) \/ csize = 0 THEN Plan("malformed:range", <<>>, FALSE)
               ELSE Plan("ok", << Unit(pos, pos + csize, 0, fsize, cfl) >>, FALSE)
        ELSE IF ~cfl /\ ~d.rawtable THEN
               \* not compressed: sectors of exactly ssize bytes back to back, no offset table
               IF csize # fsize \/ ~inside(pos, pos + fsize) THEN Plan("malformed:rawsize", <<>>, FALSE)
               ELSE IF d.oneblock THEN Plan("ok", << Unit(pos, pos + fsize, 0, fsize, FALSE) >>, TRUE)
               ELSE Plan("ok", [si \in 1..nsec |-> Unit(pos + (si-1)*ssize, pos + (si-1)*ssize + want(si), si - 1, want(si), FALSE)], FALSE)
        ELSE IF ~inside(pos, pos + 4 * ntab) THEN Plan("malformed:table", <<>>, FALSE)
        ELSE IF ~okoff THEN Plan("malformed:offsets", <<>>, FALSE)
        ELSE Plan("ok", [si \in 1..nsec |-> Unit(pos + off[si], pos + off[si + 1], si - 1, want(si), cfl)], FALSE)
      plains == [ui \in 1..Len(plan.units) |->
                   LET un == plan.units[ui]
                   IN  IF encd THEN UnitDecrypt(slice(un.lo, un.hi), Add32n(key, un.ko), d) ELSE slice(un.lo, un.hi)]
      secs   == IF plan.split
                THEN [si \in 1..nsec |-> [m |-> -1, p |-> SubSeq(plains[1], (si-1)*ssize + 1, (si-1)*ssize + want(si)), want |-> want(si)]]
                ELSE [ui \in 1..Len(plan.units) |-> Sector(plains[ui], plan.units[ui].want, plan.units[ui].mc)]
      stored == IF plan.split THEN [si \in 1..nsec |-> want(si)]
                ELSE [ui \in 1..Len(plan.units) |-> plan.units[ui].hi - plan.units[ui].lo]
      tabled == plan.res = "ok" /\ fsize > 0 /\ ~sngl /\ (cfl \/ d.rawtable)
      \* checksum verdict: standard = ADLER32 of each sector as stored (after decryption), 0 = no checksum;
      \* library layout = ADLER32 of the uncompressed sector (only checkable here for sectors stored raw)
      crcres == IF ~crcf \/ ~tabled THEN "none"
                ELSE IF crcw = <<>> THEN "unverified"
                ELSE IF \A ui \in 1..nsec :
                          \/ crcw[ui] = WZero
                          \/ (libcrc /\ secs[ui].m # -1)
                          \/ crcw[ui] = Adler32(plains[ui])
                     THEN "ok" ELSE "bad"
  IN  [ res |-> plan.res, flags |-> fl, pos |-> pos, csize |-> csize, fsize |-> fsize, blk |-> blk,
        single |-> sngl, cflag |-> cfl,
        enc |-> IF ~encd THEN "plain" ELSE IF Has(fl, F_FIXKEY) THEN "fix" ELSE "enc",
        sectors |-> secs, stored |-> stored, locale |-> -1, platform |-> -1, crc |-> crcres ]

\* An opened archive: header + decrypted tables (or why not)
OpenArchive(bs) ==
  LET base == FindHeader(bs)
  IN  IF base < 0 THEN [res |-> "noheader", base |-> -1, alen |-> 0, hn |-> <<>>, hok |-> FALSE]
      ELSE LET hn   == HeaderNat(ParseHeader(bs, base))
               alen == Len(bs) - base
           IN  [res |-> IF HeaderOk(hn, alen) THEN "ok" ELSE "badheader", base |-> base, alen |-> alen,
                hn |-> hn, hok |-> HeaderOk(hn, alen)]

\* RefReadFile: look the name up and decode its sectors under dialect d.  `ar` = OpenArchive(bs),
\* ht/bt its tables (computed once per archive by the caller).
\* RefReadFileL: the same for the entry of a given locale (exact locale, else neutral, else first)
RefReadFileL(bs, ar, ht, bt, name, locale, d) ==
  LET slot == HashLookupL(ht, ar.hn.htcount, name, locale)
  IN  IF slot < 0 THEN NoFile("notfound")
      ELSE LET blk == NatOf(ht[slot].blk)
           IN  IF blk < 0 \/ blk >= ar.hn.btcount THEN NoFile("malformed:blockindex")
               ELSE [ReadBlock(bs, ar.base, SectorSize(ar.hn.shift), bt[blk], blk, name, d)
                       EXCEPT !.locale = ht[slot].locale, !.platform = ht[slot].platform]

RefReadFile(bs, ar, ht, bt, name, d) == RefReadFileL(bs, ar, ht, bt, name, 0, d)

\* RefRead(bytes, names, d) = [name |-> decoded file]   (names: a set of byte strings)
RefRead(bs, names, d) ==
  LET ar == OpenArchive(bs)
  IN  IF ar.res # "ok" THEN [nm \in names |-> NoFile(ar.res)]
      ELSE LET ht == HashTableOf(bs, ar.base, ar.hn)
               bt == BlockTableOf(bs, ar.base, ar.hn)
           IN  [nm \in names |-> RefReadFile(bs, ar, ht, bt, nm, d)]

\* which named deviations can matter for a decoded file (labels for diagnostics / signatures)
HasPath(name) == BaseName(name) # name
DevLabels(name, fi) ==
  (IF fi.enc # "plain" /\ HasPath(name) /\ fi.fsize > 0 THEN {"pathkey"} ELSE {})
  \cup (IF fi.enc # "plain" /\ \E si \in 1..Len(fi.stored) : fi.stored[si] % 4 # 0 THEN {"tail"} ELSE {})
  \cup (IF ~fi.single /\ ~fi.cflag /\ fi.fsize > 0 THEN {"rawsector"} ELSE {})

\* Explaining a rejected file: the deviations are tried in every combination (a fix of one of them in
\* the library must not turn the files that also suffer from another one into unexplained ones).
\* Labels: "tail", "pathkey", "rawtable" (writer side), "oneblock" (reader side).
DialectOf(labels) == [tail |-> "tail" \in labels, pathkey |-> "pathkey" \in labels,
                      rawtable |-> "rawtable" \in labels, oneblock |-> "oneblock" \in labels,
                      crclayout |-> "crclayout" \in labels]
\* non-empty subsets, smallest first (the first explaining one is the minimal explanation)
LabelOrder == <<"crclayout", "oneblock", "pathkey", "rawtable", "tail">>
LabelSeq(labels) == SelectSeq(LabelOrder, LAMBDA lb : lb \in labels)
SubsetKey(sb) == 32 * Cardinality(sb) + (IF "crclayout" \in sb THEN 16 ELSE 0) + (IF "oneblock" \in sb THEN 8 ELSE 0) + (IF "pathkey" \in sb THEN 4 ELSE 0)
                 + (IF "rawtable" \in sb THEN 2 ELSE 0) + (IF "tail" \in sb THEN 1 ELSE 0)
SubsetSeqs(labels) == SetToSortSeq((SUBSET labels) \ {{}}, LAMBDA a, b : SubsetKey(a) < SubsetKey(b))
\* deviations that can possibly matter for a file, from what is known without a key.
\* side = "w": the library wrote the archive (direction 1); "r": the library reads it (direction 2)
CandLabels(name, enc, single, cflag, crcflag, fsize, csize, nsec, side) ==
  (IF side = "w" /\ crcflag /\ ~single /\ fsize > 0 THEN {"crclayout"} ELSE {}) \cup
  (IF enc # "plain" /\ fsize > 0 /\ HasPath(name) THEN {"pathkey"} ELSE {})
  \cup (IF enc # "plain" /\ fsize > 0 /\ (single => csize % 4 # 0) THEN {"tail"} ELSE {})
  \cup (IF side = "w" /\ ~single /\ ~cflag /\ fsize > 0 THEN {"rawtable"} ELSE {})
  \cup (IF side = "r" /\ ~single /\ ~cflag /\ enc # "plain" /\ nsec > 1 THEN {"oneblock"} ELSE {})

---------------------------------------------------------------------------
(*                               WRITER                                    *)
(* An abstract file to be written:                                         *)
(*   [name: bytes, locale (0 = neutral), crc: BOOLEAN (sector checksums requested),        *)
(*    fsize, enc: "plain"|"enc"|"fix", single: BOOLEAN,                                   *)
(*    cflag: BOOLEAN (COMPRESS requested),                                 *)
(*    sectors: Seq([m: -1|method byte, p: payload bytes])]                 *)
(* single => one sector covering the file; otherwise ceil(fsize/S) sectors.*)
(* cfg = [ver, shift, hcount, ndel, hibt: BOOLEAN, prefix: bytes before    *)
(*        the header (multiple of 512)]                                    *)
(* Writer state (a record, threaded through the steps):                    *)
(*   img     bytes of the archive so far (from the header on)              *)
(*   blocks  block entries so far    hash  slot -> entry                   *)
---------------------------------------------------------------------------
UnitBytes(sec) == IF sec.m >= 0 THEN <<sec.m>> \o sec.p ELSE sec.p

FlagsOf(f) ==
  Or32(F_EXISTS,
  Or32(IF f.cflag THEN F_COMPRESS ELSE WZero,
  Or32(IF f.enc # "plain" THEN F_ENCRYPTED ELSE WZero,
  Or32(IF f.enc = "fix" THEN F_FIXKEY ELSE WZero,
  Or32(IF f.crc /\ f.cflag /\ ~f.single THEN F_SECTORCRC ELSE WZero,     \* only for sectored COMPRESS files
       IF f.single THEN F_SINGLE ELSE WZero)))))

\* bytes of one file stored at archive offset pos: [sector offset table] ++ cipher units
FileImage(f, pos, d) ==
  LET fl   == FlagsOf(f)
      key  == FileKeyOf(f.name, WFromNat(pos), WFromNat(f.fsize), fl, d)
      encd == f.enc # "plain"
      nsec == Len(f.sectors)
      units == [si \in 1..nsec |-> UnitBytes(f.sectors[si])]
      hasTable == f.fsize > 0 /\ ~f.single /\ (f.cflag \/ d.rawtable)
      \* cipher units with their key offsets
      parts == IF f.fsize = 0 THEN <<>>
               ELSE IF f.single THEN << [u |-> units[1], ko |-> 0] >>
               ELSE IF ~hasTable /\ d.oneblock THEN << [u |-> ConcatAll(units), ko |-> 0] >>
               ELSE [si \in 1..nsec |-> [u |-> units[si], ko |-> si - 1]]
      stored == [pi \in 1..Len(parts) |->
                   IF encd THEN UnitEncrypt(parts[pi].u, Add32n(key, parts[pi].ko), d) ELSE parts[pi].u]
      \* standard sector checksums: one more table entry, one more (raw, never encrypted) sector of ADLER32
      \* values of the sectors as stored before encryption
      crcs == hasTable /\ f.crc /\ f.cflag
      ntab == IF crcs THEN nsec + 2 ELSE nsec + 1
      offd == FoldLeft(LAMBDA acc, si : Append(acc, acc[Len(acc)] + Len(units[si])),
                       <<4 * ntab>>, [si \in 1..nsec |-> si])
      offs == IF crcs THEN Append(offd, offd[nsec + 1] + 4 * nsec) ELSE offd
      offw == [oi \in 1..ntab |-> WFromNat(offs[oi])]
      table == IF ~hasTable THEN <<>>
               ELSE BytesOf(IF encd THEN StdEncWords(offw, Sub32(key, <<0, 1>>)) ELSE offw)
      crcsec == IF crcs THEN ConcatAll([si \in 1..nsec |-> LE32(Adler32(units[si]))]) ELSE <<>>
  IN  table \o ConcatAll(stored) \o crcsec

EmptyHashEntry   == [ha |-> HASH_EMPTY, hb |-> HASH_EMPTY, locale |-> 65535, platform |-> 65535, blk |-> HASH_EMPTY]
DeletedHashEntry == [ha |-> HASH_EMPTY, hb |-> HASH_EMPTY, locale |-> 65535, platform |-> 65535, blk |-> HASH_DELETED]
HomeSlot(name, cnt) == NatOf(And32(HashString(name, TABLE_OFFSET), WFromNat(cnt - 1)))

\* insert by linear probing into the first never-used slot (deleted slots are left alone, so that
\* readers have to probe across them)
HashInsert(ht, cnt, name, blk, locale) ==
  LET home == HomeSlot(name, cnt)
      free == {pk \in 0..(cnt - 1) : ht[(home + pk) % cnt].blk = HASH_EMPTY}
      pk0  == CHOOSE pk \in free : \A p2 \in free : pk <= p2
  IN  [ht EXCEPT ![(home + pk0) % cnt] =
         [ha |-> HashString(name, NAME_A), hb |-> HashString(name, NAME_B), locale |-> locale, platform |-> 0,
          blk |-> WFromNat(blk)]]

HashEntryBytes(en) == LE32(en.ha) \o LE32(en.hb) \o LE16(en.locale) \o LE16(en.platform) \o LE32(en.blk)
BlockEntryBytes(be) == LE32(be.pos) \o LE32(be.csize) \o LE32(be.fsize) \o LE32(be.flags)
EncTable(bytes, key) == BytesOf(StdEncWords(WordsOf(bytes), key))

\* ---- the layout steps -------------------------------------------------------------------
\* deleted markers are put on the home slots of the first cfg.ndel files
WBegin(files, cfg) ==
  LET dels == {HomeSlot(files[fi].name, cfg.hcount) : fi \in 1..Min2(cfg.ndel, Len(files))}
  IN  [ img    |-> Zeros(HeaderSize(cfg.ver)),
        blocks |-> <<>>,
        hash   |-> [hs \in 0..(cfg.hcount - 1) |-> IF hs \in dels THEN DeletedHashEntry ELSE EmptyHashEntry],
        htpos  |-> 0, btpos |-> 0, hibtpos |-> 0 ]

WAppendFile(st, f, cfg, d) ==
  LET pos  == Len(st.img)
      data == FileImage(f, pos, d)
      be   == [pos |-> WFromNat(pos), csize |-> WFromNat(Len(data)), fsize |-> WFromNat(f.fsize), flags |-> FlagsOf(f)]
  IN  [st EXCEPT !.img = st.img \o data,
                 !.blocks = Append(st.blocks, be),
                 !.hash = HashInsert(st.hash, cfg.hcount, f.name, Len(st.blocks), f.locale)]

WEmitHash(st, cfg) ==
  [st EXCEPT !.htpos = Len(st.img),
             !.img = st.img \o EncTable(ConcatAll([hs \in 1..cfg.hcount |-> HashEntryBytes(st.hash[hs - 1])]), TableKeyHash)]

WEmitBlock(st, cfg) ==
  [st EXCEPT !.btpos = Len(st.img),
             !.img = st.img \o EncTable(ConcatAll([bi \in 1..Len(st.blocks) |-> BlockEntryBytes(st.blocks[bi])]), TableKeyBlock)]

\* optional hi-block table (V2): one u16 per block, all zero for a small archive, not encrypted
WEmitHiBlock(st, cfg) ==
  IF cfg.ver >= 1 /\ cfg.hibt
  THEN [st EXCEPT !.hibtpos = Len(st.img), !.img = st.img \o Zeros(2 * Len(st.blocks))]
  ELSE st

HeaderBytes(st, cfg) ==
  Magic \o LE32n(HeaderSize(cfg.ver)) \o LE32n(Len(st.img)) \o LE16(cfg.ver) \o LE16(cfg.shift)
        \o LE32n(st.htpos) \o LE32n(st.btpos) \o LE32n(cfg.hcount) \o LE32n(Len(st.blocks))
        \o (IF cfg.ver >= 1 THEN LE32n(st.hibtpos) \o LE32n(0) \o LE16(0) \o LE16(0) ELSE <<>>)
        \o (IF cfg.ver = 2 THEN LE32n(Len(st.img)) \o LE32n(0) \o Zeros(16) ELSE <<>>)   \* archive_size_64, BET = HET = 0

WPatchHeader(st, cfg) ==
  [st EXCEPT !.img = HeaderBytes(st, cfg) \o SubSeq(st.img, HeaderSize(cfg.ver) + 1, Len(st.img))]

WFinish(st, cfg) == cfg.prefix \o st.img

\* RefWrite = the fold of the steps.  RefWriteD: one dialect per file (dials[i] for files[i]).
RefWriteD(files, cfg, dials) ==
  LET s1 == FoldLeft(LAMBDA st, fi : WAppendFile(st, files[fi], cfg, dials[fi]), WBegin(files, cfg),
                     [fi \in 1..Len(files) |-> fi])
      s2 == WEmitHiBlock(WEmitBlock(WEmitHash(s1, cfg), cfg), cfg)
  IN  WFinish(WPatchHeader(s2, cfg), cfg)
RefWrite(files, cfg, d) == RefWriteD(files, cfg, [fi \in 1..Len(files) |-> d])

\* what RefRead must return for a written file (sector list with expected lengths)
ExpectSectors(f, ssize) ==
  IF f.fsize = 0 THEN <<>>
  ELSE IF f.single THEN << [m |-> f.sectors[1].m, p |-> f.sectors[1].p, want |-> f.fsize] >>
  ELSE [si \in 1..Len(f.sectors) |->
          [m |-> f.sectors[si].m, p |-> f.sectors[si].p, want |-> Min2(ssize, f.fsize - (si - 1) * ssize)]]

\* well-formedness of an abstract file (what a format-conformant writer may be asked to write)
FileWellFormed(f, ssize) ==
  /\ f.fsize >= 0 /\ f.enc \in {"plain", "enc", "fix"}
  /\ Len(f.sectors) = (IF f.fsize = 0 THEN 0 ELSE IF f.single THEN 1 ELSE CeilDiv(f.fsize, ssize))
  /\ \A si \in 1..Len(f.sectors) :
       LET wantl == IF f.single THEN f.fsize ELSE Min2(ssize, f.fsize - (si - 1) * ssize)
           sec   == f.sectors[si]
       IN  IF sec.m >= 0 THEN f.cflag /\ Len(sec.p) + 1 < wantl      \* stored compressed only if smaller
           ELSE Len(sec.p) = wantl

=============================================================================
