CONSTANTS
  SectorSize = 4096
  TableSize = 4
  FlagFix = FALSE
  NameHash <- MCNameHash
  LibFileKey <- MCFileKey
INIT MCInit
NEXT MCNextOnce
INVARIANT LayoutAgreement
INVARIANT ShortcutUnreachable
INVARIANT SectorTestSound
INVARIANT StoredBound
INVARIANT NoOverlap
INVARIANT TableWellFormed
INVARIANT KeyAgreement
INVARIANT ReadBack
INVARIANT ReadBackNeverNotFound
INVARIANT AbsentNotFound
CHECK_DEADLOCK FALSE
