"""X01 -- the thread-safe buffer pool wow_mpq::buffer_pool (beyond the twenty listed properties)."""
import json

from vlib import core

DEVS = {  # must-refute deviations of BufferPool.tla -> the invariants one of which TLC has to report
    "NoClear": ("PooledEmpty", "HandedOutEmpty"), "LeCap": ("PoolBounded",), "HitEarly": ("HitsExact", "Conservation"),
    "NoPop": ("NoAlias", "BufferFlow"), "NoReserve": ("HandedOutCap",), "LtFor": ("CategoryRight",),
    "NestedSizes": ("OneLock", "LockOwner"), "RacyCount": ("Conservation", "HitsExact", "CountersSane"),
    "ReturnsAll": ("Conservation", "HitsExact", "EndBalanced"),
}

META = {
    "disabled": False,
    "extra": True,
    "level": "model_checking",
    "level_text": "BufferPool.tla models wow_mpq::BufferPool as a concurrent state machine with one action per lock acquisition / critical section / "
                  "atomic counter update of get_buffer, the guard's drop (return_buffer), take, pool_sizes, plus the caller's own changes of the Vec it "
                  "was lent. TLC checks for ALL interleavings of 2 threads x 3 calls (3 threads x 2 calls; all size classes incl. 0, the category "
                  "boundaries and oversize; max_buffers_per_size 0..2; statistics on/off): pooled count <= max, no buffer in two places, handed-out "
                  "buffers are empty and have capacity >= category >= request, the category is the smallest sufficient one, one lock per critical "
                  "section and no deadlock, counters monotone, never ahead of the calls, exact at quiescence (hits = reuses, misses = allocations, "
                  "returns + discards = drops) and zero when disabled; nine named deviations (clear omitted, <= in the capacity test, hit counted "
                  "before the pop, ...) must each be refuted. TLC then generates operation programs (simulated behaviours of the specification for "
                  "1..4 threads + enumerated boundary families); the driver runs them on the real pool; TLC validates sequential traces call by "
                  "call against the specification's state and concurrent runs by the conservation laws and by searching a linearisation of the "
                  "specification's lock acquisitions that ends in the observed quiescent state.",
    "level_note": "Schedules of the real threads are sampled (repeated runs with seeded jitter), not enumerated; exhaustiveness over interleavings is a "
                  "statement about the model. Buffer identity is not observable through the safe API (capacity is the only fingerprint: DRIFT only). "
                  "Guards are dropped by the thread that obtained them.",
    "technique": "TLA+ model of the pool's critical sections, all interleavings model-checked, must-refute deviations; TLC-generated programs; "
                 "TLC trace validation with silent specification steps and linearisation search",
    "design_ref": "notes/X01.md",
    "crates": ["x01"],
}


def sig(b):
    r = b.get("rec") or {}
    reset = b.get("reset") or {}
    return {"why": (b.get("why") or "").strip('"'), "mode": reset.get("mode"), "op": r.get("op", "conc"),
            "stats": reset.get("stats"), "maxper0": reset.get("maxper") == 0}


def _sim(ctx, cfg, num, depth=300):
    rc, text = ctx.tlc("Gen_BufferPool", cfg, workers=1, timeout=300, simulate=f"num={num}",
                       extra=("-seed", str(ctx.seed), "-depth", str(depth)), tag="sim-" + cfg)
    out = []
    for line in text.splitlines():
        line = line.strip()
        if line.startswith('"CASE '):
            out.append(json.loads(json.loads(line)[5:]))
    if not out:
        raise core.ToolError(f"stage B: simulation {cfg} produced no case:\n" + core._tail(text))
    core.log(f"(B) {cfg}: {len(out)} simulated behaviours")
    return out


def run(ctx, cases=None):
    ctx.env["CARGO_BUILD_JOBS"] = "4"
    th = ctx.thorough
    import os
    if os.environ.get("X01_SELFTEST_SKIP_MC") and core.repo_root() != "/repo":
        # self-test runs on a scratch worktree only (mutants / refactors): stage A does not depend on the tree
        ctx.mc("MC_BufferPool", cfg="MC_BufferPool_local", workers=4, timeout=600,
               allow_uncovered=("IDropPre", "IPeekAcquire", "IPeekRead", "IPeekCount", "IGetLoad", "IGetStore"))
        return _rest(ctx, cases, th)
    # ---- stage A: the intended design, the machine as coded today, and the must-refute deviations
    # (the caller's thread-local steps are folded into drop / take in the 2- and 3-thread models; MC_BufferPool_local unfolds them)
    devonly = ("IDropPre", "IPeekAcquire", "IPeekRead", "IPeekCount", "IGetLoad", "IGetStore")
    folded = ("CallShrink", "CallStats", "CallWrite") + devonly
    ctx.mc("MC_BufferPool", cfg="MC_BufferPool_deep" if th else "MC_BufferPool", workers=4, timeout=1500, allow_uncovered=folded)
    ctx.mc("MC_BufferPool", cfg="MC_BufferPool_wide", workers=4, timeout=600, allow_uncovered=folded)
    ctx.mc("MC_BufferPool", cfg="MC_BufferPool_t3", workers=4, timeout=600, allow_uncovered=folded)
    ctx.mc("MC_BufferPool", cfg="MC_BufferPool_local", workers=4, timeout=600, allow_uncovered=devonly,
           expect_actions=["CallGet", "CallWrite", "CallShrink", "CallTake", "CallDrop", "CallSizes", "CallStats", "ScopeEnd", "IGetAcquire", "IGetPop",
                           "IGetFinish", "IDropAcquire", "IDropPush", "IDropFinish", "ISizesAcquire", "ISizesRead"])
    ctx.mc("MC_BufferPool", cfg="MC_BufferPool_ascoded", workers=4, timeout=600, allow_uncovered=tuple(a for a in folded if a != "IDropPre"), expect_actions=["IDropPre"])
    ctx.notes.append("MC_BufferPool_ascoded (deviation ReturnsAll = the code today): every invariant holds with AsCodedCounts "
                     "(returns = drops) in place of returns + discards = drops")
    for dev, invs in DEVS.items():
        rc, text = ctx.tlc("MC_BufferPool", "MC_BufferPool_dev" + dev, workers=2, timeout=300, tag="dev-" + dev)
        hit = [i for i in invs if f"Invariant {i} is violated" in text]
        if not hit:
            raise core.ToolError(f"stage A: deviation {dev} of BufferPool is not refuted by the model checker:\n" + core._tail(text, 12))
        ctx.notes.append(f"MC_BufferPool_dev{dev}: refuted ({hit[0]})")
    return _rest(ctx, cases, th)


def _rest(ctx, cases, th):
    # ---- stage B
    if cases is None:
        enum, nenum = ctx.gen("Gen_BufferPool", cfg="Gen_BufferPool", env={"GEN_MODE": "enum"}, simulate="num=1", cases_name="enum.ndjson")
        sims = _sim(ctx, "Gen_BufferPool_seq", 400 if th else 60) + _sim(ctx, "Gen_BufferPool_t2", 200 if th else 40) \
            + _sim(ctx, "Gen_BufferPool_t3", 120 if th else 25) + _sim(ctx, "Gen_BufferPool_t4", 60 if th else 12)
        cases = ctx.path("cases.ndjson")
        with open(cases, "w") as f:
            f.write(open(enum).read())
            for c in sims:
                f.write(json.dumps(c) + "\n")
    recs = [json.loads(l) for l in open(cases)]
    ncases = len(recs)
    # ---- stage C, D
    binary = ctx.build("x01")
    trace = ctx.harness(binary, cases, timeout=1200)
    res = ctx.validate("Trace_BufferPool", trace, shards=4, heap="3g", timeout=1500)
    modes, samples, ops = {}, [], {}
    with open(trace) as f:
        for line in f:
            r = json.loads(line)
            if r["ev"] == "Reset":
                modes[r["mode"]] = modes.get(r["mode"], 0) + 1
            elif r["ev"] == "Call":
                ops[r["op"]] = ops.get(r["op"], 0) + 1
                if len(samples) < 3 and r["op"] == "get":
                    samples.append(r)
            elif r["ev"] == "Conc":
                for p in r["prog"]:
                    for o in p:
                        ops[o["op"]] = ops.get(o["op"], 0) + 1
                if len(samples) < 5 and len(r["prog"]) == 2:
                    samples.append(r)
    distinct = len({json.dumps(c, sort_keys=True) for c in recs})
    cov = {
        "traces_validated_against_impl": res["traces"],
        "samples": samples,
        "evaluations": res["events"] - res["traces"],
        "programs": ncases,
        "traces_by_mode": modes,
        "calls_by_kind": ops,
        "concurrent_runs_per_program": 8 if th else 3,
        "distinct_nontrivial": distinct,
        "rule": "one case = one operation program (configuration x per-thread call sequences), distinct as JSON; every program has >= 1 get",
        "exhaustive": False,
    }
    assumptions = ["a caller sees a buffer only through the safe API of Vec (len 0 = nothing of a previous user is visible)",
                   "oversize requests (> 1 MiB) fall into the Large category by design (for_capacity's else branch): capacity >= request is "
                   "claimed only for requests a category can satisfy",
                   "guards are dropped by the thread that obtained them; statistics are compared at quiescence in concurrent runs"]
    return core.finish(ctx, "model_checking", cov, assumptions, res["bad"], sig_fn=sig, trace=trace)


def replay(ctx, payload):
    idx = int(str(payload.get("case", "0")).split(":")[0])
    full = run_cases(ctx)
    lines = open(full).read().splitlines()
    sel = ctx.path("replay-cases.ndjson")
    with open(sel, "w") as f:
        for i, l in enumerate(lines[:idx + 1]):
            f.write((l if i == idx else json.dumps({"kind": "skip"})) + "\n")
    return run(ctx, cases=sel)


def run_cases(ctx):
    th = ctx.thorough
    enum, _ = ctx.gen("Gen_BufferPool", cfg="Gen_BufferPool", env={"GEN_MODE": "enum"}, simulate="num=1", cases_name="enum.ndjson")
    sims = _sim(ctx, "Gen_BufferPool_seq", 400 if th else 60) + _sim(ctx, "Gen_BufferPool_t2", 200 if th else 40) \
        + _sim(ctx, "Gen_BufferPool_t3", 120 if th else 25) + _sim(ctx, "Gen_BufferPool_t4", 60 if th else 12)
    cases = ctx.path("cases-full.ndjson")
    with open(cases, "w") as f:
        f.write(open(enum).read())
        for c in sims:
            f.write(json.dumps(c) + "\n")
    return cases
