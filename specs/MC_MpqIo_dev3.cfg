CONSTANTS
  DevZeroAtEnd = FALSE
  DevShutUnderflow = FALSE
  DevDropLeak = TRUE
  DevSumPanic = FALSE
INIT Init
NEXT Next
INVARIANTS InvContract InvAgree InvCounters InvSession InvNoPanic InvOpen
PROPERTY PropMono
CHECK_DEADLOCK FALSE
