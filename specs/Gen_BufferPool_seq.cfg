CONSTANT Threads = {1}
CONSTANT CatCap <- MCCatCap
CONSTANT MaxHeld = 3
CONSTANT Dev = {}
CONSTANT Budget = 9
CONSTANT Sizes = {0, 1, 2, 3, 4, 5, 6, 7}
CONSTANT MaxPers = {0, 1, 2, 3}
CONSTANT StatsModes = {TRUE, FALSE}
CONSTANT LocalOps = TRUE
INIT GInit
NEXT GNext
CHECK_DEADLOCK FALSE
