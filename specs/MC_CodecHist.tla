---------------------------- MODULE MC_CodecHist ----------------------------
(* Stage (A) for the call-history part of C03: every history of up to MaxCalls calls (round trips of every supported  *)
(* selector, damaged decompress calls of every damage kind, refused compress calls; two threads).  With the code's     *)
(* scope ("call") TLC proves CallIndependent; with a stage state that outlives the call (MC_CodecHist_thread.cfg,      *)
(* MC_CodecHist_process.cfg) TLC must find the counterexample "failed call, then a round trip through the same stage". *)
EXTENDS CodecHist

MaxCalls == 3
HBound == hcnt <= MaxCalls
ScopeThread == "thread"
ScopeProcess == "process"
\* every damage kind but the one refused before any stage runs endangers at least the unit's own selector
ASSUME \A m \in {ZLIB, BZIP2, LZMA, SPARSE} : \A d \in HDamage \ {"hugeexp"} : m \in SensitiveToBad(m, d)
ASSUME \A m \in HSel : SensitiveToBad(m, "hugeexp") = {}
\* a damaged ADPCM+zlib unit endangers plain zlib units and vice versa (the stage is shared), but not bzip2 units
ASSUME ZLIB \in SensitiveToBad(ADPCM_MONO + ZLIB, "flip") /\ (ADPCM_STEREO + ZLIB) \in SensitiveToBad(ZLIB, "trunc")
ASSUME BZIP2 \notin SensitiveToBad(ZLIB, "flip")
ASSUME SensitiveToBadC(ADPCM_MONO + ZLIB) = {ADPCM_MONO + s : s \in {0, ZLIB, BZIP2, SPARSE}}
=============================================================================
