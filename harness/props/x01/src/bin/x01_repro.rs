//! Minimal reproduction of X01-RETURNS-COUNTS-DISCARDS on the real wow_mpq::BufferPool (prints, decides nothing).
use std::sync::atomic::Ordering::Relaxed;
use wow_mpq::buffer_pool::{BufferPool, BufferSize, PoolConfig};

fn main() {
    let pool = BufferPool::with_config(PoolConfig { max_buffers_per_size: 1, collect_stats: true });
    {
        let _a = pool.get_buffer(BufferSize::Small);
        let _b = pool.get_buffer(BufferSize::Small);
    } // two drops: the pool keeps one buffer and discards the other
    let s = pool.statistics();
    println!(
        "drops=2 pooled={:?} returns={} discards={}  (documented: returns = buffers returned to pool -> 1)",
        pool.pool_sizes(),
        s.returns.load(Relaxed),
        s.discards.load(Relaxed)
    );
}
