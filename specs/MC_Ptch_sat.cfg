CONSTANT SeekMode = "saturate"
INIT Init
NEXT Next
INVARIANT PtchSafety
INVARIANT FoldAgrees
CHECK_DEADLOCK FALSE
