---------------------------- MODULE Trace_Codec ----------------------------
(* Stage (D) for C03: every recorded round trip of the real compress / decompress / decompress_secure *)
(* is judged against Codec.tla.  P-conjuncts (verdict): supported selectors compress; never expand;   *)
(* prefix iff shrunk; the compressor's own output is accepted by decompress and decompress_secure      *)
(* under the default limits and decodes to the input (lossless) resp. to the same length with the      *)
(* channel lanes in place (ADPCM).  When a P-conjunct fails, the reason names the deviation of the     *)
(* model that explains it (limit:..., dispatch:...), or "roundtrip"/... when the model has none.       *)
(* D-conjuncts (DRIFT only): the model's predicted outcome differs from the observed one although the  *)
(* property holds, and outcomes for selectors outside the supported set.                               *)
EXTENDS Codec, CodecHist, Json, IOUtils, TLCExt

Rec == ndJsonDeserialize(IOEnv.TRACE)
VARIABLES tl,
          tbase,    \* call histories: unit -> the observation of its first round trip in this trace (the reference)
          tshadow   \* call histories: CodecHist's object map under the negative-control scope "thread" (names the deviation)

LaneLaw(e) ==
  /\ e.swL = e.outR /\ e.swR = e.outL            \* swapping the input lanes swaps the output lanes
  \* a silent lane stays (near) silent and the loud lane stays loud, each in its place; amplitudes are
  \* peak |sample| per lane, thresholds are two orders of magnitude away from the observed 1 vs 12 000
  /\ (e.cls = "pcmL0" => e.ampOut[1] <= 64 /\ (e.ampIn[2] >= 1000 => 2 * e.ampOut[2] >= e.ampIn[2]))
  /\ (e.cls = "pcmR0" => e.ampOut[2] <= 64 /\ (e.ampIn[1] >= 1000 => 2 * e.ampOut[1] >= e.ampIn[1]))

DeviationName(m) == IF DevPkwareAsciiMode(m) THEN "pkware-ascii-mode"
                    ELSE IF DevMultiBzip2StrictSize(m) THEN "multi-bzip2-size"
                    ELSE IF DevBothAdpcmBits(m) THEN "both-adpcm-bits"
                    ELSE IF DevIgnoredBit(m) THEN "ignored-bit" ELSE "none"

\* does the observed decode result fall into the class the model predicts?
MatchesClass(res, cl) == \/ cl = "ok" /\ res = "ok"
                         \/ cl = "panic" /\ res = "panic"
                         \/ cl = "err" /\ res = "err:Compression"
                         \* (trees before 8c7dcc0 showed the PKWare mode mismatch as a panic of the implode crate)
                         \/ cl = "err" /\ res = "panic"

RoundTripOk(e) ==
  /\ e.dres = "ok" /\ e.sres = "ok" /\ e.dlen = e.len
  /\ (~LossySel(e.m) => e.dtok = e.itok /\ e.stok = e.itok)
  /\ (e.lanes => LaneLaw(e))

Verdict(e) ==
  LET m == e.m
      n == e.len
      pre == PreCheck(m, e.outLen - 1, n)
  IN
  IF e.cres \in {"panic", "hang"} THEN "compress-" \o e.cres
  ELSE IF e.cres # "ok" THEN (IF Supported(m) /\ AdpcmAligned(m, n) THEN "compress-refused" ELSE "ok")
  ELSE IF e.outLen > n THEN "expands"
  ELSE IF e.raw THEN (IF e.outLen = n THEN "ok" ELSE "raw-length")
  ELSE IF e.first # m \/ e.outLen >= n THEN "prefix"
  ELSE IF ~Supported(m) THEN "ok"
  ELSE IF RoundTripOk(e) THEN "ok"
  ELSE IF pre # "ok" /\ e.dres = pre /\ e.sres = pre THEN "limit:" \o pre
  ELSE IF pre = "ok" /\ DecodeClass(m) # "ok" /\ MatchesClass(e.dres, DecodeClass(m)) THEN "dispatch:" \o DeviationName(m)
  ELSE IF e.dres = "ok" /\ e.dlen = n /\ e.lanes /\ ~LaneLaw(e) THEN "lanes"
  ELSE "roundtrip"

Drift(e) ==
  IF e.cres # "ok" \/ e.raw THEN "none"
  ELSE IF ~Supported(e.m) THEN
       (IF MatchesClass(e.dres, DecodeClass(e.m)) \/ PreCheck(e.m, e.outLen - 1, e.len) # "ok" THEN "none"
        ELSE "unsupported-selector-outcome-differs-from-model")
  ELSE IF RoundTripOk(e) /\ (PreCheck(e.m, e.outLen - 1, e.len) # "ok" \/ DecodeClass(e.m) # "ok")
       THEN "model-predicts-failure-but-code-succeeds"
  ELSE "none"

\* The state variables of Codec's round-trip machine are not stepped here (one RT event folds the whole
\* behaviour RunPipeline .. DecodeStep); the verdict uses the machine's constant-level definitions.
TOne(n) == {1}
\* call-history independence (Codec!HistoryIndependent): the k-th decompress() of the same unit in one process gives
\* what the first gave, however much the calls before it decompressed
HistVerdict(e) == IF e.first[1] # "ok" THEN "history-first-call-failed"
                  ELSE IF e.firstdiff # -1 \/ e.last # e.first THEN "history-dependent"
                  ELSE "ok"

---------------------------------------------------------------------------
(* Call histories (CodecHist).  A `Call` event is one op of a history: the trace steps CodecHist's machine (HGood /     *)
(* HBad / HBadC under the code's scope "call", in which the model's result class of a round trip is the one Codec.tla   *)
(* gives for a first call).  P-conjuncts for a round trip (op = good): (i) CallIndependent -- the observation equals    *)
(* the reference observation of the same unit earlier in the trace; (ii) the RT verdict above, for every call.  A       *)
(* rejection by (i) is named after the scope of CodecHist that explains it.  Damaged / refused calls (bad, badc) carry  *)
(* no obligation (the property is silent on them); they only advance the machine.                                      *)
CallUnit(e) == <<e.m, e.len, e.cls>>
CallObs(e)  == <<e.cres, e.outLen, e.raw, e.first, e.dres, e.dlen, e.dtok, e.sres, e.stok>>
ShadowBad(hd, e) == IF e.op = "bad" THEN HAfterBad("thread", hd, e.thr, e.m, e.dmg)
                    ELSE IF e.op = "badc" THEN HAfterBadC("thread", hd, e.thr, e.m) ELSE hd
\* which carried state would explain a round trip that differs from its reference?
Explains(hd, e) ==
  IF \E o \in HUses(e.m) : hd[e.thr][o] # "fresh" THEN "state-kept-by-the-thread-after-a-failed-call"
  ELSE IF \E t \in HThreads : \E o \in HUses(e.m) : hd[t][o] # "fresh" THEN "state-kept-by-the-process-after-a-failed-call"
  ELSE "no-failed-call-through-a-shared-stage"
CallVerdict(e) ==
  IF e.thr \notin HThreads \/ e.op \notin {"good", "bad", "badc"} THEN "malformed-call"
  ELSE IF e.op # "good" THEN "ok"
  ELSE IF CallUnit(e) \in DOMAIN tbase /\ tbase[CallUnit(e)] # CallObs(e) THEN "history-dependent:" \o Explains(tshadow, e)
  ELSE Verdict(e)
TCall(e) ==
  /\ IF e.op = "good" THEN HGood(e.thr, e.m)
     ELSE IF e.op = "bad" /\ e.dmg \in HDamage THEN HBad(e.thr, e.m, e.dmg)
     ELSE IF e.op = "badc" /\ ~AdpcmAligned(e.m, e.len) THEN HBadC(e.thr, e.m)
     ELSE UNCHANGED hvars
  /\ tshadow' = ShadowBad(tshadow, e)
  /\ tbase' = IF e.op = "good" /\ CallUnit(e) \notin DOMAIN tbase THEN tbase @@ (CallUnit(e) :> CallObs(e)) ELSE tbase
  /\ (IF CallVerdict(e) = "ok" THEN TRUE ELSE PrintT(<<"BAD", tl, CallVerdict(e)>>))
  \* the model's result class for the round trip (scope "call") against the observed one: DRIFT only (Verdict decides)
  /\ (IF e.op = "good" /\ e.cres = "ok" /\ ~e.raw /\ Supported(e.m) /\ PreCheck(e.m, e.outLen - 1, e.len) = "ok"
         /\ (hlast'.res = "ok") # RoundTripOk(e) /\ CallVerdict(e) = "ok"
      THEN PrintT(<<"DRIFT", tl, "call-result-class-differs-from-model">>) ELSE TRUE)

TOther(e) ==
  IF e.ev = "Hang" THEN PrintT(<<"BAD", tl, "hang">>)        \* a codec call did not return (watchdog)
  ELSE IF e.ev = "Abort" THEN PrintT(<<"BAD", tl, "abort">>)      \* the process running the case died
  \* the code did not return from / died in a call on DAMAGED input: outside this property (the rest of the history is lost)
  ELSE IF e.ev \in {"HangDamaged", "AbortDamaged"} THEN PrintT(<<"DRIFT", tl, "damaged-input-" \o e.ev>>)
  ELSE IF e.ev = "Hist" THEN (IF HistVerdict(e) = "ok" THEN TRUE ELSE PrintT(<<"BAD", tl, HistVerdict(e)>>))
  ELSE IF e.ev # "RT" THEN PrintT(<<"BAD", tl, "unknown-event">>)
  ELSE LET v == Verdict(e) IN
       /\ (IF v = "ok" THEN TRUE ELSE PrintT(<<"BAD", tl, v>>))
       /\ (IF Drift(e) = "none" THEN TRUE ELSE PrintT(<<"DRIFT", tl, Drift(e)>>))

Init == tl = 1 /\ CInitWith({0}, {0}, TOne) /\ HInit /\ tbase = <<>> /\ tshadow = HFreshAll
Next == /\ tl <= Len(Rec)
        /\ tl' = tl + 1
        /\ UNCHANGED cvars
        /\ LET e == Rec[tl] IN
           IF e.ev = "Call" THEN TCall(e)
           ELSE IF e.ev = "Reset" THEN hobj' = HFreshAll /\ hcnt' = 0 /\ hlast' = HNoCall /\ tbase' = <<>> /\ tshadow' = HFreshAll
           ELSE UNCHANGED <<hvars, tbase, tshadow>> /\ TOther(e)

Accepted == LET d == TLCGet("stats").diameter IN
            IF d - 1 = Len(Rec) THEN PrintT(<<"CONSUMED", Len(Rec)>>) ELSE Print(<<"TRACE_STUCK_AT", d>>, FALSE)
=============================================================================
