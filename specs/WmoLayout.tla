------------------------------ MODULE WmoLayout ------------------------------
(***************************************************************************)
(* C15 -- layout and round-trip specification of WMO root and group files. *)
(*                                                                         *)
(* Sources: docs/src/formats/graphics/wmo.md (record sizes, MOHD fields,   *)
(* MOGP header) and the emission order of wow-wmo's writer.rs              *)
(* (write_root / write_group).  The specification describes the *format*   *)
(* writer: where writer.rs knowingly or accidentally differs, the          *)
(* difference is a named deviation (Dev) that is OFF in every checked      *)
(* configuration -- switching one on makes TLC report the invariant it     *)
(* breaks (see notes/C15.md), and the same invariants, evaluated on the    *)
(* bytes the real writer produced, are what trace validation reports.      *)
(*                                                                         *)
(* Three parts:                                                            *)
(*  1. constant-level layout definitions: versions, record sizes, MOHD     *)
(*     field table, string tables, the emission PLAN of a shape;           *)
(*  2. the writer machine (one action per chunk emitted, container         *)
(*     open/close with back-patched size) followed by an independent       *)
(*     walker that only knows the framing rule, and the layout invariants  *)
(*     (stage A, MC_WmoLayout);                                            *)
(*  3. the round-trip obligations (sections, Representable) used by        *)
(*     Trace_WmoLayout on the events recorded from the real code.          *)
(***************************************************************************)
EXTENDS ChunkFraming, Integers, Sequences, SequencesExt, FiniteSets, TLC

CONSTANT Dev          \* set of enabled deviations (strings); {} = the format writer

\* ------------------------------------------------------------------ versions
VClassic == 1   VTbc == 2   VWotlk == 3   VCata == 4   VMop == 5
Versions  == 1..5
VerName   == <<"Classic", "Tbc", "Wotlk", "Cataclysm", "Mop">>
RawVersion(v)     == 17                   \* every version Classic..MoP stores 17 in MVER
SupportsSkybox(v) == v >= VWotlk          \* WmoFeature::SkyboxReferences

\* ------------------------------------------------------------------ record sizes (bytes)
\* docs/src/formats/graphics/wmo.md: "MOMT 64 bytes per material", "MOGI 32", "MOPV 12",
\* "MOPT 20", "MOPR 8", "MOLT 48", "MODS 32", "MODD 40"; group: MOVT 12, MOVI 2, MONR 12,
\* MOTV 8, MOCV 4, MOBA 24, MOBN 16, MODR 2; MOGP fixed header 68; MOHD 64.
Elem == [MOMT |-> 64, MOGI |-> 32, MOPV |-> 12, MOPT |-> 20, MOPR |-> 8, MOLT |-> 48,
         MODS |-> 32, MODD |-> 40, MOVV |-> 4,
         MOVT |-> 12, MOVI |-> 2, MONR |-> 12, MOTV |-> 8, MOCV |-> 4, MOBA |-> 24,
         MOBN |-> 16, MODR |-> 2]
MohdSize     == 64
MogpHdrSize  == 68
MliqHdrSize  == 30      \* doc: x_verts,y_verts,x_tiles,y_tiles (16) + base_coords (12) + material_id u16 (2)

\* MOHD: the seven counts are the first seven u32 of the payload, in this order.
MohdFields == <<"n_materials", "n_groups", "n_portals", "n_lights", "n_doodad_names",
                "n_doodad_defs", "n_doodad_sets">>
MohdFieldOff(j) == 4 * (j - 1)
\* which list a count describes: the chunk that holds the list and its record size
\* (n_doodad_names counts the strings of MODN: record size 0 = "string table")
CountChunk == [n_materials |-> "MOMT", n_groups |-> "MOGI", n_portals |-> "MOPT", n_lights |-> "MOLT",
               n_doodad_names |-> "MODN", n_doodad_defs |-> "MODD", n_doodad_sets |-> "MODS"]
\* the shape dimension holding the length of the list a count describes
CountDim   == [n_materials |-> "nmat", n_groups |-> "ngrp", n_portals |-> "nport", n_lights |-> "nlight",
               n_doodad_names |-> "ndd", n_doodad_defs |-> "ndd", n_doodad_sets |-> "nds"]

\* byte offsets, inside a record, of the fields that address a string table (wmo.md: MOMT
\* texture_1 at 0x0C, texture_2 at 0x18; MOGI name offset is the last u32 of the 32-byte record;
\* MODD name index = low 24 bits of the first u32)
MomtTex1Off == 12   MomtTex2Off == 24   MogiNameOff == 28   ModdNameOff == 0

\* ------------------------------------------------------------------ string tables
\* A string table (MOTX, MOGN, MODN) is the concatenation of NUL-terminated strings; entries are
\* addressed by the byte offset of their first character.
Sum(seq) == FoldLeft(LAMBDA a, b : a + b, 0, seq)
StrTabSize(lens)   == Sum([j \in 1..Len(lens) |-> lens[j] + 1])
StrOff(lens, idx)  == Sum([j \in 1..(idx - 1) |-> lens[j] + 1])
StrOffsets(lens)   == [j \in 1..Len(lens) |-> StrOff(lens, j)]
\* index of the entry starting at byte offset o (0 = no entry starts there)
StrResolve(lens, o) == IF \E j \in 1..Len(lens) : StrOff(lens, j) = o
                       THEN CHOOSE j \in 1..Len(lens) : StrOff(lens, j) = o ELSE 0

\* ------------------------------------------------------------------ lists of lists
\* Visible-block lists: MOVV holds one byte offset per list into MOVB, where the list's u16 entries
\* are followed by a 0xFFFF terminator -- also for an empty list (it owns its terminator).
VblAdvance(len)   == IF "vbl_empty_shared" \in Dev /\ len = 0 THEN 0 ELSE (len + 1) * 2
VblOff(lens, idx) == Sum([j \in 1..(idx - 1) |-> VblAdvance(lens[j])])
VblSize(lens)     == Sum([j \in 1..Len(lens) |-> VblAdvance(lens[j])])
\* the bytes list idx occupies: [VblOff, VblOff + 2*(len+1))
VblRegionsOk(lens) ==
    /\ \A a \in 1..Len(lens), b \in 1..Len(lens) :
          a < b => VblOff(lens, a) + 2 * (lens[a] + 1) <= VblOff(lens, b)
    /\ (Len(lens) > 0 => VblOff(lens, Len(lens)) + 2 * (lens[Len(lens)] + 1) = VblSize(lens))
\* Portals: MOPT record idx addresses pvlens[idx] vertices of MOPV starting at PortalStart
PortalStart(pvlens, idx) == Sum([j \in 1..(idx - 1) |-> pvlens[j]])

\* ------------------------------------------------------------------ portal graph of a root (MOPR)
\* SMOPortalRef (8 bytes): portalIndex u16 @0, groupIndex u16 @2, side i16 @4, filler u16 @6.  A portal joins two
\* groups: it is referenced exactly twice, from two different groups, once per side.
MoprFieldOffs == [portal |-> 0, group |-> 2, side |-> 4]
\* refs: sequence of [portal, group, side]; np portals, ng groups
PortalGraphOk(refs, np, ng) ==
    /\ \A j \in 1..Len(refs) : refs[j].portal \in 0..(np - 1) /\ refs[j].group \in 0..(ng - 1) /\ refs[j].side \in {0, 1}
    /\ \A p \in 0..(np - 1) :
          LET mine == {j \in 1..Len(refs) : refs[j].portal = p} IN
          /\ Cardinality(mine) = 2
          /\ \A a \in mine, b \in mine : a # b => (refs[a].group # refs[b].group /\ refs[a].side # refs[b].side)
\* a ring of np portals over ng >= 2 groups: portal p joins group p mod ng and group (p+1) mod ng
PortalRing(np, ng) == [j \in 1..(2 * np) |->
    LET p == (j - 1) \div 2 IN
    IF j % 2 = 1 THEN [portal |-> p, group |-> p % ng, side |-> 0] ELSE [portal |-> p, group |-> (p + 1) % ng, side |-> 1]]
PortalRingsOk == \A np \in 1..4, ng \in 2..4 : PortalGraphOk(PortalRing(np, ng), np, ng)
PortalMutantsRejected ==
    /\ ~PortalGraphOk([PortalRing(3, 3) EXCEPT ![2].group = 0], 3, 3)         \* both sides in the same group
    /\ ~PortalGraphOk([PortalRing(3, 3) EXCEPT ![4].portal = 0], 3, 3)        \* a portal referenced three times
    /\ ~PortalGraphOk(PortalRing(3, 3), 3, 2)                                 \* group index out of range

\* ------------------------------------------------------------------ BSP tree of a group (MOBN)
\* CAaBspNode (wmo.md "MOBN - BSP Nodes"), 16 bytes: flags u16 @0 (bits 0-1 split axis, bit 2 leaf), negChild i16 @2,
\* posChild i16 @4, nFaces u16 @6, faceStart u32 @8, planeDist f32 @12.  Child indices are 0-based, -1 = none.
MobnFieldOffs == [flags |-> 0, neg |-> 2, pos |-> 4, nfaces |-> 6, fstart |-> 8, dist |-> 12]
\* a node as the specification sees it: [axis, leaf, neg, pos, nfaces, fstart]
BspIsLeaf(nd) == nd.neg = -1 /\ nd.pos = -1
BspWellFormed(ns) ==
    LET n       == Len(ns)
        Parents(j) == {q \in 1..n : ns[q].neg = j - 1 \/ ns[q].pos = j - 1}
        Leaves  == {j \in 1..n : BspIsLeaf(ns[j])}
    IN  /\ \A j \in 1..n :
              /\ ns[j].axis \in 0..2
              /\ ns[j].leaf = BspIsLeaf(ns[j])
              \* inner node: one or two children (a missing side is -1), stored behind it (pre-order: no cycles),
              \* distinct when both exist; it carries no faces and does NOT carry the leaf bit
              /\ (BspIsLeaf(ns[j]) \/ (/\ ns[j].neg \in {-1} \cup j..(n - 1) /\ ns[j].pos \in {-1} \cup j..(n - 1)
                                         /\ ns[j].neg # ns[j].pos /\ ns[j].nfaces = 0))
              \* a tree: the root has no parent, every other node exactly one
              /\ Cardinality(Parents(j)) = IF j = 1 THEN 0 ELSE 1
        \* the leaves' face ranges tile [0, total)
        /\ \A a \in Leaves : ns[a].fstart = Sum([b \in 1..n |-> IF b \in Leaves /\ ns[b].fstart < ns[a].fstart THEN ns[b].nfaces ELSE 0])
\* catalogue of tree shapes (children per node, 1-based, 0 = none; pre-order): EVERY tree with at most three interior nodes in
\* which an interior node has a left child only, a right child only, or both (73 shapes: 1 + 3 + 12 + 57)
BspKids == << << <<0,0>> >>,
              << <<2,3>>, <<0,0>>, <<0,0>> >>,
              << <<2,0>>, <<0,0>> >>,
              << <<0,2>>, <<0,0>> >>,
              << <<2,3>>, <<0,0>>, <<4,5>>, <<0,0>>, <<0,0>> >>,
              << <<2,3>>, <<0,0>>, <<4,0>>, <<0,0>> >>,
              << <<2,3>>, <<0,0>>, <<0,4>>, <<0,0>> >>,
              << <<0,2>>, <<3,4>>, <<0,0>>, <<0,0>> >>,
              << <<0,2>>, <<3,0>>, <<0,0>> >>,
              << <<0,2>>, <<0,3>>, <<0,0>> >>,
              << <<2,5>>, <<3,4>>, <<0,0>>, <<0,0>>, <<0,0>> >>,
              << <<2,0>>, <<3,4>>, <<0,0>>, <<0,0>> >>,
              << <<2,4>>, <<3,0>>, <<0,0>>, <<0,0>> >>,
              << <<2,0>>, <<3,0>>, <<0,0>> >>,
              << <<2,4>>, <<0,3>>, <<0,0>>, <<0,0>> >>,
              << <<2,0>>, <<0,3>>, <<0,0>> >>,
              << <<2,3>>, <<0,0>>, <<4,5>>, <<0,0>>, <<6,7>>, <<0,0>>, <<0,0>> >>,
              << <<2,3>>, <<0,0>>, <<4,5>>, <<0,0>>, <<6,0>>, <<0,0>> >>,
              << <<2,3>>, <<0,0>>, <<4,5>>, <<0,0>>, <<0,6>>, <<0,0>> >>,
              << <<2,3>>, <<0,0>>, <<0,4>>, <<5,6>>, <<0,0>>, <<0,0>> >>,
              << <<2,3>>, <<0,0>>, <<0,4>>, <<5,0>>, <<0,0>> >>,
              << <<2,3>>, <<0,0>>, <<0,4>>, <<0,5>>, <<0,0>> >>,
              << <<2,3>>, <<0,0>>, <<4,7>>, <<5,6>>, <<0,0>>, <<0,0>>, <<0,0>> >>,
              << <<2,3>>, <<0,0>>, <<4,0>>, <<5,6>>, <<0,0>>, <<0,0>> >>,
              << <<2,3>>, <<0,0>>, <<4,6>>, <<5,0>>, <<0,0>>, <<0,0>> >>,
              << <<2,3>>, <<0,0>>, <<4,0>>, <<5,0>>, <<0,0>> >>,
              << <<2,3>>, <<0,0>>, <<4,6>>, <<0,5>>, <<0,0>>, <<0,0>> >>,
              << <<2,3>>, <<0,0>>, <<4,0>>, <<0,5>>, <<0,0>> >>,
              << <<0,2>>, <<3,4>>, <<0,0>>, <<5,6>>, <<0,0>>, <<0,0>> >>,
              << <<0,2>>, <<3,4>>, <<0,0>>, <<5,0>>, <<0,0>> >>,
              << <<0,2>>, <<3,4>>, <<0,0>>, <<0,5>>, <<0,0>> >>,
              << <<0,2>>, <<0,3>>, <<4,5>>, <<0,0>>, <<0,0>> >>,
              << <<0,2>>, <<0,3>>, <<4,0>>, <<0,0>> >>,
              << <<0,2>>, <<0,3>>, <<0,4>>, <<0,0>> >>,
              << <<0,2>>, <<3,6>>, <<4,5>>, <<0,0>>, <<0,0>>, <<0,0>> >>,
              << <<0,2>>, <<3,0>>, <<4,5>>, <<0,0>>, <<0,0>> >>,
              << <<0,2>>, <<3,5>>, <<4,0>>, <<0,0>>, <<0,0>> >>,
              << <<0,2>>, <<3,0>>, <<4,0>>, <<0,0>> >>,
              << <<0,2>>, <<3,5>>, <<0,4>>, <<0,0>>, <<0,0>> >>,
              << <<0,2>>, <<3,0>>, <<0,4>>, <<0,0>> >>,
              << <<2,5>>, <<3,4>>, <<0,0>>, <<0,0>>, <<6,7>>, <<0,0>>, <<0,0>> >>,
              << <<2,5>>, <<3,4>>, <<0,0>>, <<0,0>>, <<6,0>>, <<0,0>> >>,
              << <<2,5>>, <<3,4>>, <<0,0>>, <<0,0>>, <<0,6>>, <<0,0>> >>,
              << <<2,4>>, <<3,0>>, <<0,0>>, <<5,6>>, <<0,0>>, <<0,0>> >>,
              << <<2,4>>, <<3,0>>, <<0,0>>, <<5,0>>, <<0,0>> >>,
              << <<2,4>>, <<3,0>>, <<0,0>>, <<0,5>>, <<0,0>> >>,
              << <<2,4>>, <<0,3>>, <<0,0>>, <<5,6>>, <<0,0>>, <<0,0>> >>,
              << <<2,4>>, <<0,3>>, <<0,0>>, <<5,0>>, <<0,0>> >>,
              << <<2,4>>, <<0,3>>, <<0,0>>, <<0,5>>, <<0,0>> >>,
              << <<2,7>>, <<3,4>>, <<0,0>>, <<5,6>>, <<0,0>>, <<0,0>>, <<0,0>> >>,
              << <<2,0>>, <<3,4>>, <<0,0>>, <<5,6>>, <<0,0>>, <<0,0>> >>,
              << <<2,6>>, <<3,4>>, <<0,0>>, <<5,0>>, <<0,0>>, <<0,0>> >>,
              << <<2,0>>, <<3,4>>, <<0,0>>, <<5,0>>, <<0,0>> >>,
              << <<2,6>>, <<3,4>>, <<0,0>>, <<0,5>>, <<0,0>>, <<0,0>> >>,
              << <<2,0>>, <<3,4>>, <<0,0>>, <<0,5>>, <<0,0>> >>,
              << <<2,6>>, <<0,3>>, <<4,5>>, <<0,0>>, <<0,0>>, <<0,0>> >>,
              << <<2,0>>, <<0,3>>, <<4,5>>, <<0,0>>, <<0,0>> >>,
              << <<2,5>>, <<0,3>>, <<4,0>>, <<0,0>>, <<0,0>> >>,
              << <<2,0>>, <<0,3>>, <<4,0>>, <<0,0>> >>,
              << <<2,5>>, <<0,3>>, <<0,4>>, <<0,0>>, <<0,0>> >>,
              << <<2,0>>, <<0,3>>, <<0,4>>, <<0,0>> >>,
              << <<2,7>>, <<3,6>>, <<4,5>>, <<0,0>>, <<0,0>>, <<0,0>>, <<0,0>> >>,
              << <<2,0>>, <<3,6>>, <<4,5>>, <<0,0>>, <<0,0>>, <<0,0>> >>,
              << <<2,6>>, <<3,0>>, <<4,5>>, <<0,0>>, <<0,0>>, <<0,0>> >>,
              << <<2,0>>, <<3,0>>, <<4,5>>, <<0,0>>, <<0,0>> >>,
              << <<2,6>>, <<3,5>>, <<4,0>>, <<0,0>>, <<0,0>>, <<0,0>> >>,
              << <<2,0>>, <<3,5>>, <<4,0>>, <<0,0>>, <<0,0>> >>,
              << <<2,5>>, <<3,0>>, <<4,0>>, <<0,0>>, <<0,0>> >>,
              << <<2,0>>, <<3,0>>, <<4,0>>, <<0,0>> >>,
              << <<2,6>>, <<3,5>>, <<0,4>>, <<0,0>>, <<0,0>>, <<0,0>> >>,
              << <<2,0>>, <<3,5>>, <<0,4>>, <<0,0>>, <<0,0>> >>,
              << <<2,5>>, <<3,0>>, <<0,4>>, <<0,0>>, <<0,0>> >>,
              << <<2,0>>, <<3,0>>, <<0,4>>, <<0,0>> >> >>
BspOf(kids) ==
    [j \in 1..Len(kids) |->
        LET lf == kids[j] = <<0, 0>>
            before == Cardinality({q \in 1..(j - 1) : kids[q] = <<0, 0>>})
        IN [axis |-> (j - 1) % 3, leaf |-> lf, neg |-> kids[j][1] - 1, pos |-> kids[j][2] - 1,
            nfaces |-> IF lf THEN 2 + (j % 2) ELSE 0,
            fstart |-> IF lf THEN Sum([q \in 1..(j - 1) |-> IF kids[q] = <<0, 0>> THEN 2 + (q % 2) ELSE 0]) ELSE 0]]
BspCatalog == [t \in 1..Len(BspKids) |-> BspOf(BspKids[t])]
BspCatalogOk == \A t \in 1..Len(BspCatalog) : BspWellFormed(BspCatalog[t])
\* sanity of the predicate itself: swapping a child for the root, or shifting a face range, is rejected
BspMutantsRejected ==
    /\ ~BspWellFormed([BspCatalog[2] EXCEPT ![1].pos = 0])                 \* a child that is the root
    /\ ~BspWellFormed([BspCatalog[5] EXCEPT ![4].fstart = @ + 1])          \* face ranges no longer tile
    /\ ~BspWellFormed([BspCatalog[5] EXCEPT ![3].neg = 1])                 \* a node with two parents
    /\ ~BspWellFormed([BspCatalog[3] EXCEPT ![1].leaf = TRUE])             \* one-sided interior node flagged as leaf
    /\ Len(BspCatalog) = 73

\* ------------------------------------------------------------------ shapes
\* A root shape: list lengths and the lengths of the strings in the three tables.
\*   [kind |-> "root", ver, ntex, nmat, ngrp, nport, pvlens (vertices of each portal; 0 allowed), npref, nvbl,
\*    vbllens (entries of each visible-block list; 0 allowed), nlight, ndd, nds, sky (0/1), skylen, texlens, grplens, ddlens]
\* A group shape:
\*   [kind |-> "group", ver, nvert, nidx, nnorm, ntc, ncol (-1 = None), nbatch, nbsp (-1 = None),
\*    liq (0 none, 1 without tile flags, 2 with), lw, lh, ndref (-1 = None)]
Leaf(tag, size)        == [op |-> "leaf", tag |-> tag, size |-> size, emit |-> size]
LeafDev(tag, size, em) == [op |-> "leaf", tag |-> tag, size |-> size, emit |-> em]
Open(tag, hdr)         == [op |-> "open", tag |-> tag, size |-> hdr, emit |-> hdr]
Close                  == [op |-> "close", tag |-> "", size |-> 0, emit |-> 0]
Opt(cond, step)        == IF cond THEN <<step>> ELSE << >>

\* emission plan of write_root (code order; the format does not prescribe the order of
\* MODS/MODN/MODD relative to each other, readers look chunks up by tag)
RootPlan(sh) ==
       <<Leaf("MVER", 4)>>
    \o <<Leaf("MOHD", IF "mohd60" \in Dev THEN 60 ELSE MohdSize)>>
    \o Opt(sh.ntex > 0,  Leaf("MOTX", StrTabSize(sh.texlens)))
    \o Opt(sh.nmat > 0,  IF "momt40" \in Dev /\ sh.ver < VMop
                         THEN LeafDev("MOMT", sh.nmat * 40, sh.nmat * Elem.MOMT)
                         ELSE Leaf("MOMT", sh.nmat * Elem.MOMT))
    \o Opt(sh.ngrp > 0,  Leaf("MOGN", StrTabSize(sh.grplens)))
    \o Opt(sh.ngrp > 0,  Leaf("MOGI", sh.ngrp * Elem.MOGI))
    \o Opt(sh.sky = 1 /\ SupportsSkybox(sh.ver), Leaf("MOSB", sh.skylen + 1))
    \* MOPV accompanies MOPT even when no portal has a vertex (readers need both chunks)
    \o Opt(sh.nport > 0 /\ ~("mopv_skip_empty" \in Dev /\ Sum(sh.pvlens) = 0), Leaf("MOPV", Sum(sh.pvlens) * Elem.MOPV))
    \o Opt(sh.nport > 0, Leaf("MOPT", sh.nport * Elem.MOPT))
    \o Opt(sh.npref > 0, Leaf("MOPR", sh.npref * Elem.MOPR))
    \o Opt(sh.nvbl > 0,  Leaf("MOVV", sh.nvbl * Elem.MOVV))
    \o Opt(sh.nvbl > 0,  Leaf("MOVB", VblSize(sh.vbllens)))
    \o Opt(sh.nlight > 0, Leaf("MOLT", sh.nlight * Elem.MOLT))
    \o Opt(sh.ndd > 0,   Leaf("MODN", StrTabSize(sh.ddlens)))
    \o Opt(sh.ndd > 0,   Leaf("MODD", sh.ndd * Elem.MODD))
    \o Opt(sh.nds > 0,   Leaf("MODS", sh.nds * Elem.MODS))

LiqVertSize(ver) == 4          \* Classic..MoP: one f32 height per vertex (16 from WoD)
GroupPlan(sh) ==
       <<Leaf("MVER", 4)>>
    \o <<Open("MOGP", IF "mogp36" \in Dev THEN 36 ELSE MogpHdrSize)>>
    \o Opt(sh.nvert > 0,  Leaf("MOVT", sh.nvert * Elem.MOVT))
    \o Opt(sh.nidx > 0,   Leaf("MOVI", sh.nidx * Elem.MOVI))
    \o Opt(sh.nnorm > 0,  Leaf("MONR", sh.nnorm * Elem.MONR))
    \o Opt(sh.ntc > 0,    Leaf("MOTV", sh.ntc * Elem.MOTV))
    \o Opt(sh.ncol > 0,   Leaf("MOCV", sh.ncol * Elem.MOCV))
    \o Opt(sh.nbatch > 0, Leaf("MOBA", sh.nbatch * Elem.MOBA))
    \o Opt(sh.nbsp > 0,   Leaf("MOBN", sh.nbsp * Elem.MOBN))
    \o Opt(sh.liq > 0,    Leaf("MLIQ", MliqHdrSize + sh.lw * sh.lh * LiqVertSize(sh.ver)
                                         + (IF sh.liq = 2 THEN (sh.lw - 1) * (sh.lh - 1) ELSE 0)))
    \o Opt(sh.ndref > 0,  Leaf("MODR", sh.ndref * Elem.MODR))
    \o <<Close>>

Plan(sh) == IF sh.kind = "root" THEN RootPlan(sh) ELSE GroupPlan(sh)
TagsOfPlan(plan) == LET p == SelectSeq(plan, LAMBDA st : st.op # "close") IN [j \in 1..Len(p) |-> p[j].tag]
PlanTags(sh) == TagsOfPlan(Plan(sh))

\* the values the writer stores in MOHD for a shape
MohdOf(sh) == [n_materials |-> sh.nmat,
               n_groups |-> IF "ngroups_plus1" \in Dev THEN sh.ngrp + 1 ELSE sh.ngrp,
               n_portals |-> sh.nport, n_lights |-> sh.nlight,
               n_doodad_names |-> sh.ndd, n_doodad_defs |-> sh.ndd, n_doodad_sets |-> sh.nds]
\* the name offsets the writer stores in the MOGI records
MogiNameOffsets(sh) == IF "mogi_off0" \in Dev THEN [j \in 1..sh.ngrp |-> 0] ELSE StrOffsets(sh.grplens)

\* ------------------------------------------------------------------ the writer + walker machine
VARIABLES lsh,      \* the shape being written
          lplan,    \* its emission plan (Plan(lsh), fixed at Init; kept in the state so that TLC evaluates it once)
          lpc,      \* next plan step (1-based); Len+1 = finished
          lcur,     \* bytes emitted so far (the writer's stream position)
          lhdrs,    \* the produced file as far as framing is concerned: offset -> [tag, size]
          lopen,    \* positions of the headers of the open containers (back-patch targets)
          lmohd,    \* the seven counts stored in MOHD (<< >> until MOHD is emitted)
          lphase,   \* "write" | "walk" | "done"
          lfs,      \* walker: frame state (ChunkFraming)
          llog      \* walker: chunk records in the order visited, with depth
lvars == <<lsh, lplan, lpc, lcur, lhdrs, lopen, lmohd, lphase, lfs, llog>>

PutH(f, o, r) == [q \in DOMAIN f \cup {o} |-> IF q = o THEN r ELSE f[q]]
Step == lplan[lpc]

LInit(shapes) == /\ lsh \in shapes /\ lplan = Plan(lsh) /\ lpc = 1 /\ lcur = 0 /\ lhdrs = << >> /\ lopen = << >>
                 /\ lmohd = << >> /\ lphase = "write" /\ lfs = CfInit(0) /\ llog = << >>

\* one leaf chunk: header with the declared size, then `emit` payload bytes
EmitLeaf ==
    /\ lphase = "write" /\ lpc <= Len(lplan) /\ Step.op = "leaf"
    /\ lhdrs' = PutH(lhdrs, lcur, [tag |-> Step.tag, size |-> Step.size])
    /\ lcur' = lcur + HDR + Step.emit
    /\ lmohd' = IF Step.tag = "MOHD" THEN MohdOf(lsh) ELSE lmohd
    /\ lpc' = lpc + 1
    /\ UNCHANGED <<lsh, lplan, lopen, lphase, lfs, llog>>
\* container start (write_group: MOGP with placeholder size 0, then the fixed header)
OpenContainer ==
    /\ lphase = "write" /\ lpc <= Len(lplan) /\ Step.op = "open"
    /\ lhdrs' = PutH(lhdrs, lcur, [tag |-> Step.tag, size |-> 0])
    /\ lopen' = Append(lopen, lcur)
    /\ lcur' = lcur + HDR + Step.emit
    /\ lpc' = lpc + 1
    /\ UNCHANGED <<lsh, lplan, lmohd, lphase, lfs, llog>>
\* container end: seek back, patch size = end - pos - 8 (or, deviation: only the fixed header)
CloseContainer ==
    /\ lphase = "write" /\ lpc <= Len(lplan) /\ Step.op = "close" /\ Len(lopen) > 0
    /\ LET pos == lopen[Len(lopen)] IN
       lhdrs' = [lhdrs EXCEPT ![pos].size = IF "mogp_size_hdr_only" \in Dev THEN MogpHdrSize
                                            ELSE lcur - pos - HDR]
    /\ lopen' = SubSeq(lopen, 1, Len(lopen) - 1)
    /\ lpc' = lpc + 1
    /\ UNCHANGED <<lsh, lplan, lcur, lmohd, lphase, lfs, llog>>
Finish ==
    /\ lphase = "write" /\ lpc = Len(lplan) + 1 /\ lopen = << >>
    /\ lphase' = "walk" /\ lfs' = CfInit(lcur)
    /\ UNCHANGED <<lsh, lplan, lpc, lcur, lhdrs, lopen, lmohd, llog>>

\* the walker: knows the framing rule, and that MOGP is a container with a 68-byte header
IsContainer(tag) == tag = "MOGP"
HAt(o) == lhdrs[o]
WalkLeaf ==
    /\ lphase = "walk" /\ lfs.cur < CfTop(lfs).end /\ lfs.cur \in DOMAIN lhdrs
    /\ ~IsContainer(HAt(lfs.cur).tag) /\ CfCanLeaf(lfs, lfs.cur, HAt(lfs.cur).size)
    /\ llog' = Append(llog, [tag |-> HAt(lfs.cur).tag, off |-> lfs.cur, size |-> HAt(lfs.cur).size, depth |-> CfDepth(lfs)])
    /\ lfs' = CfLeaf(lfs, lfs.cur, HAt(lfs.cur).size)
    /\ UNCHANGED <<lsh, lplan, lpc, lcur, lhdrs, lopen, lmohd, lphase>>
WalkEnter ==
    /\ lphase = "walk" /\ lfs.cur < CfTop(lfs).end /\ lfs.cur \in DOMAIN lhdrs
    /\ IsContainer(HAt(lfs.cur).tag) /\ CfCanEnter(lfs, lfs.cur, HAt(lfs.cur).size, MogpHdrSize)
    /\ llog' = Append(llog, [tag |-> HAt(lfs.cur).tag, off |-> lfs.cur, size |-> HAt(lfs.cur).size, depth |-> CfDepth(lfs)])
    /\ lfs' = CfEnter(lfs, HAt(lfs.cur).tag, lfs.cur, HAt(lfs.cur).size, MogpHdrSize)
    /\ UNCHANGED <<lsh, lplan, lpc, lcur, lhdrs, lopen, lmohd, lphase>>
WalkLeave ==
    /\ lphase = "walk" /\ CfCanLeave(lfs)
    /\ lfs' = CfLeave(lfs)
    /\ UNCHANGED <<lsh, lplan, lpc, lcur, lhdrs, lopen, lmohd, lphase, llog>>
WalkDone ==
    /\ lphase = "walk" /\ CfDone(lfs)
    /\ lphase' = "done"
    /\ UNCHANGED <<lsh, lplan, lpc, lcur, lhdrs, lopen, lmohd, lfs, llog>>

LNext == EmitLeaf \/ OpenContainer \/ CloseContainer \/ Finish \/ WalkLeaf \/ WalkEnter \/ WalkLeave \/ WalkDone

\* ------------------------------------------------------------------ layout invariants
AtDepth(log, d) == SelectSeq(log, LAMBDA c : c.depth = d)
SizeOfTag(log, tag) == IF HasTag(log, tag) THEN log[FirstOf(log, tag)].size ELSE 0

\* cursor bookkeeping: while writing, the stream position is the sum of what every executed
\* step emitted (header + payload bytes)
EmittedBy(plan, upto) == Sum([j \in 1..upto |-> IF plan[j].op = "close" THEN 0 ELSE HDR + plan[j].emit])
CursorBookkeeping == lphase = "write" => lcur = EmittedBy(lplan, lpc - 1)

\* the walker is never lost: wherever it stands there is a header that fits its frame
WalkerNeverLost == lphase = "walk" =>
    \/ CfDone(lfs) \/ CfCanLeave(lfs)
    \/ /\ lfs.cur < CfTop(lfs).end /\ lfs.cur \in DOMAIN lhdrs
       /\ IF IsContainer(HAt(lfs.cur).tag) THEN CfCanEnter(lfs, lfs.cur, HAt(lfs.cur).size, MogpHdrSize)
                                           ELSE CfCanLeaf(lfs, lfs.cur, HAt(lfs.cur).size)
FrameWellFormed == CfWellFormed(lfs)

\* a count claim: the MOHD value equals the length of the list it describes, which is the number
\* of records in the list's chunk (size / record size; chunk absent <=> empty list)
CountHolds(log, mohd, field, listLen) ==
    /\ mohd[field] = listLen
    /\ IF CountChunk[field] = "MODN" THEN HasTag(log, "MODN") <=> (listLen > 0)
       ELSE /\ HasTag(log, CountChunk[field]) <=> (listLen > 0)
            /\ SizeOfTag(log, CountChunk[field]) = listLen * Elem[CountChunk[field]]

\* what must hold of every finished file
DoneFraming == lphase = "done" =>
    /\ TilesRange(AtDepth(llog, 1), 0, lcur)                      \* top level tiles the file
    /\ Len(llog) = Cardinality(DOMAIN lhdrs)                      \* every header visited once
    /\ Tags(llog) = TagsOfPlan(lplan)                                \* in emission order
    /\ SizeOfTag(llog, "MVER") = 4
    /\ (lsh.kind = "root" => SizeOfTag(llog, "MOHD") = MohdSize /\ AtDepth(llog, 2) = << >>)
    /\ (lsh.kind = "group" =>                                     \* MOGP holds every other chunk; they tile its payload after the header
          LET g == llog[FirstOf(llog, "MOGP")] IN
          /\ Tags(AtDepth(llog, 1)) = <<"MVER", "MOGP">>
          /\ TilesRange(AtDepth(llog, 2), g.off + HDR + MogpHdrSize, g.off + HDR + g.size))
DoneCounts == (lphase = "done" /\ lsh.kind = "root") =>
    \A j \in 1..Len(MohdFields) : CountHolds(llog, lmohd, MohdFields[j], lsh[CountDim[MohdFields[j]]])
\* group sub-chunks hold exactly the records of the lists they carry (None / empty list: no chunk)
Pos(n) == IF n > 0 THEN n ELSE 0
GroupSizesOf(log, sh) ==
    /\ SizeOfTag(log, "MOVT") = sh.nvert * Elem.MOVT /\ SizeOfTag(log, "MOVI") = sh.nidx * Elem.MOVI
    /\ SizeOfTag(log, "MONR") = sh.nnorm * Elem.MONR /\ SizeOfTag(log, "MOTV") = sh.ntc * Elem.MOTV
    /\ SizeOfTag(log, "MOBA") = sh.nbatch * Elem.MOBA /\ SizeOfTag(log, "MOCV") = Pos(sh.ncol) * Elem.MOCV
    /\ SizeOfTag(log, "MOBN") = Pos(sh.nbsp) * Elem.MOBN /\ SizeOfTag(log, "MODR") = Pos(sh.ndref) * Elem.MODR
DoneGroupSizes == (lphase = "done" /\ lsh.kind = "group") => GroupSizesOf(llog, lsh)
\* string-table offsets: every MOGI record's name offset resolves to the group's own name
\* lists of lists: every visible-block list owns a disjoint MOVB region ending in its terminator;
\* MOPT never comes without MOPV and the portal vertex ranges lie inside MOPV
DoneLists == (lphase = "done" /\ lsh.kind = "root") =>
    /\ VblRegionsOk(lsh.vbllens)
    /\ SizeOfTag(llog, "MOVB") = VblSize(lsh.vbllens)
    /\ (HasTag(llog, "MOPT") => HasTag(llog, "MOPV"))
    /\ \A j \in 1..lsh.nport : (PortalStart(lsh.pvlens, j) + lsh.pvlens[j]) * Elem.MOPV <= SizeOfTag(llog, "MOPV")
DoneStrings == (lphase = "done" /\ lsh.kind = "root") =>
    /\ \A j \in 1..lsh.ngrp : StrResolve(lsh.grplens, MogiNameOffsets(lsh)[j]) = j
    /\ \A j \in 1..lsh.ntex : /\ StrResolve(lsh.texlens, StrOff(lsh.texlens, j)) = j
                              /\ StrOff(lsh.texlens, j) + lsh.texlens[j] + 1 <= StrTabSize(lsh.texlens)
    /\ (HasTag(llog, "MOSB") => SupportsSkybox(lsh.ver))

\* ------------------------------------------------------------------ round-trip obligations
\* Sections of a root / group object whose content tokens must survive write -> parse.
RootSections == {"header", "bounds", "textures", "textures_named", "group_names_named", "tex_resolve", "materials", "materials_fbblend",
                 "group_geom", "group_names", "portals", "portal_refs", "visible_lists", "lights",
                 "light_props", "doodad_geom", "doodad_name_offsets", "doodad_set_index",
                 "doodad_sets", "skybox"}
GroupSections == {"ghdr", "vertices", "indices", "normals", "tex_coords", "vertex_colors", "batches",
                  "bsp_nodes", "liquid", "doodad_refs", "gmaterials"}
\* the same content seen through the second public parser (parse_wmo); only what both object
\* models can express
RootApiSections  == {"textures", "group_names", "counts", "materials", "portals", "portal_refs", "lights",
                     "doodad_sets", "doodad_geom", "group_geom"}
GroupApiSections == {"vertices", "indices", "normals", "tex_coords", "vertex_colors", "doodad_refs", "ghdr",
                     "batch_count", "batches", "bsp_nodes"}

\* Conversion a -> b keeps every section representable in both versions.  Conservative
\* definition: version-gated fields are projected away (the driver logs both the full and the
\* projected token; the spec chooses which one is owed).
\*   skybox            kept iff the target version supports skybox references (every v17 file parses
\*                     as Classic, so a "Classic" object legitimately carries the skybox of a WotLK file)
\*   materials         a >= MoP > b: shadow-batch flag bits projected away ("materials_noshadow")
\*   ghdr (group)      a # b: version-gated group flag bits projected away ("ghdr_base")
ConvRootOwed(a, b) ==
    (RootSections \ {"skybox", "materials", "header"})
    \cup (IF a = b \/ SupportsSkybox(b) THEN {"skybox"} ELSE {})
    \cup (IF a >= VMop /\ b < VMop THEN {"materials_noshadow"} ELSE {"materials"})
    \cup {"header"}
\*   ghdr (group)      the projection keeps every flag bit the TARGET version defines: MOUNT_ALLOWED is defined from Legion
\*                     (never in Classic..MoP: "ghdr_nomount"); HAS_MORE_MOTION_TYPES / USE_SCENE_GRAPH / EXTERIOR_BSP are
\*                     defined from Cataclysm (target < Cataclysm: "ghdr_base" projects all four away)
\*   liquid            the MLIQ layout is the same in Classic..MoP (LiquidV2 starts with WoD): owed in full, every flag bit
ConvGroupOwed(a, b) ==
    (GroupSections \ {"ghdr", "liquid"})
    \cup (IF a = b THEN {"ghdr", "liquid"}
          ELSE IF b >= VCata THEN {"ghdr_nomount", "liquid"} ELSE {"ghdr_base", "liquid"})
=============================================================================
