--------------------------- MODULE BoundedReader ---------------------------
(***************************************************************************************************)
(* C05 -- parsers are total.                                                                       *)
(*                                                                                                 *)
(* Four reader archetypes cover every parser named in the property's anchors:                      *)
(*   "chunk"   IFF-style chunk walker  <tag,size>*  with one level of container chunks             *)
(*             (ADT MCNK, WMO MOGP, MD21, WDT/WDL, anim/skin chunks, PTCH blocks)                  *)
(*   "array"   counted array <count, offset, elemSize> with one level of nested arrays             *)
(*             (M2Array and M2Track, BLP mipmap locator, DBC header, MPQ hash/block/HET/BET        *)
(*             tables, sector-offset tables, MCIN/MAOF/MHDR offset tables)                         *)
(*   "string"  offset into a NUL-terminated string block, and length-prefixed strings              *)
(*             (DBC string block, MTEX/MMDX/MWMO/MOTX/MOGN name tables, M2 names, listfile)        *)
(*   "token"   the payload level: a codec's opcode stream with state markers, ordinary tokens,     *)
(*             runs and back references (ADPCM step markers, sparse / RLE runs, implode / LZ)      *)
(*                                                                                                 *)
(* The FILE is adversarial: it has a length vflen and every field the reader looks at is chosen,  *)
(* at the moment it is read, from the boundary set Vals(vflen) -- so every file whose fields take   *)
(* boundary values is covered, including every truncation (vflen ranges over 0..MaxLen).          *)
(*                                                                                                 *)
(* The reader of the INTENDED design (Faults = {}) performs a checked read or a checked allocation *)
(* or fails with an error.  The model checker shows it is total:                                   *)
(*   ReadInBounds     no read touches a byte at or beyond vflen                                    *)
(*   AllocBounded     no single request exceeds AllocK * vflen + AllocC                            *)
(*   WorkBounded      the number of loop iterations is at most WorkK * vflen + WorkC               *)
(*   *Progress        every loop iteration strictly advances its variant                           *)
(*   OutcomeTotal     a finished run has outcome "ok" or "err"; no state is stuck (deadlock check) *)
(*   Termination      every run finishes (liveness, under weak fairness of Next)                   *)
(*                                                                                                 *)
(* The named DEVIATIONS (Faults) are the unchecked designs the property forbids; each one is the   *)
(* abstract form of a defect class seen in /repo (see notes/C05.md).  MC_BoundedReader_faulty      *)
(* checks that TLC finds a violation for every one of them with values from the same boundary set  *)
(* -- so the fault plan generated from Symbols/Roles reaches them.                                 *)
(*                                                                                                 *)
(* u32 values are <<hi16, lo16>> limb pairs (TLC integers are 32-bit signed); NatOf() maps a word  *)
(* to a small natural or to the token BIG.                                                         *)
(***************************************************************************************************)
EXTENDS Integers, Sequences, FiniteSets, TLC, Word32

CONSTANTS MaxLen,     \* file lengths 0..MaxLen are explored
          Faults      \* subset of FaultNames; {} = the intended (checked) design

FaultNames == {"wrapadd",      \* bounds check computed as cursor + 8 + size in wrapping u32 arithmetic
               "nosizecheck",  \* chunk / string size used without comparing it with the remaining bytes
               "noprogress",   \* zero-size chunk re-read without advancing the cursor
               "prealloc",     \* Vec::with_capacity(count) before count is validated
               "mulwrap",      \* count * elemSize computed in wrapping u32 arithmetic
               "zeroesize",    \* element size 0 accepted: `count` iterations that consume nothing
               "nooffcheck",   \* array offset used for seeking/slicing without comparing it with the length
               "scanpast",     \* string scan without an end-of-data test
               "stuck",        \* a case the reader has no rule for (unwrap / index / unreachable!)
               "marksat",      \* token stream: a state marker saturates at table LENGTH instead of the last index
               "runover",      \* token stream: a run token writes past the declared output size
               "backunder"}    \* token stream: a back reference reaches before the start of the output
ASSUME Faults \subseteq FaultNames

(***************************************************************************************************)
(* Field roles and boundary symbols: shared with Gen_BoundedReader (the fault plan) and with       *)
(* Trace_BoundedReader.                                                                            *)
(***************************************************************************************************)
Archetypes == {"chunk", "array", "string", "token"}
Roles == [chunk  |-> {"tag", "csize"},
          array  |-> {"count", "offset", "esize", "bsize", "shift", "index", "extent"},
          string |-> {"strlen", "stroff", "term"},
          token  |-> {"marker"}]
\* boundary repetition counts of a state marker (max = the count at which the decoder state saturates)
RepSymbols == {"0", "1", "max-1", "max", "max+1", "2max"}
RepCount(sym, max) == CASE sym = "0" -> 0 [] sym = "1" -> 1 [] sym = "max-1" -> (IF max > 0 THEN max - 1 ELSE 0)
                        [] sym = "max" -> max [] sym = "max+1" -> max + 1 [] sym = "2max" -> 2 * max

\* numeric boundary symbols of the property's quantifier text: 0, 1, 2^31-1, 2^31, 2^32-1, size+-1;
\* `rem` = the exact largest value that still fits behind the field, `orig` = the valid value.
NumSymbols == {"0", "1", "2", "len-1", "len", "len+1", "rem-1", "rem", "rem+1", "orig-1", "orig+1",
               "i31max", "i31", "u32max"}
WideSymbols == {"u16max", "u16max+1", "mulwrap", "i63max", "i63", "u64max", "u32max+1"}
TagSymbols == {"unknown", "reversed", "next", "zero"}

BIG == 1000000                      \* stands for every value the file cannot possibly justify
W_I31MAX == <<32767, 65535>>        \* 2^31 - 1
W_I31    == <<32768, 0>>            \* 2^31
W_U32MAX == <<65535, 65535>>        \* 2^32 - 1
W_WRAP8  == <<65535, 65528>>        \* 2^32 - 8 : + 8-byte chunk header wraps to 0
W_MULW4  == <<16384, 1>>            \* 2^30 + 1 : * 4 wraps to 4
W_MULW2  == <<32768, 1>>            \* 2^31 + 1 : * 2 wraps to 2
Bigs == {W_I31MAX, W_I31, W_U32MAX, W_WRAP8, W_MULW4, W_MULW2}

(***************************************************************************************************)
(* Meaning of the boundary symbols.  A concrete field value is four 16-bit limbs <<l3,l2,l1,l0>>   *)
(* (fields are 1, 2, 4 or 8 bytes wide).  Conc is used three times: the model's adversary draws    *)
(* its values from it (Vals), the harness implements the same table (main.rs::concretise), and     *)
(* Trace_BoundedReader re-computes every logged value from the logged (symbol, len, rem, orig,     *)
(* width, unit), so that the inputs the verdict rests on are the ones the plan names.              *)
(***************************************************************************************************)
L4(n)   == <<0, 0, n \div 65536, n % 65536>>                 \* 0 <= n < 2^31
Max0(n) == IF n < 0 THEN 0 ELSE n
Inc4(v) == IF v[4] < 65535 THEN <<v[1], v[2], v[3], v[4] + 1>>
           ELSE IF v[3] < 65535 THEN <<v[1], v[2], v[3] + 1, 0>>
           ELSE IF v[2] < 65535 THEN <<v[1], v[2] + 1, 0, 0>>
           ELSE <<(v[1] + 1) % 65536, 0, 0, 0>>
Dec4(v) == IF v[4] > 0 THEN <<v[1], v[2], v[3], v[4] - 1>>
           ELSE IF v[3] > 0 THEN <<v[1], v[2], v[3] - 1, 65535>>
           ELSE IF v[2] > 0 THEN <<v[1], v[2] - 1, 65535, 65535>>
           ELSE <<(v[1] + 65535) % 65536, 65535, 65535, 65535>>
Mask4(v, w) == CASE w = 1 -> <<0, 0, 0, v[4] % 256>>
                 [] w = 2 -> <<0, 0, 0, v[4]>>
                 [] w = 4 -> <<0, 0, v[3], v[4]>>
                 [] OTHER -> v
Literals == [x \in {"3", "4", "5", "7", "8", "9", "15", "16", "17", "31", "32", "33", "63", "64", "255", "256", "511", "512", "513"} |->
               CASE x = "3" -> 3 [] x = "4" -> 4 [] x = "5" -> 5 [] x = "7" -> 7 [] x = "8" -> 8 [] x = "9" -> 9
                 [] x = "15" -> 15 [] x = "16" -> 16 [] x = "17" -> 17 [] x = "31" -> 31 [] x = "32" -> 32
                 [] x = "33" -> 33 [] x = "63" -> 63 [] x = "64" -> 64 [] x = "255" -> 255 [] x = "256" -> 256
                 [] x = "511" -> 511 [] x = "512" -> 512 [] x = "513" -> 513]
\* len = file length, rem = number of `unit`-sized elements that fit behind the field's base,
\* orig = the valid value (limbs), w = field width in bytes
Conc(sym, len, rem, orig, w, unit) ==
  CASE sym = "0" -> L4(0) [] sym = "1" -> L4(1) [] sym = "2" -> L4(2)
    [] sym = "len-1" -> L4(Max0(len - 1)) [] sym = "len" -> L4(len) [] sym = "len+1" -> L4(len + 1)
    [] sym = "rem-1" -> L4(Max0(rem - 1)) [] sym = "rem" -> L4(rem) [] sym = "rem+1" -> L4(rem + 1)
    [] sym = "orig-1" -> Dec4(orig) [] sym = "orig+1" -> Inc4(orig)
    [] sym = "i31max" -> (IF w >= 4 THEN <<0, 0, 32767, 65535>> ELSE IF w = 2 THEN L4(32767) ELSE L4(127))
    [] sym = "i31"    -> (IF w >= 4 THEN <<0, 0, 32768, 0>> ELSE IF w = 2 THEN L4(32768) ELSE L4(128))
    [] sym = "u32max" -> (IF w >= 4 THEN <<0, 0, 65535, 65535>> ELSE IF w = 2 THEN L4(65535) ELSE L4(255))
    [] sym = "u16max" -> L4(65535) [] sym = "u16max+1" -> L4(65536)
    [] sym = "mulwrap" -> Inc4(<<0, 0, 65536 \div unit, ((65536 % unit) * 65536) \div unit>>)   \* 2^32 / unit + 1
    [] sym = "i63max" -> <<32767, 65535, 65535, 65535>> [] sym = "i63" -> <<32768, 0, 0, 0>>
    [] sym = "u64max" -> <<65535, 65535, 65535, 65535>> [] sym = "u32max+1" -> <<0, 1, 0, 0>>
    [] sym = "nonzero" -> L4(65)
    [] sym \in DOMAIN Literals -> L4(Literals[sym])

\* the model's adversary: every numeric boundary symbol for a 4-byte field of a file of length L whose
\* fitting boundary is `rem`, with valid values 1, 3 and 9, plus the wrap-around witnesses
W2(v) == <<v[3], v[4]>>
NatW(S)  == {WFromNat(n) : n \in {m \in S : m >= 0}}
ValsOf(L, rem) == {W2(Mask4(Conc(s, L, rem, L4(o), 4, 4), 4)) : s \in NumSymbols, o \in {1, 3, 9}} \cup Bigs
\* tabulated once (a constant: TLC caches it) -- Vals is evaluated in every header action
ValsTab == [L \in 0..MaxLen |-> [r \in 0..(MaxLen + 1) |-> ValsOf(L, r)]]
Vals(L, rem) == ValsTab[L][Max0(rem)]
\* the reduced set used for nested headers (keeps the exhaustive model small)
ValsN(L, rem) == NatW({0, 1, rem, rem + 1, L, L + 1}) \cup {W_I31, W_U32MAX, W_MULW4}

Small(w)  == w[1] = 0 /\ w[2] <= MaxLen + 9
NatOf(w)  == IF Small(w) THEN w[2] ELSE BIG
Le32(a, b) == a[1] < b[1] \/ (a[1] = b[1] /\ a[2] <= b[2])
\* wrapping product of a word with a small natural k (repeated addition)
RECURSIVE MulSmall(_, _)
MulSmall(w, k) == IF k = 0 THEN WZero ELSE Add32(w, MulSmall(w, k - 1))
MinN(a, b) == IF a < b THEN a ELSE b
Cap(n) == MinN(n, BIG)

(***************************************************************************************************)
(* Bounds of the property (model scale).  The implementation-scale bound used in trace validation  *)
(* is AllocLimitKiB below.                                                                         *)
(***************************************************************************************************)
AllocK == 64
AllocC == 64
WorkK  == 4
WorkC  == 8
MemFactor == 16          \* an on-disk element may be up to 16 times larger in memory
ChunkHdr == 8            \* <tag:4><size:4>
SubHdr   == 4            \* fixed header of a container chunk before its sub-chunks (model scale)
ArrHdr   == 8            \* <count:4><offset:4>
ESizes   == {0, 1, 2, 4, 8} \* on-disk element sizes; 0 only occurs when the size is itself a file field
MaxDepth == 2

\* implementation scale: a single request above 64 * input + 64 MiB is out of proportion (KiB units)
AllocLimitKiB(lenBytes) == 64 * ((lenBytes + 1023) \div 1024) + 65536
TotalOutcomes == {"ok", "err"}
Vocabulary == {"ok", "err", "panic", "abort", "stackoverflow", "timeout", "hugealloc"}

VARIABLES vflen,   \* length of the adversarial file
          varch,   \* archetype under test
          vpc,     \* control location of the reader
          vcur,    \* cursor
          vlim,    \* stack of region ends (chunk nesting), top first
          vfld,    \* the fields read last
          vstk,    \* array nesting: stack of suspended loops [cnt, off, esz, idx]
          vreq,    \* largest single allocation request so far (bytes, capped at BIG)
          vwork,   \* loop iterations so far (capped at BIG)
          vrd,     \* last read: <<start, length>>
          vout     \* "run" | "ok" | "err"

vars == <<vflen, varch, vpc, vcur, vlim, vfld, vstk, vreq, vwork, vrd, vout>>

NoFld == [size |-> WZero, cnt |-> WZero, off |-> WZero, esz |-> 0, idx |-> 0, cont |-> FALSE,
          out |-> 0, tbad |-> FALSE, bbad |-> FALSE]   \* token stream: output so far; a table lookup / back reference went out of range
Top == vlim[1]
F(f) == f \in Faults

(***************************************************************************************************)
(* "stuck": the reader has no rule for a zero-size container / zero count (unwrap on None,         *)
(* index into an empty vector, unreachable!): the corresponding checked actions are disabled.      *)
(***************************************************************************************************)
StuckCase == F("stuck") /\ \/ (vpc = "chunk_check" /\ vfld.size = WZero)
                           \/ (vpc = "array_check" /\ vfld.cnt = WZero)
                           \/ (vpc = "string_scan" /\ vcur >= vflen)


TokMaxLen == 8      \* the token-stream reader is explored on payloads of up to 8 bytes (keeps the model small)
Init == /\ varch \in Archetypes
        /\ vflen \in 0..(IF varch = "token" THEN MinN(TokMaxLen, MaxLen) ELSE MaxLen)
        /\ vpc = "start"
        /\ vcur = 0
        /\ vlim = <<vflen>>
        /\ vfld = NoFld
        /\ vstk = <<>>
        /\ vreq = 0 /\ vwork = 0
        /\ vrd = <<0, 0>>
        /\ vout = "run"

\* ---- primitive effects -------------------------------------------------------------------------
Read(a, n)  == vrd' = <<a, n>>
Alloc(n)    == vreq' = IF n > vreq THEN Cap(n) ELSE vreq
NoAlloc     == UNCHANGED vreq
Work(n)     == vwork' = Cap(vwork + n)
Finish(o)   == /\ vpc' = "done" /\ vout' = o
Fail        == /\ Finish("err")
               /\ UNCHANGED <<vcur, vlim, vfld, vstk, vreq, vwork, vrd>>

Start == /\ vpc = "start"
         /\ vpc' = CASE varch = "chunk" -> "chunk" [] varch = "array" -> "array" [] varch = "token" -> "token"
                      [] OTHER -> "string"
         /\ UNCHANGED <<vflen, varch, vcur, vlim, vfld, vstk, vreq, vwork, vrd, vout>>

(***************************************************************************************************)
(* (i) chunk walker                                                                                *)
(***************************************************************************************************)
\* read the next 8-byte header if it fits into the current region
ChunkHeader ==
  /\ vpc = "chunk" /\ vcur + ChunkHdr <= Top
  /\ \E sz \in Vals(vflen, Top - vcur - ChunkHdr), c \in BOOLEAN :
        vfld' = [NoFld EXCEPT !.size = sz, !.cont = c /\ Len(vlim) < MaxDepth]
  /\ Read(vcur, ChunkHdr) /\ Work(1) /\ NoAlloc
  /\ vpc' = "chunk_check"
  /\ UNCHANGED <<vflen, varch, vcur, vlim, vstk, vout>>

\* fewer than 8 bytes left in the region: leave the region (trailing bytes are ignored or rejected)
ChunkRegionEnd ==
  /\ vpc = "chunk" /\ vcur + ChunkHdr > Top
  /\ IF Len(vlim) > 1
       THEN /\ vlim' = Tail(vlim) /\ vcur' = Top /\ vpc' = "chunk" /\ UNCHANGED vout
       ELSE /\ \E o \in (IF vcur = Top THEN {"ok"} ELSE {"ok", "err"}) : Finish(o)
            /\ UNCHANGED <<vlim, vcur>>
  /\ UNCHANGED <<vflen, varch, vfld, vstk, vreq, vwork, vrd>>

\* the declared size is compared with what is left of the region *without* overflow
ChunkFits == Small(vfld.size) /\ NatOf(vfld.size) <= Top - vcur - ChunkHdr

\* a payload chunk: allocate and read `size` bytes, move behind it
ChunkAcceptLeaf ==
  /\ vpc = "chunk_check" /\ ChunkFits /\ ~vfld.cont /\ ~StuckCase
  /\ LET n == NatOf(vfld.size) IN
       /\ Alloc(n * MemFactor) /\ Read(vcur + ChunkHdr, n)
       /\ vcur' = vcur + ChunkHdr + n
  /\ vpc' = "chunk"
  /\ UNCHANGED <<vflen, varch, vlim, vfld, vstk, vwork, vout>>

\* a container chunk (MCNK, MOGP): fixed sub-header, then sub-chunks up to the container's end
ChunkAcceptContainer ==
  /\ vpc = "chunk_check" /\ ChunkFits /\ vfld.cont /\ ~StuckCase
  /\ LET n == NatOf(vfld.size) IN
       IF n >= SubHdr
         THEN /\ Read(vcur + ChunkHdr, SubHdr)
              /\ vlim' = <<vcur + ChunkHdr + n>> \o vlim
              /\ vcur' = vcur + ChunkHdr + SubHdr
              /\ vpc' = "chunk" /\ UNCHANGED vout
         ELSE /\ Finish("err") /\ UNCHANGED <<vrd, vlim, vcur>>
  /\ NoAlloc
  /\ UNCHANGED <<vflen, varch, vfld, vstk, vwork>>

\* size does not fit: error, or (lenient readers) clamp the chunk to the rest of the region
ChunkReject ==
  /\ vpc = "chunk_check" /\ ~ChunkFits
  /\ \/ Fail
     \/ /\ Alloc((Top - vcur - ChunkHdr) * MemFactor) /\ Read(vcur + ChunkHdr, Top - vcur - ChunkHdr)
        /\ vcur' = Top /\ vpc' = "chunk"
        /\ UNCHANGED <<vlim, vfld, vstk, vwork, vout>>
  /\ UNCHANGED <<vflen, varch>>

\* ---- deviations --------------------------------------------------------------------------------
\* "wrapadd": `if cursor + 8 + size <= end` in u32: 2^32-8 wraps to the cursor itself
ChunkWrapAdd ==
  /\ F("wrapadd") /\ vpc = "chunk_check" /\ ~ChunkFits
  /\ Le32(Add32(WFromNat(vcur + ChunkHdr), vfld.size), WFromNat(Top))
  /\ LET n == NatOf(vfld.size) IN
       /\ Alloc(n * MemFactor) /\ Read(vcur + ChunkHdr, n)
       /\ vcur' = NatOf(Add32(WFromNat(vcur + ChunkHdr), vfld.size))
  /\ vpc' = "chunk"
  /\ UNCHANGED <<vflen, varch, vlim, vfld, vstk, vwork, vout>>

\* "nosizecheck": payload read / allocated with the declared size as it stands
ChunkNoCheck ==
  /\ F("nosizecheck") /\ vpc = "chunk_check" /\ ~ChunkFits
  /\ LET n == NatOf(vfld.size) IN
       /\ Alloc(n * MemFactor) /\ Read(vcur + ChunkHdr, n) /\ vcur' = Cap(vcur + ChunkHdr + n)
  /\ vpc' = "chunk"
  /\ UNCHANGED <<vflen, varch, vlim, vfld, vstk, vwork, vout>>

\* "noprogress": an empty chunk is skipped with `continue` before the cursor is advanced
ChunkNoProgress ==
  /\ F("noprogress") /\ vpc = "chunk_check" /\ vfld.size = WZero
  /\ vpc' = "chunk"
  /\ UNCHANGED <<vflen, varch, vcur, vlim, vfld, vstk, vreq, vwork, vrd, vout>>

(***************************************************************************************************)
(* (ii) counted array, one level of nesting                                                        *)
(***************************************************************************************************)
\* header <count, offset> at the cursor (depth 0) or inside the current element (depth 1)
ArrayHeader ==
  /\ vpc = "array"
  /\ IF vcur + ArrHdr <= vflen
       THEN /\ \E e \in (IF vstk = <<>> THEN ESizes ELSE {1, 4}) :
              \E o \in (IF vstk = <<>> THEN Vals(vflen, vflen - 8) ELSE ValsN(vflen, vflen - 1)) :
                LET fit == IF e > 0 /\ Small(o) /\ NatOf(o) <= vflen THEN (vflen - NatOf(o)) \div e ELSE vflen IN
                \E c \in (IF vstk = <<>> THEN Vals(vflen, fit) \cup NatW({3}) ELSE ValsN(vflen, fit)) :
                  vfld' = [NoFld EXCEPT !.cnt = c, !.off = o, !.esz = e]
            /\ Read(vcur, ArrHdr) /\ Work(1)
            /\ vpc' = IF F("prealloc") THEN "array_prealloc" ELSE "array_check"
            /\ UNCHANGED <<vcur, vlim, vstk, vreq, vout>>
       ELSE Fail
  /\ UNCHANGED <<vflen, varch>>

\* the checked design: esize > 0, offset inside the file, count <= (len - offset) / esize
ArrayFits == /\ vfld.esz > 0
             /\ Small(vfld.off) /\ NatOf(vfld.off) <= vflen
             /\ Small(vfld.cnt) /\ NatOf(vfld.cnt) <= (vflen - NatOf(vfld.off)) \div vfld.esz

ArrayEmpty == vfld.cnt = WZero

ArrayAccept ==
  /\ vpc = "array_check" /\ (ArrayFits \/ ArrayEmpty) /\ ~StuckCase
  /\ Alloc(NatOf(vfld.cnt) * vfld.esz * MemFactor)
  /\ vfld' = [vfld EXCEPT !.idx = 0]
  /\ vpc' = "array_read"
  /\ UNCHANGED <<vflen, varch, vcur, vlim, vstk, vwork, vrd, vout>>

ArrayReject ==
  /\ vpc = "array_check" /\ ~(ArrayFits \/ ArrayEmpty)
  /\ Fail /\ UNCHANGED <<vflen, varch>>

\* one element; an element of at least 8 bytes may itself hold a nested <count, offset>
ArrayReadElem ==
  /\ vpc = "array_read" /\ vfld.idx < NatOf(vfld.cnt)
  /\ LET pos == NatOf(vfld.off) + vfld.idx * vfld.esz IN
       /\ Read(pos, vfld.esz) /\ Work(1) /\ NoAlloc
       /\ \/ /\ vfld' = [vfld EXCEPT !.idx = @ + 1]
             /\ UNCHANGED <<vpc, vcur, vstk>>
          \/ /\ vfld.esz >= ArrHdr /\ Len(vstk) < MaxDepth - 1   \* nested header inside the element
             /\ vstk' = <<[vfld EXCEPT !.idx = @ + 1]>> \o vstk
             /\ vcur' = pos /\ vpc' = "array" /\ vfld' = NoFld
  /\ UNCHANGED <<vflen, varch, vlim, vout>>

ArrayDone ==
  /\ vpc = "array_read" /\ vfld.idx >= NatOf(vfld.cnt)
  /\ IF vstk = <<>>
       THEN Finish("ok") /\ UNCHANGED <<vfld, vstk>>
       ELSE /\ vfld' = vstk[1] /\ vstk' = Tail(vstk) /\ vpc' = "array_read" /\ UNCHANGED vout
  /\ UNCHANGED <<vflen, varch, vcur, vlim, vreq, vwork, vrd>>

\* ---- deviations --------------------------------------------------------------------------------
\* "prealloc": capacity reserved from the raw count before anything is validated
ArrayPrealloc ==
  /\ vpc = "array_prealloc"
  /\ Alloc(NatOf(vfld.cnt) * MemFactor)
  /\ vpc' = "array_check"
  /\ UNCHANGED <<vflen, varch, vcur, vlim, vfld, vstk, vwork, vrd, vout>>

\* "mulwrap": count * esize <= len - offset evaluated in wrapping u32 arithmetic
ArrayMulWrap ==
  /\ F("mulwrap") /\ vpc = "array_check" /\ ~(ArrayFits \/ ArrayEmpty)
  /\ vfld.esz > 0 /\ Small(vfld.off) /\ NatOf(vfld.off) <= vflen
  /\ Le32(MulSmall(vfld.cnt, vfld.esz), WFromNat(vflen - NatOf(vfld.off)))
  /\ Alloc(NatOf(vfld.cnt) * vfld.esz * MemFactor)
  /\ vfld' = [vfld EXCEPT !.idx = 0]
  /\ vpc' = "array_read"
  /\ UNCHANGED <<vflen, varch, vcur, vlim, vstk, vwork, vrd, vout>>

\* "zeroesize": esize 0 passes every byte-size test; the loop still runs `count` times
ArrayZeroEsize ==
  /\ F("zeroesize") /\ vpc = "array_check" /\ vfld.esz = 0 /\ ~ArrayEmpty
  /\ Small(vfld.off) /\ NatOf(vfld.off) <= vflen
  /\ Work(NatOf(vfld.cnt)) /\ NoAlloc
  /\ vfld' = [vfld EXCEPT !.idx = NatOf(vfld.cnt)]
  /\ vpc' = "array_read"
  /\ UNCHANGED <<vflen, varch, vcur, vlim, vstk, vrd, vout>>

\* "nooffcheck": offset + i * esize used for slicing without a comparison with the length
ArrayNoOffCheck ==
  /\ F("nooffcheck") /\ vpc = "array_check" /\ ~(ArrayFits \/ ArrayEmpty)
  /\ vfld.esz > 0 /\ Small(vfld.cnt) /\ NatOf(vfld.cnt) * vfld.esz <= vflen
  /\ Alloc(NatOf(vfld.cnt) * vfld.esz * MemFactor)
  /\ Read(NatOf(vfld.off), NatOf(vfld.cnt) * vfld.esz)
  /\ vfld' = [vfld EXCEPT !.idx = NatOf(vfld.cnt)]
  /\ vpc' = "array_read"
  /\ UNCHANGED <<vflen, varch, vcur, vlim, vstk, vwork, vout>>

(***************************************************************************************************)
(* (iii) strings: offset into a NUL-terminated block, or a length prefix                           *)
(***************************************************************************************************)
StringHeader ==
  /\ vpc = "string"
  /\ IF vcur + 4 <= vflen
       THEN /\ \E v \in Vals(vflen, vflen - vcur - 4), lp \in BOOLEAN :
                 vfld' = [NoFld EXCEPT !.size = v, !.cont = lp]     \* cont = "length-prefixed"
            /\ Read(vcur, 4) /\ Work(1) /\ NoAlloc
            /\ vpc' = "string_check"
            /\ UNCHANGED <<vcur, vlim, vstk, vout>>
       ELSE Fail
  /\ UNCHANGED <<vflen, varch>>

\* length-prefixed: the length must fit behind the prefix
StrLenFits == Small(vfld.size) /\ NatOf(vfld.size) <= vflen - vcur - 4
StringLenAccept ==
  /\ vpc = "string_check" /\ vfld.cont /\ StrLenFits
  /\ Alloc(NatOf(vfld.size)) /\ Read(vcur + 4, NatOf(vfld.size))
  /\ Finish("ok")
  /\ UNCHANGED <<vflen, varch, vcur, vlim, vfld, vstk, vwork>>
StringLenReject ==
  /\ vpc = "string_check" /\ vfld.cont /\ ~StrLenFits
  /\ Fail /\ UNCHANGED <<vflen, varch>>

\* offset into the block: must lie inside the data; then scan for the terminator
StrOffFits == Small(vfld.size) /\ NatOf(vfld.size) < vflen
StringOffAccept ==
  /\ vpc = "string_check" /\ ~vfld.cont /\ StrOffFits
  /\ vcur' = NatOf(vfld.size) /\ vfld' = [vfld EXCEPT !.idx = NatOf(vfld.size)]
  /\ vpc' = "string_scan"
  /\ UNCHANGED <<vflen, varch, vlim, vstk, vreq, vwork, vrd, vout>>
StringOffReject ==
  /\ vpc = "string_check" /\ ~vfld.cont /\ ~StrOffFits
  /\ Fail /\ UNCHANGED <<vflen, varch>>

\* one byte of the scan; the adversary decides whether it is the terminator
StringScan ==
  /\ vpc = "string_scan" /\ vcur < vflen
  /\ Read(vcur, 1) /\ Work(1)
  /\ \/ /\ vcur' = vcur + 1 /\ NoAlloc /\ UNCHANGED <<vpc, vout>>          \* not NUL
     \/ /\ Alloc(vcur - vfld.idx) /\ Finish("ok") /\ UNCHANGED vcur        \* NUL: copy the string out
  /\ UNCHANGED <<vflen, varch, vlim, vfld, vstk>>

\* end of data without terminator: error, or (lenient) the unterminated rest is the string
StringUnterminated ==
  /\ vpc = "string_scan" /\ vcur >= vflen /\ ~StuckCase
  /\ \E o \in {"ok", "err"} : Finish(o)
  /\ UNCHANGED <<vflen, varch, vcur, vlim, vfld, vstk, vreq, vwork, vrd>>

\* ---- deviations --------------------------------------------------------------------------------
StringNoCheck ==
  /\ F("nosizecheck") /\ vpc = "string_check" /\ vfld.cont /\ ~StrLenFits
  /\ Alloc(NatOf(vfld.size)) /\ Read(vcur + 4, NatOf(vfld.size))
  /\ Finish("ok")
  /\ UNCHANGED <<vflen, varch, vcur, vlim, vfld, vstk, vwork>>

StringOffNoCheck ==
  /\ F("nooffcheck") /\ vpc = "string_check" /\ ~vfld.cont /\ ~StrOffFits
  /\ vcur' = NatOf(vfld.size) /\ vfld' = [vfld EXCEPT !.idx = NatOf(vfld.size)]
  /\ Read(NatOf(vfld.size), 1)
  /\ vpc' = "string_scan"
  /\ UNCHANGED <<vflen, varch, vlim, vstk, vreq, vwork, vout>>

StringScanPast ==
  /\ F("scanpast") /\ vpc = "string_scan" /\ vcur >= vflen /\ vcur < vflen + 2
  /\ Read(vcur, 1) /\ Work(1) /\ NoAlloc
  /\ vcur' = vcur + 1
  /\ UNCHANGED <<vflen, varch, vpc, vlim, vfld, vstk, vout>>

(***************************************************************************************************)
(* (iv) token stream: the payload level (ADPCM code bytes, sparse / RLE runs, LZ back references). *)
(* A 2-byte header, a declared output size (from the container), then one token per step:          *)
(*   up / down   state markers: move the index into a TabLen-entry table, saturating at its ends    *)
(*   code        ordinary token: looks the table up at the current index, emits one output unit     *)
(*   run         a count byte follows: emits `count` units -- must fit the declared output          *)
(*   backref     a distance follows: copies from `dist` units back -- must not precede the start    *)
(***************************************************************************************************)
TabLen  == 4
MarkUp  == 2
InitIdx == 1
Expand  == 1            \* output units per input byte the codec can produce at most (model scale)

TokenHeader ==
  /\ vpc = "token"
  /\ IF vcur + 2 <= vflen
       THEN /\ \E osz \in Vals(vflen, vflen) :
                 vfld' = [NoFld EXCEPT !.size = osz, !.idx = InitIdx]
            /\ Read(vcur, 2) /\ Work(1)
            /\ vcur' = vcur + 2
            /\ vpc' = "token_alloc"
            /\ UNCHANGED <<vlim, vstk, vreq, vout>>
       ELSE Fail
  /\ UNCHANGED <<vflen, varch>>

\* the output buffer is reserved from the declared size, capped by what the input can expand to
OutLimit == MinN(NatOf(vfld.size), Expand * vflen)
TokenAlloc ==
  /\ vpc = "token_alloc"
  /\ Alloc(OutLimit)
  /\ vpc' = "token_loop"
  /\ UNCHANGED <<vflen, varch, vcur, vlim, vfld, vstk, vwork, vrd, vout>>

TokenMore == vcur < vflen /\ vfld.out < OutLimit

TokenMarker ==
  /\ vpc = "token_loop" /\ TokenMore
  /\ Read(vcur, 1) /\ Work(1) /\ NoAlloc
  /\ \/ vfld' = [vfld EXCEPT !.idx = IF F("marksat") THEN MinN(@ + MarkUp, TabLen) ELSE MinN(@ + MarkUp, TabLen - 1)]
     \/ vfld' = [vfld EXCEPT !.idx = IF @ > 0 THEN @ - 1 ELSE 0]
  /\ vcur' = vcur + 1
  /\ UNCHANGED <<vflen, varch, vpc, vlim, vstk, vout>>

TokenCode ==
  /\ vpc = "token_loop" /\ TokenMore
  /\ Read(vcur, 1) /\ Work(1) /\ NoAlloc
  /\ \E d \in {-1, 1} :
        vfld' = [vfld EXCEPT !.tbad = (vfld.idx >= TabLen),                     \* table lookup at the current index
                             !.idx = IF @ + d < 0 THEN 0 ELSE MinN(@ + d, TabLen - 1),
                             !.out = @ + 1]
  /\ vcur' = vcur + 1
  /\ UNCHANGED <<vflen, varch, vpc, vlim, vstk, vout>>

TokenRun ==
  /\ vpc = "token_loop" /\ TokenMore
  /\ IF vcur + 2 <= vflen
       THEN \E c \in Vals(vflen, OutLimit - vfld.out) :
              IF Small(c) /\ NatOf(c) <= OutLimit - vfld.out
                THEN /\ vfld' = [vfld EXCEPT !.out = @ + NatOf(c)]
                     /\ Read(vcur, 2) /\ Work(1) /\ NoAlloc
                     /\ vcur' = vcur + 2
                     /\ UNCHANGED <<vpc, vlim, vstk, vout>>
                ELSE IF F("runover")
                  THEN /\ vfld' = [vfld EXCEPT !.out = Cap(@ + NatOf(c))]
                       /\ Read(vcur, 2) /\ Work(1) /\ NoAlloc
                       /\ vcur' = vcur + 2
                       /\ UNCHANGED <<vpc, vlim, vstk, vout>>
                  ELSE Fail
       ELSE Fail
  /\ UNCHANGED <<vflen, varch>>

TokenBackref ==
  /\ vpc = "token_loop" /\ TokenMore
  /\ IF vcur + 2 <= vflen
       THEN \E dist \in Vals(vflen, vfld.out) :
              IF (Small(dist) /\ NatOf(dist) <= vfld.out /\ NatOf(dist) > 0) \/ F("backunder")
                THEN /\ vfld' = [vfld EXCEPT !.bbad = ~(NatOf(dist) <= vfld.out /\ NatOf(dist) > 0), !.out = MinN(@ + 1, OutLimit)]
                     /\ Read(vcur, 2) /\ Work(1) /\ NoAlloc
                     /\ vcur' = vcur + 2
                     /\ UNCHANGED <<vpc, vlim, vstk, vout>>
                ELSE Fail
       ELSE Fail
  /\ UNCHANGED <<vflen, varch>>

\* input exhausted or output complete: a short output is an error or (lenient) accepted
TokenDone ==
  /\ vpc = "token_loop" /\ ~TokenMore
  /\ \E o \in (IF vfld.out >= OutLimit THEN {"ok"} ELSE {"ok", "err"}) : Finish(o)
  /\ UNCHANGED <<vflen, varch, vcur, vlim, vfld, vstk, vreq, vwork, vrd>>

Done == vpc = "done" /\ UNCHANGED vars

Next == \/ Start
        \/ ChunkHeader \/ ChunkRegionEnd \/ ChunkAcceptLeaf \/ ChunkAcceptContainer \/ ChunkReject
        \/ ArrayHeader \/ ArrayAccept \/ ArrayReject \/ ArrayReadElem \/ ArrayDone
        \/ StringHeader \/ StringLenAccept \/ StringLenReject \/ StringOffAccept \/ StringOffReject
        \/ StringScan \/ StringUnterminated
        \/ TokenHeader \/ TokenAlloc \/ TokenMarker \/ TokenCode \/ TokenRun \/ TokenBackref \/ TokenDone
        \* deviations (each guarded by its fault name)
        \/ ChunkWrapAdd \/ ChunkNoCheck \/ ChunkNoProgress
        \/ ArrayPrealloc \/ ArrayMulWrap \/ ArrayZeroEsize \/ ArrayNoOffCheck
        \/ StringNoCheck \/ StringOffNoCheck \/ StringScanPast
        \/ Done

DeviationActions == {"ChunkWrapAdd", "ChunkNoCheck", "ChunkNoProgress", "ArrayPrealloc", "ArrayMulWrap",
                     "ArrayZeroEsize", "ArrayNoOffCheck", "StringNoCheck", "StringOffNoCheck", "StringScanPast"}

Spec == Init /\ [][Next]_vars /\ WF_vars(Next)

(***************************************************************************************************)
(* The property                                                                                    *)
(***************************************************************************************************)
TypeOK == /\ vflen \in 0..MaxLen /\ varch \in Archetypes
          /\ vpc \in {"start", "chunk", "chunk_check", "array", "array_prealloc", "array_check", "array_read",
                      "string", "string_check", "string_scan", "token", "token_alloc", "token_loop", "done"}
          /\ vcur \in 0..BIG /\ vreq \in 0..BIG /\ vwork \in 0..BIG
          /\ vout \in {"run", "ok", "err"}

ReadInBounds  == vrd[1] + vrd[2] <= vflen
AllocBounded  == vreq <= AllocK * vflen + AllocC
WorkBounded   == vwork <= WorkK * vflen * (vflen + 1) + WorkC
CursorInside  == vcur <= vflen /\ \A i \in 1..Len(vlim) : vlim[i] <= vflen
OutcomeTotal  == (vpc = "done") <=> (vout \in TotalOutcomes)
\* token stream
TableIndexInBounds == ~vfld.tbad
OutputBounded      == varch = "token" => vfld.out <= Expand * vflen + 1 /\ (vpc = "token_loop" => vfld.out <= OutLimit)
BackrefInBounds    == ~vfld.bbad
TokenProgress      == [][(vpc = "token_loop" /\ vpc' = "token_loop") => vcur' > vcur]_vars

ChunkProgress  == [][(vpc = "chunk_check" /\ vpc' = "chunk") => vcur' > vcur]_vars
ArrayProgress  == [][(vpc = "array_read" /\ vpc' = "array_read" /\ Len(vstk') = Len(vstk)) => vfld'.idx > vfld.idx]_vars
StringProgress == [][(vpc = "string_scan" /\ vpc' = "string_scan") => vcur' > vcur]_vars
Termination    == <>(vpc = "done")
=============================================================================
