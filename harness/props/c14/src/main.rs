//! C14 driver: ADT terrain build -> serialise -> parse -> (rebuild)^4.
//!
//! For every shape TLC generated (Gen_AdtLayout) the driver assembles a tile deterministically
//! from (shape, VERIF_SEED) through the crate's public `AdtBuilder` API with distinct element
//! values everywhere, and records
//!   Reset   the shape (class attributes of the case)
//!   Build   result of AdtBuilder::build + per-section tokens of the *inputs*
//!   File    result of BuiltAdt::to_bytes + what an independent chunk walker reads out of the
//!           bytes: top-level chunk list, MHDR table, MCIN table, per-MCNK sub-chunk lists and
//!           the header's ofs_* fields (MCNKs with identical relative layout folded into one group)
//!   Parse   result of parse_adt + per-section tokens of the parsed RootAdt
//!   Rebuild result of BuiltAdt::from_root_adt(parse(bytes)) for rounds 1..4, each followed by
//!           File and Parse.
//! The driver never compares anything: Trace_AdtLayout.tla (TLC) decides.
//!
//! The walker knows only: `tag:u32 (reversed) size:u32 LE payload`, that MCNK is a container whose
//! payload starts with a fixed header of `mcnk_hdr` bytes, and the byte positions of the header
//! fields -- all three are emitted by the specification with the case (`lay`), not taken from the
//! wow-adt crate.
use std::collections::BTreeMap;
use std::io::Cursor;
use wow_adt::chunks::mh2o::{
    DepthOnlyVertex, HeightDepthVertex, HeightUvDepthVertex, HeightUvVertex, Mh2oAttributes, Mh2oChunk, Mh2oEntry, Mh2oHeader,
    Mh2oInstance, UvMapEntry, VertexDataArray,
};
use wow_adt::chunks::mcnk::{
    LiquidType, LiquidVertex, MccvChunk, MclqChunk, MclvChunk, MclyChunk, MclyFlags, MclyLayer, McalChunk,
    McnkChunk, McnkFlags, McnkHeader, McnrChunk, McrfChunk, McseChunk, McshChunk, McvtChunk, SoundEmitter,
    VertexColor, VertexNormal,
};
use wow_adt::chunks::{
    DoodadPlacement, MampChunk, MbbbChunk, MbbbEntry, MbmhChunk, MbmhEntry, MbmiChunk, MbnvChunk, MbnvVertex,
    MfboChunk, MtxfChunk, MtxpChunk, TextureHeightParams, WmoPlacement,
};
use wow_adt::{parse_adt, AdtBuilder, AdtVersion, BuiltAdt, ParsedAdt, RootAdt};
use wverif_common::*;

const ROUNDS: usize = 4;
const VERSIONS: [AdtVersion; 6] = [
    AdtVersion::VanillaEarly,
    AdtVersion::VanillaLate,
    AdtVersion::TBC,
    AdtVersion::WotLK,
    AdtVersion::Cataclysm,
    AdtVersion::MoP,
];

fn ver_idx(v: AdtVersion) -> i64 {
    VERSIONS.iter().position(|x| *x == v).map(|p| p as i64).unwrap_or(-1)
}

// ------------------------------------------------------------------------------------------
// value generators: distinct values everywhere (a permutation / off-by-one record changes a token)
// ------------------------------------------------------------------------------------------
fn fval(r: &mut Rng) -> f32 {
    // exactly representable, finite, never NaN, distinct with high probability
    (r.below(1 << 20) as f32) * 0.125 - 4096.0
}
fn f3(r: &mut Rng) -> [f32; 3] {
    [fval(r), fval(r), fval(r)]
}
/// Value class of scalar fields (shape dimension `vals`): a (min, max) pair within +-lim.
///   rand: min < max random;  flat: min == max (degenerate range);  zero: both 0.0;  extreme: (-lim, lim)
fn range_pair(vals: &str, lim: f32, r: &mut Rng) -> (f32, f32) {
    match vals {
        "flat" => {
            let c = (r.below(2000) as f32) * 0.5 - 500.0;
            (c, c)
        }
        "zero" => (0.0, 0.0),
        "extreme" => (-lim, lim),
        _ => {
            let lo = (r.below(1000) as f32) * 0.5;
            (lo, lo + 1.0 + (r.below(100) as f32) * 0.25)
        }
    }
}
/// A 3-vector of the value class: rand, flat (all components equal), zero (0.0 / -0.0), extreme (+-f32::MAX, MIN_POSITIVE)
fn f3v(vals: &str, r: &mut Rng) -> [f32; 3] {
    match vals {
        "flat" => {
            let c = fval(r);
            [c, c, c]
        }
        "zero" => [0.0, -0.0, 0.0],
        "extreme" => [f32::MAX, -f32::MAX, f32::MIN_POSITIVE],
        _ => f3(r),
    }
}

struct Inputs {
    version: AdtVersion,
    textures: Vec<String>,
    models: Vec<String>,
    wmos: Vec<String>,
    ddf: Vec<DoodadPlacement>,
    modf: Vec<WmoPlacement>,
    mcnks: Vec<McnkChunk>,
    mfbo: Option<MfboChunk>,
    mh2o: Option<Mh2oChunk>,
    mtxf: Option<MtxfChunk>,
    mamp: Option<MampChunk>,
    mtxp: Option<MtxpChunk>,
    bmesh: Option<(MbmhChunk, MbbbChunk, MbnvChunk, MbmiChunk)>,
}

/// `n` names; `dup` is the multiplicity pattern of the list (element multiplicity is part of a list):
/// "none" all distinct, "first2" first = second, "firstlast" first = last, "all" all equal.
fn names(n: usize, dir: &str, ext: &str, dup: &str, r: &mut Rng) -> Vec<String> {
    let mut v: Vec<String> = (0..n)
        .map(|i| {
            // differing lengths so that string-table offsets are not a multiple of anything
            let pad = "x".repeat(1 + r.below(9) as usize);
            format!("{dir}/n{i}_{:05x}{pad}.{ext}", r.below(1 << 20))
        })
        .collect();
    if n >= 2 {
        match dup {
            "none" => {}
            "first2" => v[1] = v[0].clone(),
            "firstlast" => v[n - 1] = v[0].clone(),
            "all" => {
                for i in 1..n {
                    v[i] = v[0].clone();
                }
            }
            o => tool_error(&format!("unknown dup pattern {o}")),
        }
    }
    v
}

/// One liquid layer from a configuration index k in 0..64 (the product the specification enumerates,
/// Gen_AdtLayout LayerCfg): k = bm + 2*vd + 4*lvf + 16*rect with
///   bm   exists bitmap on/off        vd  per-vertex data on/off      lvf  liquid vertex format 0..3
///   rect 0: 8x8@(0,0)  1: 2x3@(1,2)  2: 5x8@(3,0)  3: 1x1@(7,7)
/// Bitmap contents are random within the rectangle's bit count, never all-zero and (for >= 2 bits)
/// never all-ones, so a lost / overwritten / shifted bitmap changes the token.
fn water_layer(k: usize, vals: &str, r: &mut Rng) -> (Mh2oInstance, Option<VertexDataArray>, Option<u64>) {
    let (bm_on, vd_on, lvf, rect) = (k % 2 == 1, (k / 2) % 2 == 1, ((k / 4) % 4) as u16, (k / 16) % 4);
    let (xo, yo, w, h) = match rect {
        0 => (0u8, 0u8, 8u8, 8u8),
        1 => (1, 2, 2, 3),
        2 => (3, 0, 5, 8),
        _ => (7, 7, 1, 1),
    };
    let inst = Mh2oInstance {
        liquid_type: 1 + r.below(20) as u16,
        liquid_object_or_lvf: lvf,
        min_height_level: range_pair(vals, f32::MAX, r).0,
        max_height_level: range_pair(vals, f32::MAX, r).1,
        x_offset: xo,
        y_offset: yo,
        width: w,
        height: h,
        offset_exists_bitmap: 0,
        offset_vertex_data: 0,
    };
    let cells: Vec<usize> = (yo as usize..=(yo + h) as usize).flat_map(|z| (xo as usize..=(xo + w) as usize).map(move |x| z * 9 + x)).collect();
    let uv = |r: &mut Rng| UvMapEntry { u: r.next_u32() as u16, v: r.next_u32() as u16 };
    let vd = if !vd_on {
        None
    } else {
        Some(match lvf {
            0 => {
                let mut g: [Option<HeightDepthVertex>; 81] = [None; 81];
                for i in &cells {
                    g[*i] = Some(HeightDepthVertex { height: fval(r), depth: r.byte() });
                }
                VertexDataArray::HeightDepth(Box::new(g))
            }
            1 => {
                let mut g: [Option<HeightUvVertex>; 81] = [None; 81];
                for i in &cells {
                    g[*i] = Some(HeightUvVertex { height: fval(r), uv: uv(r) });
                }
                VertexDataArray::HeightUv(Box::new(g))
            }
            2 => {
                let mut g: [Option<DepthOnlyVertex>; 81] = [None; 81];
                for i in &cells {
                    g[*i] = Some(DepthOnlyVertex { depth: r.byte() });
                }
                VertexDataArray::DepthOnly(Box::new(g))
            }
            _ => {
                let mut g: [Option<HeightUvDepthVertex>; 81] = [None; 81];
                for i in &cells {
                    g[*i] = Some(HeightUvDepthVertex { height: fval(r), uv: uv(r), depth: r.byte() });
                }
                VertexDataArray::HeightUvDepth(Box::new(g))
            }
        })
    };
    let bits = (w as u32) * (h as u32);
    let mask = if bits >= 64 { u64::MAX } else { (1u64 << bits) - 1 };
    let bm = if !bm_on {
        None
    } else {
        let mut v = r.next_u64() & mask;
        while v == 0 || (bits >= 2 && v == mask) {
            v = r.next_u64() & mask;
        }
        Some(v)
    };
    (inst, vd, bm)
}

/// Water of chunk `ci`: `layers` layers; layer l uses configuration (wbase + 5*ci + 21*l) mod 64, so a
/// tile with water on all 256 chunks carries every element of the product several times and a tile
/// with water on one chunk carries exactly the configurations the case names.
fn water_entry(ci: usize, slot: usize, layers: usize, wbase: usize, vals: &str, r: &mut Rng) -> Mh2oEntry {
    let mut instances = Vec::new();
    let mut vertex_data = Vec::new();
    let mut exists_bitmaps = Vec::new();
    for l in 0..layers {
        let (i, v, b) = water_layer((wbase + 5 * slot + 21 * l) % 64, vals, r);
        instances.push(i);
        vertex_data.push(v);
        exists_bitmaps.push(b);
    }
    let _ = ci;
    Mh2oEntry {
        header: Mh2oHeader { offset_instances: 0, layer_count: layers as u32, offset_attributes: 0 },
        instances,
        vertex_data,
        exists_bitmaps,
        attributes: if r.chance(2, 3) {
            Some(Mh2oAttributes { fishable: r.next_u64() | 1, deep: r.next_u64() })
        } else {
            None
        },
    }
}

fn mcnk(c: &Value, ix: u32, iy: u32, opt: bool, r: &mut Rng) -> McnkChunk {
    let on = |k: &str| opt && gb(c, k);
    let mut flags = 0u32;
    let nly = if opt { gi(c, "nly") as usize } else { 1 };
    let refs = if on("mcrf") {
        Some(McrfChunk { references: (0..2 + r.below(3)).map(|_| r.next_u32() >> 8).collect() })
    } else {
        None
    };
    if on("mcsh") {
        flags |= 0x01;
    }
    if on("mccv") {
        flags |= 0x40;
    }
    let liquid = if on("mclq") {
        let (bit, lt) = *r.pick(&[
            (0x04u32, LiquidType::Water),
            (0x08, LiquidType::Ocean),
            (0x10, LiquidType::Magma),
            (0x20, LiquidType::Slime),
        ]);
        flags |= bit;
        // the parser accepts |height| <= 10000 and min <= max (a flat surface is a valid liquid)
        let (lo, hi) = range_pair(gs(c, "vals"), 10000.0, r);
        let mut tf = [0u8; 64];
        r.fill(&mut tf);
        Some(MclqChunk {
            min_height: lo,
            max_height: hi,
            vertices: (0..81)
                .map(|_| LiquidVertex { union_data: [r.byte(), r.byte(), r.byte(), r.byte()], height: fval(r) })
                .collect(),
            tile_flags: tf,
            liquid_type: lt,
        })
    } else {
        None
    };
    let mcse = if on("mcse") {
        Some(McseChunk {
            emitters: (0..1 + r.below(2))
                .map(|_| SoundEmitter { sound_entry_id: r.next_u32() >> 4, position: f3(r), size_min: f3(r), _padding: [] })
                .collect(),
        })
    } else {
        None
    };
    let header = McnkHeader {
        flags: McnkFlags { value: flags },
        index_x: ix,
        index_y: iy,
        n_layers: 0,
        n_doodad_refs: refs.as_ref().map_or(0, |x| x.references.len() as u32),
        multipurpose_field: [0; 8],
        ofs_layer: 0,
        ofs_refs: 0,
        ofs_alpha: 0,
        size_alpha: 0,
        ofs_shadow: 0,
        size_shadow: 0,
        area_id: 1 + r.below(5000) as u32,
        n_map_obj_refs: 0,
        holes_low_res: r.next_u32() as u16,
        unknown_but_used: 1,
        pred_tex: r.next_u64().to_le_bytes(),
        no_effect_doodad: r.next_u64().to_le_bytes(),
        unknown_8bytes: r.next_u64().to_le_bytes(),
        ofs_snd_emitters: 0,
        n_snd_emitters: 0,
        ofs_liquid: 0,
        size_liquid: 0,
        position: f3(r),
        ofs_mccv: 0,
        ofs_mclv: 0,
        unused: 0,
        _padding: [0; 8],
    };
    McnkChunk {
        header,
        heights: if !opt || gb(c, "mcvt") { Some(McvtChunk { heights: (0..145).map(|_| fval(r)).collect() }) } else { None },
        normals: if !opt || gb(c, "mcnr") {
            Some(McnrChunk {
                normals: (0..145).map(|_| VertexNormal { x: r.byte() as i8, z: r.byte() as i8, y: r.byte() as i8 }).collect(),
                padding: vec![0; 13],
            })
        } else {
            None
        },
        layers: if nly > 0 {
            Some(MclyChunk {
                layers: (0..nly)
                    .map(|l| MclyLayer {
                        texture_id: l as u32,
                        flags: MclyFlags { value: (r.below(8) as u32) << 8 },
                        offset_in_mcal: (l as u32) * 2048,
                        effect_id: r.next_u32() >> 12,
                    })
                    .collect(),
            })
        } else {
            None
        },
        materials: None,
        refs,
        doodad_refs: None,
        wmo_refs: None,
        alpha: if on("mcal") { Some(McalChunk { data: r.bytes(2048 * nly.max(1)) }) } else { None },
        shadow: if on("mcsh") { Some(McshChunk { shadow_map: r.bytes(512) }) } else { None },
        vertex_colors: if on("mccv") {
            Some(MccvChunk { colors: (0..145).map(|_| VertexColor { b: r.byte(), g: r.byte(), r: r.byte(), a: r.byte() }).collect() })
        } else {
            None
        },
        vertex_lighting: if on("mclv") { Some(MclvChunk { colors: (0..145).map(|_| r.next_u32()).collect() }) } else { None },
        sound_emitters: mcse,
        liquid,
        doodad_disable: None,
        blend_batches: None,
    }
}

fn make_inputs(c: &Value, case: &str) -> Inputs {
    let mut r = Rng::derive(seed(), case);
    let version = VERSIONS[gi(c, "ver") as usize];
    let textures = names(gi(c, "ntex") as usize, "tileset/zone", "blp", gs(c, "dtex"), &mut r);
    let models = names(gi(c, "nmdl") as usize, "world/doodad", "m2", gs(c, "dmdl"), &mut r);
    let wmos = names(gi(c, "nwmo") as usize, "world/wmo/b", "wmo", gs(c, "dwmo"), &mut r);
    let nm = models.len().max(1) as u64;
    let nw = wmos.len().max(1) as u64;
    // placement field classes (shape dimension `pcls`): rand | lo (0 / smallest legal) | hi (all ones) |
    // bits (single flag / id bit, rotating from `pbit` per placement); float fields follow `vals`
    let vals = gs(c, "vals");
    let pcls = gs(c, "pcls");
    let pbit = gi(c, "pbit") as u32;
    let ddf = (0..gi(c, "nddf"))
        .map(|i| {
            let i = i as u32;
            let (uid, scale, flags) = match pcls {
                "lo" => (0u32, 1u16, 0u16), // a doodad scale of 0 is rejected by the builder by contract
                "hi" => (u32::MAX, u16::MAX, u16::MAX),
                "bits" => (1u32 << ((pbit + i) % 32), 1024, 1u16 << ((pbit + i) % 16)),
                _ => (1000 + i * 7 + r.below(7) as u32, 1 + r.below(4000) as u16, r.below(16) as u16),
            };
            DoodadPlacement {
                name_id: ((nm - 1 - (i as u64 % nm)) % nm) as u32, // last index first, then every other index
                unique_id: uid,
                position: f3v(vals, &mut r),
                rotation: f3v(vals, &mut r),
                scale,
                flags,
            }
        })
        .collect();
    let modf = (0..gi(c, "nmodf"))
        .map(|i| {
            let i = i as u32;
            let (uid, scale, flags, dset, nset) = match pcls {
                "lo" => (0u32, 0u16, 0u16, 0u16, 0u16),
                "hi" => (u32::MAX, u16::MAX, u16::MAX, u16::MAX, u16::MAX),
                "bits" => (1u32 << ((pbit + i + 7) % 32), 1024, 1u16 << ((pbit + i + 5) % 16), 1u16 << ((pbit + i) % 16), 1),
                _ => (5000 + i * 11 + r.below(11) as u32, 1 + r.below(4000) as u16, r.below(8) as u16, r.below(5) as u16, r.below(5) as u16),
            };
            let (emin, emax) = match vals {
                "flat" => {
                    let e = f3(&mut r);
                    (e, e) // degenerate bounding box
                }
                _ => (f3v(vals, &mut r), f3v(vals, &mut r)),
            };
            WmoPlacement {
                name_id: ((nw - 1 - (i as u64 % nw)) % nw) as u32,
                unique_id: uid,
                position: f3v(vals, &mut r),
                rotation: f3v(vals, &mut r),
                extents_min: emin,
                extents_max: emax,
                flags,
                doodad_set: dset,
                name_set: nset,
                scale,
            }
        })
        .collect();
    // terrain chunks: which grid cells are populated, and which of them carry the optional sub-chunks
    let cells: Vec<(u32, u32)> = match gs(c, "mcnk") {
        "auto" => vec![],
        "one00" => vec![(0, 0)],
        "one1515" => vec![(15, 15)],
        "n17" => (0..17).map(|i| (i % 16, i / 16)).collect(),
        "n256" => (0..256).map(|i| (i % 16, i / 16)).collect(),
        o => tool_error(&format!("unknown mcnk class {o}")),
    };
    let n = cells.len();
    let wh = gs(c, "where");
    let mcnks = cells
        .iter()
        .enumerate()
        .map(|(i, (x, y))| {
            let opt = match wh {
                "all" => true,
                "first" => i == 0,
                "last" => i + 1 == n,
                o => tool_error(&format!("unknown where class {o}")),
            };
            mcnk(c, *x, *y, opt, &mut r)
        })
        .collect();
    let wlay = gi(c, "wlay").max(1) as usize;
    let mh2o = match gs(c, "water") {
        "none" => None,
        w => {
            let mut entries = vec![Mh2oEntry::default(); 256];
            let which: Vec<usize> = match w {
                "c0" => vec![0],
                "c255" => vec![255],
                "all" => (0..256).collect(),
                o => tool_error(&format!("unknown water class {o}")),
            };
            let wbase = gi(c, "wbase") as usize;
            for (slot, ci) in which.into_iter().enumerate() {
                entries[ci] = water_entry(ci, slot, wlay, wbase, gs(c, "vals"), &mut r);
            }
            Some(Mh2oChunk { entries })
        }
    };
    let mfbo = if gb(c, "mfbo") {
        let mut p = [0i16; 18];
        for (j, v) in p.iter_mut().enumerate() {
            *v = match vals {
                "flat" => 77,
                "zero" => 0,
                "extreme" => if j % 2 == 0 { i16::MAX } else { i16::MIN },
                _ => r.next_u32() as i16,
            };
        }
        let mut a = [0i16; 9];
        let mut b = [0i16; 9];
        a.copy_from_slice(&p[..9]);
        b.copy_from_slice(&p[9..]);
        Some(MfboChunk { max_plane: a, min_plane: b })
    } else {
        None
    };
    let mtxf = if gb(c, "mtxf") { Some(MtxfChunk { flags: textures.iter().map(|_| 1 + r.below(3) as u32).collect() }) } else { None };
    let mamp = if gb(c, "mamp") { Some(MampChunk { amplifier: 1 + r.below(7) as u32 }) } else { None };
    let mtxp = if gb(c, "mtxp") {
        Some(MtxpChunk {
            entries: textures
                .iter()
                .map(|_| TextureHeightParams { flags: r.below(4) as u32, height_scale: fval(&mut r), height_offset: fval(&mut r), padding: 0 })
                .collect(),
        })
    } else {
        None
    };
    let bmesh = if gb(c, "bmesh") {
        let nv = 3 + r.below(3) as u32;
        let ni = 3 + r.below(6) as u32;
        Some((
            MbmhChunk {
                entries: vec![MbmhEntry {
                    map_object_id: 5000 + r.below(100) as u32,
                    texture_id: r.below(3) as u32,
                    unknown: 0,
                    mbmi_count: ni,
                    mbnv_count: nv,
                    mbmi_start: 0,
                    mbnv_start: 0,
                }],
            },
            MbbbChunk { entries: vec![MbbbEntry { map_object_id: 5000 + r.below(100) as u32, min: f3(&mut r), max: f3(&mut r) }] },
            MbnvChunk {
                vertices: (0..nv)
                    .map(|_| MbnvVertex {
                        position: f3(&mut r),
                        normal: f3(&mut r),
                        uv: [fval(&mut r), fval(&mut r)],
                        color: [[r.byte(); 4], [r.byte(); 4], [r.byte(); 4]],
                    })
                    .collect(),
            },
            MbmiChunk { indices: (0..ni).map(|_| r.below(nv as u64) as u16).collect() },
        ))
    } else {
        None
    };
    Inputs { version, textures, models, wmos, ddf, modf, mcnks, mfbo, mh2o, mtxf, mamp, mtxp, bmesh }
}

fn builder_from(i: &Inputs) -> AdtBuilder {
    let mut b = AdtBuilder::new().with_version(i.version);
    for t in &i.textures {
        b = b.add_texture(t.clone());
    }
    for m in &i.models {
        b = b.add_model(m.clone());
    }
    for w in &i.wmos {
        b = b.add_wmo(w.clone());
    }
    for p in &i.ddf {
        b = b.add_doodad_placement(*p);
    }
    for p in &i.modf {
        b = b.add_wmo_placement(*p);
    }
    for k in &i.mcnks {
        b = b.add_mcnk_chunk(k.clone());
    }
    if let Some(x) = &i.mfbo {
        b = b.add_flight_bounds(*x);
    }
    if let Some(x) = &i.mh2o {
        b = b.add_water_data(x.clone());
    }
    if let Some(x) = &i.mtxf {
        b = b.add_texture_flags(x.clone());
    }
    if let Some(x) = &i.mamp {
        b = b.add_texture_amplifier(*x);
    }
    if let Some(x) = &i.mtxp {
        b = b.add_texture_params(x.clone());
    }
    if let Some((h, bb, v, ix)) = &i.bmesh {
        b = b.add_blend_mesh_headers(h.clone()).add_blend_mesh_bounds(bb.clone()).add_blend_mesh_vertices(v.clone()).add_blend_mesh_indices(ix.clone());
    }
    b
}

// ------------------------------------------------------------------------------------------
// content projections (the same function is applied to the builder inputs and to parsed tiles);
// offsets / sizes that only describe the layout are projected away
// ------------------------------------------------------------------------------------------
/// MH2O content, four projections folded over chunks and layers (layout offsets projected away):
/// "wins" instance header fields, "wbm" exists bitmaps, "wvd" vertex data, "wattr" attributes.
fn proj_mh2o(w: &Option<Mh2oChunk>) -> [String; 4] {
    match w {
        None => ["None".into(), "None".into(), "None".into(), "None".into()],
        Some(ch) => {
            let mut o = [String::new(), String::new(), String::new(), String::new()];
            for (i, e) in ch.entries.iter().enumerate() {
                if e.instances.is_empty() && e.attributes.is_none() {
                    continue;
                }
                let inst: Vec<_> = e
                    .instances
                    .iter()
                    .map(|x| (x.liquid_type, x.liquid_object_or_lvf, x.min_height_level, x.max_height_level, x.x_offset, x.y_offset, x.width, x.height))
                    .collect();
                o[0].push_str(&format!("[{i}:{:?}]", inst));
                o[1].push_str(&format!("[{i}:{:?}]", e.exists_bitmaps));
                o[2].push_str(&format!("[{i}:{:?}]", e.vertex_data));
                o[3].push_str(&format!("[{i}:{:?}]", e.attributes));
            }
            o[0].push_str(&format!("|n={}", ch.entries.len()));
            o
        }
    }
}
fn proj_hdr(h: &McnkHeader) -> String {
    format!(
        "{:?}",
        (h.flags.value, h.index_x, h.index_y, h.n_doodad_refs, h.n_map_obj_refs, h.area_id, h.holes_low_res, h.unknown_but_used, h.pred_tex, h.no_effect_doodad, h.unknown_8bytes, h.position)
    )
}

#[allow(clippy::too_many_arguments)]
fn sections(
    textures: &[String],
    models: &[String],
    wmos: &[String],
    ddf: &[DoodadPlacement],
    modf: &[WmoPlacement],
    mcnks: &[McnkChunk],
    mfbo: &Option<MfboChunk>,
    mh2o: &Option<Mh2oChunk>,
    mtxf: &Option<MtxfChunk>,
    mamp: &Option<MampChunk>,
    mtxp: &Option<MtxpChunk>,
    bmesh: &(Option<MbmhChunk>, Option<MbbbChunk>, Option<MbnvChunk>, Option<MbmiChunk>),
) -> BTreeMap<&'static str, String> {
    let mut m = BTreeMap::new();
    m.insert("tex", dtok(&textures));
    m.insert("mdl", dtok(&models));
    m.insert("wmo", dtok(&wmos));
    m.insert("ddf", dtok(&ddf));
    m.insert("modf", dtok(&modf));
    // the name every placement resolves to through its name_id (index into the name list)
    let res = |names: &[String], id: u32| names.get(id as usize).cloned().unwrap_or_else(|| format!("<index {id} out of range>"));
    m.insert("ddfn", dtok(&ddf.iter().map(|p| res(models, p.name_id)).collect::<Vec<_>>()));
    m.insert("modfn", dtok(&modf.iter().map(|p| res(wmos, p.name_id)).collect::<Vec<_>>()));
    m.insert("mfbo", dtok(mfbo));
    let pw = proj_mh2o(mh2o);
    m.insert("wins", tok(pw[0].as_bytes()));
    m.insert("wbm", tok(pw[1].as_bytes()));
    m.insert("wvd", tok(pw[2].as_bytes()));
    m.insert("wattr", tok(pw[3].as_bytes()));
    m.insert("mtxf", dtok(mtxf));
    m.insert("mamp", dtok(mamp));
    m.insert("mtxp", dtok(mtxp));
    m.insert("bmesh", dtok(bmesh));
    m.insert("khdr", tok(mcnks.iter().map(|k| proj_hdr(&k.header)).collect::<Vec<_>>().join(";").as_bytes()));
    m.insert("mcvt", dtok(&mcnks.iter().map(|k| &k.heights).collect::<Vec<_>>()));
    m.insert("mcnr", dtok(&mcnks.iter().map(|k| &k.normals).collect::<Vec<_>>()));
    m.insert("mcly", dtok(&mcnks.iter().map(|k| &k.layers).collect::<Vec<_>>()));
    m.insert("mcrf", dtok(&mcnks.iter().map(|k| &k.refs).collect::<Vec<_>>()));
    m.insert("mcal", dtok(&mcnks.iter().map(|k| &k.alpha).collect::<Vec<_>>()));
    m.insert("mcsh", dtok(&mcnks.iter().map(|k| &k.shadow).collect::<Vec<_>>()));
    m.insert("mccv", dtok(&mcnks.iter().map(|k| &k.vertex_colors).collect::<Vec<_>>()));
    m.insert("mclq", dtok(&mcnks.iter().map(|k| &k.liquid).collect::<Vec<_>>()));
    m.insert("mcse", dtok(&mcnks.iter().map(|k| &k.sound_emitters).collect::<Vec<_>>()));
    m.insert("mclv", dtok(&mcnks.iter().map(|k| &k.vertex_lighting).collect::<Vec<_>>()));
    // sub-chunks no builder input of this driver ever sets (MCRD, MCRW, MCMT, MCDD, MCBB)
    m.insert(
        "xsub",
        dtok(&mcnks.iter().map(|k| (&k.doodad_refs, &k.wmo_refs, &k.materials, &k.doodad_disable, &k.blend_batches)).collect::<Vec<_>>()),
    );
    m
}

fn sec_inputs(i: &Inputs) -> BTreeMap<&'static str, String> {
    let bm = match &i.bmesh {
        Some((a, b, c, d)) => (Some(a.clone()), Some(b.clone()), Some(c.clone()), Some(d.clone())),
        None => (None, None, None, None),
    };
    let mut m = sections(&i.textures, &i.models, &i.wmos, &i.ddf, &i.modf, &i.mcnks, &i.mfbo, &i.mh2o, &i.mtxf, &i.mamp, &i.mtxp, &bm);
    // token of the MTXF the serializer documents it writes when none was supplied (WotLK+):
    // one zero flag word per texture.  Which of the two applies is decided by the specification.
    m.insert("mtxf0", dtok(&Some(MtxfChunk { flags: vec![0; i.textures.len()] })));
    // token of an absent optional section (Debug of Option::None), for the specification's version rules
    m.insert("none", dtok(&None::<MtxfChunk>));
    m
}

fn sec_parsed(r: &RootAdt) -> BTreeMap<&'static str, String> {
    let bm = (r.blend_mesh_headers.clone(), r.blend_mesh_bounds.clone(), r.blend_mesh_vertices.clone(), r.blend_mesh_indices.clone());
    let mut m = sections(
        &r.textures,
        &r.models,
        &r.wmos,
        &r.doodad_placements,
        &r.wmo_placements,
        &r.mcnk_chunks,
        &r.flight_bounds,
        &r.water_data,
        &r.texture_flags,
        &r.texture_amplifier,
        &r.texture_params,
        &bm,
    );
    m.insert("mtxf0", "-".into());
    m.insert("none", "-".into());
    m
}

fn sec_json(m: &BTreeMap<&'static str, String>) -> Value {
    Value::Object(m.iter().map(|(k, v)| (k.to_string(), Value::String(v.clone()))).collect())
}
fn sec_empty() -> Value {
    let keys = [
        "tex", "mdl", "wmo", "ddf", "modf", "ddfn", "modfn", "mfbo", "wins", "wbm", "wvd", "wattr", "mtxf", "mamp", "mtxp", "bmesh", "khdr", "mcvt", "mcnr", "mcly", "mcrf", "mcal",
        "mcsh", "mccv", "mclq", "mcse", "mclv", "xsub", "mtxf0", "none",
    ];
    Value::Object(keys.iter().map(|k| (k.to_string(), Value::String("-".into()))).collect())
}

// ------------------------------------------------------------------------------------------
// the independent walker
// ------------------------------------------------------------------------------------------
fn u32at(b: &[u8], p: usize) -> Option<u32> {
    b.get(p..p + 4).map(|s| u32::from_le_bytes([s[0], s[1], s[2], s[3]]))
}
fn tag_at(b: &[u8], p: usize) -> Option<String> {
    b.get(p..p + 4).map(|s| {
        let t = [s[3], s[2], s[1], s[0]];
        if t.iter().all(|c| c.is_ascii_uppercase() || c.is_ascii_digit()) {
            String::from_utf8_lossy(&t).into_owned()
        } else {
            format!("#{:02x}{:02x}{:02x}{:02x}", t[0], t[1], t[2], t[3])
        }
    })
}
/// chunks in [from, to): (tag, offset of header, size); stops (keeping the offending record) when a
/// chunk leaves the range, so the specification sees the break.
fn walk(b: &[u8], from: usize, to: usize, cap: usize) -> Vec<(String, usize, usize)> {
    let mut v = Vec::new();
    let mut p = from;
    while p + 8 <= to && v.len() < cap {
        let (t, s) = (tag_at(b, p).unwrap(), u32at(b, p + 4).unwrap() as usize);
        v.push((t, p, s));
        if s > to {
            break;
        }
        p += 8 + s;
    }
    v
}
fn clamp(v: usize) -> i64 {
    (v as u64).min(0x3fff_0000) as i64 // offset + 8 + size must stay below 2^31 in TLC
}

fn file_event(case: &str, round: usize, res: &str, bytes: Option<&[u8]>, lay: &Value) -> Value {
    let hdr = gi(lay, "mcnk_hdr") as usize;
    let flds = ga(lay, "mcnk_fields");
    let mhdr_names = ga(lay, "mhdr_fields");
    let b = bytes.unwrap_or(&[]);
    let top = walk(b, 0, b.len(), 600);
    // MHDR: first chunk with that tag; fields are consecutive u32 starting at the payload
    let mut mhdr = Map::new();
    let mut mhdr_data: i64 = -1;
    if let Some((_, off, size)) = top.iter().find(|c| c.0 == "MHDR") {
        mhdr_data = clamp(off + 8);
        for (j, n) in mhdr_names.iter().enumerate() {
            let v = if 4 * (j + 1) <= *size { u32at(b, off + 8 + 4 * j).unwrap_or(0) } else { 0 };
            mhdr.insert(n.as_str().unwrap().to_string(), json!(clamp(v as usize)));
        }
    } else {
        for n in mhdr_names {
            mhdr.insert(n.as_str().unwrap().to_string(), json!(0));
        }
    }
    let mut mcin = Vec::new();
    if let Some((_, off, size)) = top.iter().find(|c| c.0 == "MCIN") {
        for j in 0..(size / 16).min(256) {
            let o = u32at(b, off + 8 + 16 * j).unwrap_or(0);
            let s = u32at(b, off + 8 + 16 * j + 4).unwrap_or(0);
            mcin.push(json!([clamp(o as usize), clamp(s as usize)]));
        }
    }
    // name tables: start offset of every NUL-terminated name inside MMDX / MWMO and the u32 entries of MMID / MWID
    let starts = |tag: &str| -> Vec<Value> {
        let mut v = Vec::new();
        if let Some((_, off, size)) = top.iter().find(|c| c.0 == tag) {
            let pl = b.get(off + 8..(off + 8 + size).min(b.len())).unwrap_or(&[]);
            let mut at_start = true;
            for (i, ch) in pl.iter().enumerate() {
                if at_start && *ch != 0 {
                    v.push(json!(clamp(i)));
                }
                at_start = *ch == 0;
            }
        }
        v
    };
    let words = |tag: &str| -> Vec<Value> {
        let mut v = Vec::new();
        if let Some((_, off, size)) = top.iter().find(|c| c.0 == tag) {
            for j in 0..(size / 4).min(4096) {
                v.push(json!(clamp(u32at(b, off + 8 + 4 * j).unwrap_or(0) as usize)));
            }
        }
        v
    };
    let names_tab = json!({"mmdx": starts("MMDX"), "mmid": words("MMID"), "mwmo": starts("MWMO"), "mwid": words("MWID")});
    // MCNK containers: sub-chunk list relative to the MCNK header + the ofs_* fields of the fixed header
    let mut groups: Vec<(String, Value, Vec<usize>)> = Vec::new();
    let mut idx = 0usize;
    for (t, off, size) in &top {
        if t != "MCNK" {
            continue;
        }
        idx += 1;
        let end = (off + 8 + size).min(b.len());
        let subs: Vec<Value> = if *size >= hdr { walk(b, off + 8 + hdr, end, 64).into_iter().map(|(t, o, s)| json!([t, clamp(o - off), clamp(s)])).collect() } else { vec![] };
        let mut f = Map::new();
        for fd in flds {
            let name = fd[0].as_str().unwrap();
            let pos = fd[1].as_u64().unwrap() as usize;
            let v = if pos + 4 <= *size { u32at(b, off + 8 + pos).unwrap_or(0) } else { 0 };
            f.insert(name.to_string(), json!(clamp(v as usize)));
        }
        let body = json!({"size": clamp(*size), "subs": subs, "f": f});
        let key = body.to_string();
        match groups.iter_mut().find(|g| g.0 == key) {
            Some(g) => g.2.push(idx),
            None => groups.push((key, body, vec![idx])),
        }
    }
    let groups: Vec<Value> = groups
        .into_iter()
        .map(|(_, mut body, idxs)| {
            body.as_object_mut().unwrap().insert("idxs".into(), json!(idxs));
            body
        })
        .collect();
    json!({"ev":"File","case":case,"round":round,"res":res,"len":clamp(b.len()),"tok":tok(b),
           "top": top.iter().map(|(t,o,s)| json!([t, clamp(*o), clamp(*s)])).collect::<Vec<_>>(),
           "mhdrData": mhdr_data, "mhdr": mhdr, "mcin": mcin, "groups": groups, "names": names_tab})
}

fn out_res<T, E: std::fmt::Debug>(o: &Outcome<Result<T, E>>) -> String {
    match o {
        Outcome::Done(r) => res_class(r),
        Outcome::Panic(_) => "panic".into(),
        Outcome::Hang => "hang".into(),
    }
}
fn panic_msg<T>(o: &Outcome<T>) -> String {
    match o {
        Outcome::Panic(m) => m.clone(),
        _ => String::new(),
    }
}

fn parse_event(case: &str, round: usize, bytes: &[u8]) -> (Value, Option<RootAdt>) {
    let o = guarded(|| parse_adt(&mut Cursor::new(bytes)));
    let res = out_res(&o);
    let msg = match &o {
        Outcome::Done(Err(e)) => normalise_digits(&format!("{e:?}")),
        x => panic_msg(x),
    };
    match o {
        Outcome::Done(Ok(ParsedAdt::Root(root))) => {
            let ev = json!({"ev":"Parse","case":case,"round":round,"res":"ok","kind":"root","ver":ver_idx(root.version),
                "nmcnk":root.mcnk_chunks.len(),"sec":sec_json(&sec_parsed(&root)),"msg":""});
            (ev, Some(*root))
        }
        Outcome::Done(Ok(other)) => (
            json!({"ev":"Parse","case":case,"round":round,"res":"ok","kind":format!("{:?}", other.file_type()),"ver":ver_idx(other.version()),
                "nmcnk":0,"sec":sec_empty(),"msg":""}),
            None,
        ),
        _ => (json!({"ev":"Parse","case":case,"round":round,"res":res,"kind":"-","ver":-1,"nmcnk":0,"sec":sec_empty(),"msg":msg}), None),
    }
}

fn run_case(ci: usize, c: &Value) -> Vec<Value> {
    let case = format!("{ci}");
    let lay = c.get("lay").unwrap_or_else(|| tool_error("case without lay"));
    let mut evs = Vec::new();
    let mut reset = c.as_object().unwrap().clone();
    reset.remove("lay");
    reset.insert("ev".into(), json!("Reset"));
    reset.insert("case".into(), json!(case));
    evs.push(Value::Object(reset));

    let o = guarded(|| {
        let inp = make_inputs(c, &case);
        let sec = sec_inputs(&inp);
        (builder_from(&inp).build(), sec)
    });
    let (built, sec): (Option<BuiltAdt>, Value) = match o {
        Outcome::Done((Ok(b), sec)) => {
            evs.push(json!({"ev":"Build","case":case,"res":"ok","inp":sec_json(&sec),"msg":""}));
            (Some(b), sec_json(&sec))
        }
        Outcome::Done((Err(e), sec)) => {
            evs.push(json!({"ev":"Build","case":case,"res":format!("err:{}", variant_name(&e)),"inp":sec_json(&sec),"msg":normalise_digits(&format!("{e:?}"))}));
            (None, sec_json(&sec))
        }
        other => {
            evs.push(json!({"ev":"Build","case":case,"res":"panic","inp":sec_empty(),"msg":panic_msg(&other)}));
            (None, Value::Null)
        }
    };
    let _ = sec;
    let mut cur = match built {
        Some(b) => b,
        None => return evs,
    };
    for round in 0..=ROUNDS {
        let o = guarded(|| cur.to_bytes());
        let res = out_res(&o);
        let bytes = match o {
            Outcome::Done(Ok(b)) => b,
            _ => {
                evs.push(file_event(&case, round, &res, None, lay));
                return evs;
            }
        };
        evs.push(file_event(&case, round, "ok", Some(&bytes), lay));
        if round == 0 {
            // BuiltAdt::write_to_file (the only public byte producer besides to_bytes) onto a path that is
            // absent / holds a shorter file / holds a longer file; the resulting FILE contents are logged
            let sc = Scratch::new(&format!("c14w{ci}"));
            for pre in ["absent", "shorter", "longer"] {
                let path = sc.file(&format!("tile_{pre}.adt"));
                match pre {
                    "shorter" => std::fs::write(&path, vec![0xA5u8; (bytes.len() / 3).max(1)]).unwrap_or_else(|e| tool_error(&format!("prestate: {e}"))),
                    "longer" => {
                        let mut fill = Rng::derive(seed(), &format!("{case}:fill")).bytes(bytes.len() + 1000 + bytes.len() / 2);
                        fill.iter_mut().for_each(|x| *x |= 1);
                        std::fs::write(&path, fill).unwrap_or_else(|e| tool_error(&format!("prestate: {e}")))
                    }
                    _ => {}
                }
                let o = guarded(|| cur.write_to_file(&path));
                let res = out_res(&o);
                let content = std::fs::read(&path).unwrap_or_default();
                let top = walk(&content, 0, content.len(), 600);
                evs.push(json!({"ev":"Write","case":case,"round":round,"api":"write_to_file","pre":pre,"res":res,
                    "len":clamp(content.len()),"tok":tok(&content),
                    "top": top.iter().map(|(t,o,s)| json!([t, clamp(*o), clamp(*s)])).collect::<Vec<_>>()}));
            }
        }
        let (pev, root) = parse_event(&case, round, &bytes);
        evs.push(pev);
        let root = match root {
            Some(r) => r,
            None => return evs,
        };
        if round == 0 {
            // round 5: load - EDIT - save. A parsed tile (its in-memory headers still carry the offsets / flags of the file it came
            // from) has one kind of optional MCNK sub-chunk removed from every chunk, is rebuilt through the case's route and
            // parsed again: the content must be the edited content (nothing of the removed sub-chunk may come back).
            for kind in ["mclv", "mccv", "mcsh"] {
                let mut ed = root.clone();
                let mut had = false;
                for k in ed.mcnk_chunks.iter_mut() {
                    match kind {
                        "mclv" => { had |= k.vertex_lighting.is_some(); k.vertex_lighting = None; }
                        "mccv" => { had |= k.vertex_colors.is_some(); k.vertex_colors = None; }
                        _ => { had |= k.shadow.is_some(); k.shadow = None; }
                    }
                }
                if !had {
                    continue;
                }
                let pre = sec_json(&sec_parsed(&ed));
                let route = gs(c, "route");
                let o = guarded(|| {
                    let b = match route {
                        "root" => BuiltAdt::from_root_adt(ed, None),
                        _ => match AdtBuilder::from_parsed(ed).build() { Ok(b) => b, Err(e) => return Err(format!("err:{}", variant_name(&e))) },
                    };
                    let bytes = b.to_bytes().map_err(|e| format!("err:{}", variant_name(&e)))?;
                    match parse_adt(&mut Cursor::new(&bytes)) {
                        Ok(ParsedAdt::Root(r2)) => Ok(sec_json(&sec_parsed(&r2))),
                        Ok(_) => Err("kind".to_string()),
                        Err(e) => Err(format!("parse-err:{}", variant_name(&e))),
                    }
                });
                let (res, post) = match o {
                    Outcome::Done(Ok(p)) => ("ok".to_string(), p),
                    Outcome::Done(Err(e)) => (e, sec_empty()),
                    _ => ("panic".to_string(), sec_empty()),
                };
                evs.push(json!({"ev":"Edit","case":case,"round":round,"drop":kind,"res":res,"pre":pre,"post":post}));
            }
        }
        if round == ROUNDS {
            break;
        }
        // the public load-modify-save routes: BuiltAdt::from_root_adt(root, None) | AdtBuilder::from_parsed(root).build()
        let route = gs(c, "route");
        let o = guarded(|| match route {
            "root" => Ok(BuiltAdt::from_root_adt(root, None)),
            "builder" => AdtBuilder::from_parsed(root).build(),
            o => tool_error(&format!("unknown route {o}")),
        });
        match o {
            Outcome::Done(Ok(b)) => {
                evs.push(json!({"ev":"Rebuild","case":case,"round":round + 1,"route":route,"res":"ok","ver":ver_idx(b.version()),"msg":""}));
                cur = b;
            }
            Outcome::Done(Err(e)) => {
                evs.push(json!({"ev":"Rebuild","case":case,"round":round + 1,"route":route,"res":format!("err:{}", variant_name(&e)),"ver":-1,
                    "msg":normalise_digits(&format!("{e:?}"))}));
                return evs;
            }
            other => {
                evs.push(json!({"ev":"Rebuild","case":case,"round":round + 1,"route":route,"res":"panic","ver":-1,"msg":panic_msg(&other)}));
                return evs;
            }
        }
    }
    evs
}

fn main() {
    let a = args();
    install_quiet_panic_hook();
    let cases = read_cases(&a.cases);
    let trace = Trace::create(&a.trace);
    // cases are independent; keep the trace in case order (deterministic file)
    let slots: Vec<std::sync::Mutex<Vec<Value>>> = (0..cases.len()).map(|_| std::sync::Mutex::new(Vec::new())).collect();
    // guarded() shares one panic-message slot: run sequentially when a message matters; the
    // messages are diagnostic only (never part of a verdict), so parallel execution is acceptable.
    par_for(cases.len(), ncpu().min(8), |i| {
        let evs = run_case(i, &cases[i]);
        *slots[i].lock().unwrap() = evs;
    });
    for s in slots {
        trace.block(s.into_inner().unwrap());
    }
    trace.flush();
}
