// The optional verification hook `MutableArchive::verif_state()` (fixes/C06-hook.patch) is used when
// the tree under test has it; the driver works without it (the `st` field of events then says has=false).
fn main() {
    let p = "/repo/file-formats/archives/wow-mpq/src/modification.rs";
    println!("cargo:rerun-if-changed={p}");
    println!("cargo:rustc-check-cfg=cfg(has_c06_hook)");
    if std::fs::read_to_string(p).map(|s| s.contains("pub fn verif_state")).unwrap_or(false) {
        println!("cargo:rustc-cfg=has_c06_hook");
    }
}
