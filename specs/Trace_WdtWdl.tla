---------------------------- MODULE Trace_WdtWdl ----------------------------
(* Stage (D) for C18: the events recorded from the real wow-wdt / wow-wdl code are validated       *)
(* against WdtWdl.tla.  P-conjuncts (verdict, reported as BAD):                                    *)
(*   Write    the writer accepts every definition that is valid for its version                    *)
(*   Chunks   the produced bytes are a chunk sequence (cursor machine of ChunkFile)                *)
(*   WalkEnd  ... that ends exactly at the end of the file                                         *)
(*   Maof     WDL: 4096 entries; exactly the tiles of the definition are non-zero; entry y*64+x is *)
(*            the header offset of a MARE chunk whose payload is the height map of tile (x,y)      *)
(*   Parse    per-section content tokens equal the tokens of the object that was written           *)
(*   Rewrite  the second write is byte-identical                                                   *)
(*   Convert  tile data (MAIN / height maps, holes where both versions have them) preserved, in     *)
(*            memory and after writing + parsing at the target version                             *)
(*   Coord    |3*world - exact| <= 0.03 yd and world_to_tile(tile_to_world(t)) = t                  *)
(* D-conjuncts (DRIFT only): chunk order / sizes / file size against the layout model, detected     *)
(* version against DetectVersion / DetectWdl, chunk presence and flags after convert_wdt against    *)
(* ConvertWdt, validate() against WdtValid.                                                        *)
EXTENDS WdtWdl, Json, IOUtils, TLCExt

Rec == ndJsonDeserialize(IOEnv.TRACE)
VARIABLES tl, tdef, tsrc, twr, tcf
tvars == <<tl, tdef, tsrc, twr, tcf>>


SeqToSet(tseq) == {tseq[ti] : ti \in 1..Len(tseq)}
TilesOf(tseq) == {<<tseq[ti][1], tseq[ti][2]>> : ti \in 1..Len(tseq)}
DefOf(e) ==
    IF e.fmt = "wdt"
    THEN [fmt |-> "wdt", ver |-> e.ver, flags |-> SeqToSet(e.flags), hasMwmo |-> e.hasMwmo, names |-> e.names,
          hasModf |-> e.hasModf, nModf |-> e.nModf, hasMaid |-> e.hasMaid, nSec |-> e.nSec, tiles |-> TilesOf(e.tiles), mode |-> e.mode]
    ELSE IF e.fmt = "wdl"
    THEN [fmt |-> "wdl", ver |-> e.ver, tiles |-> TilesOf(e.tiles), holes |-> TilesOf(e.holes), names |-> e.names,
          nIdx |-> e.nIdx, nPlace |-> e.nPlace, nMldd |-> e.nMldd, nMlmd |-> e.nMlmd, mode |-> e.mode]
    ELSE [fmt |-> e.fmt, mode |-> e.mode]

Wdt == tdef.fmt = "wdt"
Specs == IF Wdt THEN WdtChunkSpecs(tdef) ELSE WdlChunkSpecs(tdef)
Sections == IF Wdt THEN WdtContentSections ELSE WdlSections(tdef.ver)
TokEq(ta, tb, tsecs) == \A ts \in tsecs : ta[ts] = tb[ts]

\* ---- P-conjuncts: <<holds, why>> ------------------------------------------------------------------
WriteP(e)   == <<e.res = "ok", "write-rejected">>
ChunksP(e)  == <<CF_FitsAll(tcf, e.cs), "framing">>
WalkEndP(e) == <<CF_Done(tcf) /\ e.cur = tcf.cur /\ e.len = Head(tcf.lim), "framing-end">>
MaofP(e) ==
    LET tsrcT == tsrc.tiles IN
    <<  /\ e.size = GridN * GridN
        /\ Len(e.ents) = Len(tsrcT)
        /\ \A ti \in 1..Len(e.ents) :
             LET tent == e.ents[ti]  ttile == tsrcT[ti] IN
             /\ tent[1] = TileIdx(ttile[1], ttile[2])                 \* entry index = y*64+x of the ti-th tile
             /\ CF_IsAt(tcf.seen, tent[3], tent[2], "MARE")           \* it is the header offset of a MARE chunk
             /\ tcf.seen[tent[3]].size = MARE_SIZE
             /\ tcf.seen[tent[3]].tok = ttile[3],                     \* ... carrying this tile's heights
       "maof">>
ParseP(e) == IF e.res # "ok" THEN <<FALSE, "parse-failed">>
             ELSE <<TokEq(e.toks, tsrc.toks, Sections), "content">>
RewriteP(e) == <<e.res = "ok" /\ e.tok = twr.tok /\ e.len = twr.len, "rewrite-differs">>
ConvertP(e) ==
    IF Wdt
    THEN << /\ e.res = "ok" /\ e.toks.main = tsrc.toks.main
            /\ e.wres = "ok" /\ e.ptoks.main = tsrc.toks.main, "convert-tiles">>
    ELSE IF e.res # "ok" THEN <<ConvertWdlRefuses(tdef, e.to), "convert-failed">>
    ELSE << /\ e.toks.tiles = tsrc.toks.tiles
            /\ (HolesPreserved(tdef.ver, e.to) => e.toks.holes = tsrc.toks.holes)
            /\ e.wres = "ok" /\ e.ptoks.tiles = tsrc.toks.tiles
            /\ (HolesPreserved(tdef.ver, e.to) => e.ptoks.holes = tsrc.toks.holes), "convert-tiles">>
CoordP(e) ==
    IF e.res # "ok" THEN <<FALSE, "coord-panic">>
    ELSE LET tw == TileToWorld3(e.tx, e.ty) IN
         IF ~(FwdOk(e.wxm, tw[1]) /\ FwdOk(e.wym, tw[2])) THEN <<FALSE, "coord-forward">>
         ELSE <<(<<e.bx, e.by>> = <<e.tx, e.ty>>) /\ WorldToTile3(tw[1], tw[2]) = <<e.tx, e.ty>>, "coord-inverse">>

PofEvent(e) == CASE e.ev = "Write"   -> WriteP(e)
                 [] e.ev = "Chunks"  -> ChunksP(e)
                 [] e.ev = "WalkEnd" -> WalkEndP(e)
                 [] e.ev = "Maof"    -> MaofP(e)
                 [] e.ev = "Parse"   -> ParseP(e)
                 [] e.ev = "Rewrite" -> RewriteP(e)
                 [] e.ev = "Convert" -> ConvertP(e)
                 [] e.ev = "Coord"   -> CoordP(e)
                 [] e.ev \in {"Reset", "Source"} -> <<TRUE, "">>
                 [] OTHER -> Assert(FALSE, <<"unknown event", e.ev>>)

\* tags that decide version detection, without laying out the whole file
WdlTagsPresent(td) == LET th == WdlHeadSpecs(td) IN
                      [ti \in 1..Len(th) |-> th[ti][1]] \o (IF \E tt \in td.tiles : MahoWritten(td, tt) THEN <<"MAHO">> ELSE <<>>)

\* ---- D-conjuncts: <<holds, what>> ----------------------------------------------------------------
DofEvent(e) ==
    CASE e.ev = "Source"  -> <<~Wdt \/ ((e.warnings = 0) <=> WdtValid(tdef)), "validate-vs-WdtValid">>
      [] e.ev = "Write"   -> <<e.res # "ok" \/ e.len = CF_TotalSize(Specs), "file-size">>
      [] e.ev = "WalkEnd" -> LET tspecs == Specs  tseen == tcf.seen IN
                             <<[ti \in 1..Len(tseen) |-> <<tseen[ti].tag, tseen[ti].size>>] = tspecs, "chunk-order-or-size">>
      [] e.ev = "Parse"   -> <<e.res # "ok" \/ e.det = (IF Wdt THEN DetectVersion(tdef.hasMaid, MwmoWritten(tdef), tdef.hasModf, tdef.flags, tdef.ver)
                                                      ELSE DetectWdl(WdlTagsPresent(tdef), IF tdef.mode = "latest" THEN "Latest" ELSE tdef.ver)),
                               "detected-version">>
      [] e.ev = "Convert" -> IF Wdt /\ e.res = "ok"
                             THEN LET tc == ConvertWdt(tdef, tdef.ver, e.to) IN
                                  <<e.hm = tc.hasMaid /\ e.hw = tc.hasMwmo /\ e.hd = tc.hasModf /\ e.fl = FlagBits(tc.flags), "convert-model">>
                             ELSE <<TRUE, "">>
      [] OTHER -> <<TRUE, "">>

\* ---- state ---------------------------------------------------------------------------------------
NoDef == [fmt |-> "-", mode |-> "-"]
Init == /\ tl = 1 /\ tdef = NoDef /\ tsrc = 0 /\ twr = 0 /\ tcf = CF_Init(0, 0)
        /\ vfmt = "trace" /\ vdef = 0 /\ vpc = "" /\ vcf = 0 /\ vrd = 0 /\ vrpos = 0 /\ vmaof = 0

Step(e) ==
    /\ tdef' = IF e.ev = "Reset" THEN DefOf(e) ELSE tdef
    /\ tsrc' = IF e.ev = "Reset" THEN 0 ELSE IF e.ev = "Source" THEN [toks |-> e.toks, tiles |-> e.tiles] ELSE tsrc
    /\ twr'  = IF e.ev = "Reset" THEN 0 ELSE IF e.ev = "Write" THEN [len |-> e.len, tok |-> e.tok] ELSE twr
    /\ tcf'  = IF e.ev = "Reset" THEN CF_Init(0, 0)
               ELSE IF e.ev = "Write" THEN CF_Init(0, e.len)
               ELSE IF e.ev = "Chunks" /\ CF_FitsAll(tcf, e.cs) THEN CF_WalkAll(tcf, e.cs)
               ELSE tcf

Next == /\ tl <= Len(Rec)
        /\ tl' = tl + 1
        /\ LET e == Rec[tl]  tp == PofEvent(e)  td == DofEvent(e) IN
           /\ IF tp[1] THEN TRUE ELSE PrintT(<<"BAD", tl, tp[2]>>)
           /\ IF td[1] THEN TRUE ELSE PrintT(<<"DRIFT", tl, td[2]>>)
           /\ Step(e)
        /\ UNCHANGED mvars

Accepted == LET d == TLCGet("stats").diameter IN
            IF d - 1 = Len(Rec) THEN PrintT(<<"CONSUMED", Len(Rec)>>) ELSE Print(<<"TRACE_STUCK_AT", d>>, FALSE)
=============================================================================
