--------------------------- MODULE Trace_BlpLayout ---------------------------
(* Stage (D) for C16.  P-conjuncts (BAD):                                                          *)
(*   Convert  accepted; the structure holds MipCount(w,h,mips) levels (chain down to 1x1) whose     *)
(*            byte sizes are LevelBytes(enc, alpha, Dim(i)) for the non-JPEG encodings              *)
(*   Encode   accepted; BLP0: one external file per level with those sizes                          *)
(*   Header   width / height as given; exactly the first MipCount locator sizes are non-zero and     *)
(*            equal LevelBytes; every range starts behind header + palette / JPEG header, ends inside *)
(*            the file, and ranges are pairwise disjoint                                            *)
(*   Parse    accepted; structure token equals the token of the encoded structure                   *)
(*   Levels   every parsed level decodes to Dim(i) (for JPEG: the dimensions in the JPEG stream)     *)
(*   AlphaLevels  palettised, alpha depth 1/4/8: alpha plane of every level (level 0 exact, the        *)
(*            scaled-down levels within a resampling-tolerant band of the scaled source alpha)        *)
(*   File     save_blp over a destination that was absent / held a shorter / a longer earlier save      *)
(*            leaves exactly the encoded bytes (main file and BLP0 external level files); load_blp     *)
(*            returns the encoded structure                                                          *)
(*   Decode   raw BGRA: decoded level 0 = source pixels; palettised: every colour is a palette      *)
(*            entry and every (source alpha, decoded alpha) pair satisfies QuantOk(bits)            *)
(* D-conjuncts (DRIFT): levels laid out back to back from DataStart, file ends after the last one,   *)
(* has_mipmaps flag, exact 4-bit rounding.                                                         *)
EXTENDS BlpLayout, Json, IOUtils, TLCExt

Rec == ndJsonDeserialize(IOEnv.TRACE)
VARIABLES tl, tcase, tconv, tenc
tvars == <<tl, tcase, tconv, tenc>>

N      == MipCount(tcase.w, tcase.h, tcase.mips)
Expect == LevelSizes(tcase.enc, tcase.alpha, tcase.w, tcase.h, tcase.mips)
Opaque == tcase.enc = "jpeg"
SizesOk(tlens) == Opaque \/ tlens = Expect
Prefix(tseq, tn) == SubSeq(tseq, 1, tn)
NonZeroCount(tseq) == Cardinality({ti \in 1..Len(tseq) : tseq[ti] # 0})

ConvertP(e) == IF e.res # "ok" THEN <<FALSE, "convert-rejected">>
               ELSE IF e.nimg # N THEN <<FALSE, "mip-chain">>
               ELSE <<SizesOk(e.lens), "level-size">>
EncodeP(e) == IF e.res # "ok" THEN <<FALSE, "encode-rejected">>
              ELSE IF tcase.ver # "Blp0" THEN <<e.ext = <<>>, "unexpected-external">>
              ELSE IF Len(e.ext) # N THEN <<FALSE, "mip-chain">>
              ELSE <<SizesOk(e.ext), "level-size">>
HeaderP(e) == IF e.w # tcase.w \/ e.h # tcase.h THEN <<FALSE, "header-dims">>
              ELSE IF tcase.ver = "Blp0" THEN <<TRUE, "">>
              ELSE LET tk == NonZeroCount(e.sizes) IN
                   \* the ranges that ARE stored must be sound whatever their number
                   IF ~(\A ti \in 1..16 : (e.sizes[ti] # 0) <=> (ti <= tk)) THEN <<FALSE, "locator-gap">>
                   ELSE IF ~(/\ InFile(Prefix(e.offs, tk), Prefix(e.sizes, tk), IF e.jh < 0 THEN HeaderSize(tcase.ver) ELSE DataStart(tcase.ver, tcase.enc, e.jh + 2), tenc.len)
                             /\ Disjoint(Prefix(e.offs, tk), Prefix(e.sizes, tk))) THEN <<FALSE, "range">>
                   ELSE IF tk # N THEN <<FALSE, "mip-chain">>
                   ELSE <<SizesOk(Prefix(e.sizes, N)), "level-size">>
ParseP(e) == IF e.res # "ok" THEN <<FALSE, "parse-failed">> ELSE <<e.stok = tconv.stok, "structure">>
DecodeP(e) == IF e.res # "ok" THEN <<FALSE, "decode-failed">>
              ELSE IF e.dw # tcase.w \/ e.dh # tcase.h THEN <<FALSE, "decode-dims">>
              ELSE IF tcase.enc = "raw3" THEN <<e.l0tok = e.srctok, "raw-pixels">>
              ELSE IF e.palBad # 0 THEN <<FALSE, "colour-not-in-palette">>
              ELSE <<\A ti \in 1..Len(e.pairs) : QuantOk(tcase.alpha, e.pairs[ti][1], e.pairs[ti][2]), "alpha-quant">>

\* every parsed level decodes, and to the dimensions of the chain (JPEG: the dimensions inside the stream)
LevelsP(e) == IF e.res # "ok" THEN <<FALSE, "level-decode-failed">>
              ELSE <<e.dims = Chain(tcase.w, tcase.h, tcase.mips), "level-dims">>

\* palettised encodings: the alpha plane of EVERY level.  Level 0 is exact (QuantOk on every pair, also in
\* Decode).  For the scaled-down levels the expected alpha comes from scaling the source the documented way;
\* the verdict is tolerant of the resampling details: decoded alpha stays inside the (quantisation-widened)
\* range of the expected alpha and its mean is close (depth 4 / 8); at depth 1 it is 0 / 255, all 0 where the
\* expected plane is all 0, and mostly opaque where the expected plane is almost nowhere 0.
AbsLe(ta, tb, tt) == ta - tb <= tt /\ tb - ta <= tt
AlphaLevelOk(tlv) ==
    /\ tlv.res = "ok"
    /\ IF tlv.lvl = 0 THEN \A ti \in 1..Len(tlv.pairs) : QuantOk(tcase.alpha, tlv.pairs[ti][1], tlv.pairs[ti][2])
       ELSE IF tcase.alpha = 1
       THEN /\ \A ti \in 1..Len(tlv.pairs) : tlv.pairs[ti][2] \in {0, 255}
            /\ (tlv.emax = 0 => tlv.dmax = 0)
            /\ (10 * tlv.epos >= 9 * tlv.n => tlv.dmean >= 128)
       ELSE /\ tlv.dmin + 17 >= tlv.emin /\ tlv.dmax <= tlv.emax + 17
            /\ AbsLe(tlv.dmean, tlv.emean, 40)
AlphaLevelsP(e) == LET tbad == {tk \in 1..Len(e.levels) : ~AlphaLevelOk(e.levels[tk])} IN
                   IF Len(e.levels) # N THEN <<FALSE, "mip-chain">>
                   ELSE <<tbad = {}, IF tbad = {} THEN "" ELSE IF 1 \in tbad THEN "alpha-quant" ELSE "alpha-level">>
\* D: exact agreement with the documented scaling on every level
AlphaLevelsD(e) == <<\A tk \in 1..Len(e.levels) : \A ti \in 1..Len(e.levels[tk].pairs) :
                        QuantOk(tcase.alpha, e.levels[tk].pairs[ti][1], e.levels[tk].pairs[ti][2]), "alpha-level-exact">>

\* the file-path API: whatever was at the destination before (nothing / a shorter / a longer earlier save), save_blp
\* leaves exactly the encoded bytes in the main file and in every external level file, and load_blp returns the structure
FileP(e) == IF e.pre \notin PreStates THEN <<FALSE, "bad-case">>
            ELSE IF e.sres # "ok" THEN <<FALSE, "save-failed">>
            ELSE IF e.mainTok # tenc.tok \/ e.mainLen # tenc.len \/ e.extToks # tenc.exttoks THEN <<FALSE, "save-bytes">>
            ELSE IF e.lres # "ok" THEN <<FALSE, "load-failed">>
            ELSE <<e.stok = tconv.stok, "load-structure">>

PofEvent(e) == CASE e.ev = "Convert" -> ConvertP(e)
                 [] e.ev = "Encode"  -> EncodeP(e)
                 [] e.ev = "Header"  -> HeaderP(e)
                 [] e.ev = "Parse"   -> ParseP(e)
                 [] e.ev = "Decode"  -> DecodeP(e)
                 [] e.ev = "Levels"  -> LevelsP(e)
                 [] e.ev = "AlphaLevels" -> AlphaLevelsP(e)
                 [] e.ev = "File"    -> FileP(e)
                 [] e.ev = "Reset"   -> <<TargetOk(e.ver, e.enc) /\ AlphaOk(e.enc, e.alpha), "bad-case">>
                 [] OTHER -> Assert(FALSE, <<"unknown event", e.ev>>)
DofEvent(e) ==
    CASE e.ev = "Header" ->
           IF tcase.ver = "Blp0" \/ e.jh < 0 THEN <<TRUE, "">>
           ELSE LET tk == NonZeroCount(e.sizes)
                    tstart == DataStart(tcase.ver, tcase.enc, e.jh + 2)
                IN IF Prefix(e.offs, tk) # LayOutOffsets(tstart, Prefix(e.sizes, tk)) THEN <<FALSE, "levels-not-contiguous">>
                   ELSE IF tenc.len # tstart + BSum(Prefix(e.sizes, tk)) THEN <<FALSE, "file-length">>
                   ELSE IF tcase.enc = "jpeg" /\ e.jh > 624 THEN <<FALSE, "jpeg-header-longer-than-624">>
                   ELSE <<(e.hasMips # 0) <=> tcase.mips, "has-mipmaps-flag">>
      [] e.ev = "AlphaLevels" -> AlphaLevelsD(e)
      [] e.ev = "Decode" -> <<e.res # "ok" \/ tcase.enc # "raw1" \/ tcase.alpha # 4 \/ \A ti \in 1..Len(e.pairs) : e.pairs[ti][2] = Quant4(e.pairs[ti][1]), "4bit-rounding">>
      [] OTHER -> <<TRUE, "">>

Init == /\ tl = 1 /\ tcase = 0 /\ tconv = 0 /\ tenc = 0
        /\ vshape = 0 /\ vimgs = 0 /\ vcur = 0 /\ vloc = 0 /\ vext = 0 /\ vpc = "trace" /\ vdev = 0 /\ vgot = 0
Next == /\ tl <= Len(Rec)
        /\ tl' = tl + 1
        /\ LET e == Rec[tl]  tp == PofEvent(e)  td == DofEvent(e) IN
           /\ IF tp[1] THEN TRUE ELSE PrintT(<<"BAD", tl, tp[2]>>)
           /\ IF td[1] THEN TRUE ELSE PrintT(<<"DRIFT", tl, td[2]>>)
           /\ tcase' = IF e.ev = "Reset" THEN [ver |-> e.ver, enc |-> e.enc, alpha |-> e.alpha, w |-> e.w, h |-> e.h, mips |-> e.mips] ELSE tcase
           /\ tconv' = IF e.ev = "Convert" THEN [stok |-> e.stok, nimg |-> e.nimg] ELSE IF e.ev = "Reset" THEN 0 ELSE tconv
           /\ tenc'  = IF e.ev = "Encode" THEN [len |-> e.len, tok |-> e.tok, exttoks |-> e.exttoks] ELSE IF e.ev = "Reset" THEN 0 ELSE tenc
        /\ UNCHANGED bvars
Accepted == LET d == TLCGet("stats").diameter IN
            IF d - 1 = Len(Rec) THEN PrintT(<<"CONSUMED", Len(Rec)>>) ELSE Print(<<"TRACE_STUCK_AT", d>>, FALSE)
=============================================================================
