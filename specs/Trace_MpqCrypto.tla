-------------------------- MODULE Trace_MpqCrypto --------------------------
(* Stage (D) for C04: every value the library computed (recorded by the harness) is compared with *)
(* the value of the reference definition in MpqCrypto, evaluated here by TLC.  The trace is        *)
(* consumed completely; an event whose P-conjunct fails is reported as a BAD line.                *)
EXTENDS MpqCrypto, Json, IOUtils, TLC, TLCExt

Rec == ndJsonDeserialize(IOEnv.TRACE)
VARIABLE tl
tvars == <<tl>>

\* ---- P-conjuncts, one per event kind ---------------------------------------------------------
TableOk(e) == \A j \in 1..Len(e.vals) : e.vals[j] = CryptTable[e.base + j - 1]
FoldOk(e)  == /\ Len(e.upper) = 256 /\ Len(e.lower) = 256
              /\ \A c \in 0..255 : e.upper[c + 1] = Upper(c) /\ e.lower[c + 1] = Lower(c)
HashOk(e)  == /\ e.v[1] = HashString(e.b, TABLE_OFFSET)
              /\ e.v[2] = HashString(e.b, NAME_A)
              /\ e.v[3] = HashString(e.b, NAME_B)
              /\ e.v[4] = HashString(e.b, FILE_KEY)
\* words: encrypt_block / decrypt_block / decrypt_dword on Len(e.w) words
EncOk(e)   == /\ e.enc = EncryptBlock(e.w, e.key)
              /\ e.dec = e.w                                   \* decrypt_block(encrypt_block(w)) = w
              /\ DecryptBlock(e.enc, e.key) = e.w              \* ... and the reference agrees
              /\ (Len(e.w) > 0 => e.dd = DecryptDword(e.enc[1], e.key))
\* bytes: ArchiveBuilder::encrypt_data / decrypt_file_data on any byte length
EncBytesOk(e) == /\ e.enc = EncryptBytes(e.b, e.key)
                 /\ e.dec = e.b
                 /\ Len(e.enc) = Len(e.b)
\* > 1 MiB buffers of a constant byte: probe words equal the reference keystream applied to the
\* regenerated plaintext, the tail stays in the clear, decrypting gives the plaintext back (tokens)
EncBigOk(e) == LET pw == WFromBytes(e.byte, e.byte, e.byte, e.byte)
                   ps == {e.probes[j][1] : j \in 1..Len(e.probes)}
                   ref == IF e.key = WZero THEN [ix \in ps |-> pw] ELSE EncryptProbes(pw, e.nwords, e.key, ps)
               IN  /\ \A j \in 1..Len(e.probes) : e.probes[j][2] = ref[e.probes[j][1]]
                   /\ e.tail = e.tailplain
                   /\ e.dtok = e.ptok
HetOk(e)   == LET h == HetHash(e.b, e.bits) IN e.file = h.file /\ e.name1 = h.name1

\* jenkins_hash: the as-coded 64-bit accumulator or the published 32-bit function
OaatOk(e)  == e.v = Oaat64(e.b) \/ e.v = Oaat32(e.b)

\* calculate_mpq_hashes / calculate_het_hashes (crypto/mod.rs) = the primitive hashes of the same name
WrapOk(e)  == /\ e.a = HashString(e.b, NAME_A) /\ e.bb = HashString(e.b, NAME_B) /\ e.off = HashString(e.b, TABLE_OFFSET)
              /\ LET h == HetHash(e.b, e.bits) IN e.file = h.file /\ e.name1 = h.name1

Ok(e) == CASE e.ev = "Table"    -> TableOk(e)
           [] e.ev = "Fold"     -> FoldOk(e)
           [] e.ev = "Hash"     -> HashOk(e)
           [] e.ev = "Enc"      -> EncOk(e)
           [] e.ev = "EncBytes" -> EncBytesOk(e)
           [] e.ev = "Het"      -> HetOk(e)
           [] e.ev = "Oaat"     -> OaatOk(e)
           [] e.ev = "Wrap"     -> WrapOk(e)
           [] e.ev = "FileKey"  -> e.v = FileKey(e.b)
           [] e.ev = "EncBig"   -> EncBigOk(e)
           [] e.ev = "HashB"    -> HashOk(e)          \* byte-level / SIMD entry points: same reference
           [] e.ev = "Reset"    -> TRUE
           [] OTHER             -> Assert(FALSE, <<"unknown event", e>>)

Init == tl = 1
Next == /\ tl <= Len(Rec)
        /\ tl' = tl + 1
        /\ IF Ok(Rec[tl]) THEN TRUE ELSE PrintT(<<"BAD", tl, Rec[tl].ev>>)

Accepted == LET d == TLCGet("stats").diameter IN
            IF d - 1 = Len(Rec) THEN PrintT(<<"CONSUMED", Len(Rec)>>) ELSE Print(<<"TRACE_STUCK_AT", d>>, FALSE)
=============================================================================
