----------------------------- MODULE MC_Rebuild -----------------------------
(* Stage (A) for C07: the designed machine satisfies the property for every option set, every     *)
(* processing order, on a source with a plain, an encrypted, a signature and an empty file; the   *)
(* implementation machine (MC_Rebuild_code.cfg) must violate it: TLC exhibits the empty target of *)
(* a HET/BET source and the underflowing skipped count.                                           *)
EXTENDS Rebuild, Sequences
MFiles == {"plain", "secret", "(signature)", "empty", "(listfile)"}
MTok   == [f \in MFiles |-> "t:" \o f]
DesignSpec == RInit /\ [][DesignNext]_rvars /\ WF_rvars(DesignNext)
CodeSpec   == RInit /\ [][CodeNext]_rvars
=============================================================================
