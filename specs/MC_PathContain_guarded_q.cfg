CONSTANTS
  Guard = TRUE
  Plat = "posix"
  MaxComps = 3
  MaxEntries = 1
  MCForms = {"rel", "abs"}
INIT Init
NEXT Next
CHECK_DEADLOCK FALSE
INVARIANTS
  TypeOK
  OrderIndependent
  UnreadTouchesNothing
  PredictionMatchesMachine
  AbortCharacterised
  Contained
