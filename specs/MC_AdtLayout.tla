--------------------------- MODULE MC_AdtLayout ---------------------------
(* Stage (A) instance of AdtLayout: NK = 3 MCIN entries / auto MCNKs instead of 256, user tiles   *)
(* with 2 MCNKs, every subset of the optional top-level kinds x 6 versions (inadmissible ones end *)
(* in BuildReject), every subset of {MCRF, MCLQ, MCCV} as optional sub-chunks, two rebuild rounds.*)
(* MC_AdtLayout.cfg       : the code (all named deviations on)                                   *)
(* MC_AdtLayout_ideal.cfg : the format (no deviation): strict no-growth, MCIN size incl. header  *)
(* MC_AdtLayout_mutant.cfg: MhdrFileRelative = TRUE, must violate MhdrPointsAtNamed (run by hand) *)
EXTENDS AdtLayout
CodeDeviations == {"Pad8", "McinExcl", "MtxfToEof", "RefsTriple", "InjectMfbo", "MclqIncl", "MtxfAlways"}
NoDeviations   == {}
\* without deviations no rebuilt file is longer than its predecessor (the first rebuild may shrink when the
\* detected version cannot carry a chunk: blend mesh without MTXP), and from the second rebuild on the
\* length is a fixpoint
StrictNoGrowth == Deviations = {} => \A j \in 1..(Len(alens) - 1) :
                      alens[j + 1] <= alens[j] /\ (j >= 2 => alens[j + 1] = alens[j])
=============================================================================
