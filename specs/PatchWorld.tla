------------------------------ MODULE PatchWorld ------------------------------
(* The fixed set of archives used by MC_PatchChain (stage A) and Gen_PatchChain (stage B; the    *)
(* driver builds exactly these archives as real .mpq files).  Overlapping membership, a name in  *)
(* no archive, and four names whose versions include binary patches:                             *)
(*   p1  base in A1; COPY b1->q2 in A2; BSD0 q2->q3 in A3; BSD0 b1->q4 in A4                     *)
(*   p2  base in A1; BSD0 with a backward seek b2->r3 in A3                                      *)
(*   p3  base in A1; an entry flagged as patch that is not a PTCH file in A2; patches whose       *)
(*       md5_after field is all zero and whose payload is damaged in A3 (BSD0) and A4 (COPY)      *)
(*   p4  base in A4; COPY b4->s2 in A2; a patch whose payload fails its digest in A1             *)
(*   p5  10 KB files: raw multi-sector base in A1; COPY stored as sector table + compressed       *)
(*       sectors in A2; BSD0 stored single-unit compressed in A3; BSD0 with backward seek in A4   *)
(*   n6  multi-sector compressed (A2) / single-unit raw (A4) full files                           *)
(* Content ids starting with "Br" / "Bt" are ~10 KB random / text.  StdFormat: format version and *)
(* sector-size shift of each archive (V1..V4 all occur).                                          *)
(*   u1, u2  names with non-ASCII letters (e-acute, o-umlaut, sharp s, dotted capital I, euro     *)
(*       sign): "Donn\'ees\\Carte_\'et\'e.txt", "Gr\"o\ss e_Ix_EUR.ttf"; stored ASCII-upper in A4, ASCII-lower in A3   *)
(*   e1  the content-length dimension (round 4): non-empty in A1 / A3, EMPTY (content id E0) in   *)
(*       A2 / A4 -- an empty version overrides a non-empty one and vice versa                     *)
(*   e2  empty in A1 and A3 only (an empty file as the only version)                              *)
(*   e3  empty base in A1; COPY E0->c93 in A2; COPY c93->E0 in A3 (a patch whose result is empty); *)
(*       BSD0 on the empty base with maximal literal runs in A4                                   *)
(*   p2  also: BSD0 b2->r2 with dense data / long extra block (class bsd0lit) in A2               *)
(* "lf" is the (listfile), which every archive contains.                                         *)
EXTENDS PatchChain
\* (instances bind the constant Cont of PatchChain to StdWorld in their cfg: CONSTANT Cont <- StdWorld)

WorldNames == <<"n1", "n2", "n3", "n4", "n5", "n6", "u1", "u2", "e1", "e2", "e3", "p1", "p2", "p3", "p4", "p5", "lf">>
Row(f) == [n \in {WorldNames[i] : i \in 1..Len(WorldNames)} |-> IF n \in DOMAIN f THEN f[n] ELSE NoEntry]
StdWorld ==
  [A1 |-> Row([n1 |-> Plain("c11"), n2 |-> Plain("c21"), n5 |-> Plain("c51"), u1 |-> Plain("c61"),
               p1 |-> Plain("b1"), p2 |-> Plain("b2"), p3 |-> Plain("b3"),
               p4 |-> Patch("s2", "t1", "corrupt"), p5 |-> Plain("Br5"), lf |-> Plain("lfA1"),
               e1 |-> Plain("c81"), e2 |-> Plain(EmptyC), e3 |-> Plain(EmptyC)]),
   A2 |-> Row([n1 |-> Plain("c12"), n3 |-> Plain("c32"), u2 |-> Plain("c72"),
               p1 |-> Patch("b1", "q2", "copy"), p3 |-> Patch("b3", "u2", "garbage"),
               p4 |-> Patch("b4", "s2", "copy"), p5 |-> PatchS("Br5", "Bt5v2", "copy", "zsect"),
               n6 |-> Plain("Bt6"), lf |-> Plain("lfA2"),
               e1 |-> Plain(EmptyC), e3 |-> Patch(EmptyC, "c93", "copy"), p2 |-> Patch("b2", "r2", "bsd0lit")]),
   A3 |-> Row([n1 |-> Plain("c13"), n2 |-> Plain("c23"), u1 |-> Plain("c63"),
               p1 |-> Patch("q2", "q3", "bsd0"), p2 |-> Patch("b2", "r3", "bsd0neg"), p3 |-> Patch("b3", "w3", "zerobsd0"),
               p5 |-> PatchS("Bt5v2", "v53", "bsd0", "zsingle"), lf |-> Plain("lfA3"),
               e1 |-> Plain("c83"), e2 |-> Plain(EmptyC), e3 |-> Patch("c93", EmptyC, "copy")]),
   A4 |-> Row([n1 |-> Plain("c14"), n5 |-> Plain("c54"), u1 |-> Plain("c64"), u2 |-> Plain("c74"),
               p1 |-> Patch("b1", "q4", "bsd0"), p3 |-> Patch("b3", "w4", "zerocopy"), p4 |-> Plain("b4"), p5 |-> Patch("v53", "v54", "bsd0neg"),
               n6 |-> Plain("Br6"), lf |-> Plain("lfA4"),
               e1 |-> Plain(EmptyC), e3 |-> Patch(EmptyC, "x94", "bsd0lit")])]
\* (archives with a BET table -- V3, V4 -- hold raw patch entries only: the driver edits one BET flag word in place)
StdFormat == [A1 |-> [ver |-> 3, shift |-> 3], A2 |-> [ver |-> 2, shift |-> 3],
              A3 |-> [ver |-> 1, shift |-> 3], A4 |-> [ver |-> 4, shift |-> 5]]
StdArchives == {"A1", "A2", "A3", "A4"}
Bogus       == "AX"          \* an archive whose file does not exist
StdPrios    == {-1, 0, 5}
=============================================================================
