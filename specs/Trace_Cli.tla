------------------------------- MODULE Trace_Cli -------------------------------
(* Stage (D) for C20.  One trace = one case: Reset, then one Run event per process run of the real    *)
(* `warcraft-rs` binary (a pipeline case has four: create, list, info, extract).  Each Run carries the *)
(* run's class attributes (family, sub-command, input class, the LIBRARY's verdicts on the same input) *)
(* and the observed outcome (exit status, whether the tool printed a failure, produced files as         *)
(* (name, token) pairs + the library's verdict on each, printed facts + the library's view).            *)
(* TLC rebuilds r and o of Cli.tla and evaluates Truthful(r, o); the broken obligation is the reason.   *)
EXTENDS Cli, Json, IOUtils, TLCExt, SequencesExt

Rec == ndJsonDeserialize(IOEnv.TRACE)
VARIABLE tl

PairSet(q) == {<<q[i][1], q[i][2]>> : i \in 1..Len(q)}
\* a round trip was performed: both conversions exited 0 and both ends parse
RtApplies(e) == e.rt_dir # "" /\ e.rt_back_exit = 0 /\ e.rt_in # "" /\ e.rt_back # ""
RtDiag(e) == IF RtApplies(e) /\ <<e.kind, e.rt_dir>> \notin RoundTripExact /\ e.rt_in # e.rt_back
             THEN PrintT(<<"DRIFT", tl, "rt-differs " \o e.kind \o " " \o e.rt_dir>>)
             ELSE TRUE
\* the library's view, filtered by the spec's own glob matcher when the run had a --filter
LibViewOf(e) == IF e.filt = <<>> THEN ToSet(e.libview)
                ELSE {e.libview[i] : i \in {j \in 1..Len(e.libview) : GlobMatch(e.filt, e.libchars[j])}}
RunOf(e) == [fam |-> e.fam, cmd |-> e.cmd, input |-> e.input, lib |-> e.lib, libval |-> e.libval,
             missing |-> e.missing, skip |-> e.skip, sel |-> e.sel]
OutcomeOf(e) == [exit |-> e.exit, says_fail |-> e.says_fail, want |-> PairSet(e.want), got |-> PairSet(e.got),
                 outs_ok |-> /\ (e.need_outs => Len(e.outs) > 0)
                             /\ \A i \in 1..Len(e.outs) : e.outs[i] = "ok",
                 view_ok |-> ToSet(e.view) = LibViewOf(e),
                 pre_ok |-> e.fresh_tok = "" \/ (e.out_tok = e.fresh_tok /\ e.out_len = e.fresh_len),
                 rt_ok |-> ~(RtApplies(e) /\ <<e.kind, e.rt_dir>> \in RoundTripExact /\ e.rt_in # e.rt_back)]

WellFormed(e) == /\ <<e.fam, e.cmd>> \in AllCmds /\ e.input \in Inputs /\ e.lib \in LibVerdicts
                 /\ e.libval \in {"ok", "fail", "n/a"} /\ e.pre \in PreStates /\ e.sel \in {"n/a", "in", "out"}
                 /\ (e.filt # <<>> => Len(e.libchars) = Len(e.libview))

TInit == tl = 1 /\ Init /\ vdisk = EmptyMap
Step(e) == CASE e.ev = "Reset" -> TRUE
             [] e.ev = "Run"   -> /\ Assert(WellFormed(e), <<"malformed Run event", e>>)
                                  /\ RtDiag(e)
                                  /\ IF Truthful(RunOf(e), OutcomeOf(e)) THEN TRUE
                                     ELSE PrintT(<<"BAD", tl, Broken(RunOf(e), OutcomeOf(e))>>)
             [] OTHER -> Assert(FALSE, <<"unknown event", e>>)
TNext == /\ tl <= Len(Rec)
         /\ tl' = tl + 1
         /\ Step(Rec[tl])
         /\ UNCHANGED cvars

Accepted == LET d == TLCGet("stats").diameter IN
            IF d - 1 = Len(Rec) THEN PrintT(<<"CONSUMED", Len(Rec)>>) ELSE Print(<<"TRACE_STUCK_AT", d>>, FALSE)
=============================================================================
