CONSTANTS
  RFiles <- MFiles
  RTok <- MTok
  REnc = {"secret"}
  RSig = {"(signature)"}
  REmpty = {"empty"}
  RHetBet = FALSE
SPECIFICATION CodeSpec
INVARIANT NeverFails

CHECK_DEADLOCK FALSE
