INIT Init
NEXT Next
INVARIANT InverseLaw
CHECK_DEADLOCK FALSE
