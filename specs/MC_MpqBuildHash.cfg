CONSTANTS
  SectorSize = 4
  TableSize = 4
  HetSize = 8
  FlagFix = FALSE
  UseHetBet = TRUE
  BetFix = FALSE
INIT HInit
NEXT HNext
CHECK_DEADLOCK FALSE
