INIT MCInit
NEXT MCNext
INVARIANT NeverExpand
INVARIANT PrefixIffShrunk
INVARIANT SupportedSucceed
INVARIANT OwnOutputAccepted
INVARIANT DispatchInverse
CHECK_DEADLOCK FALSE
