------------------------------- MODULE PathContain -------------------------------
(* C11 -- extraction through the CLI never writes outside the output directory.                      *)
(*                                                                                                    *)
(* The module models `warcraft-rs mpq extract` (warcraft-rs/src/commands/mpq.rs:                      *)
(* extract_files_with_options) at the level where containment is decided:                             *)
(*    archive / listfile name  --mpq_path_to_system-->  system path string                            *)
(*                             --Path::file_name (no --preserve-paths)-->  relative path               *)
(*                             --Path::join(output_dir, .)-->  target path string                      *)
(*                             --fs::create_dir_all(target.parent())-->  directories                   *)
(*                             --fs::write(target)-->  file                                            *)
(* A path *string* is a sequence of raw components (the pieces between separators; "E" = empty piece, *)
(* so a leading "E" is a leading separator).  Rust's `Path` view (components(), file_name(),          *)
(* parent(), join()) and the kernel's view (component-stack resolution: `..` pops) are modelled       *)
(* separately because they differ exactly where escapes live (`a/..`, trailing `.`, `//`).            *)
(*                                                                                                    *)
(* Guard = TRUE is the code as written since /repo commit 97c8245 (extraction_path(): an entry whose   *)
(* system path has a ParentDir / RootDir / Prefix component is refused and counted as a failed entry,  *)
(* in both the plain and the --patch branch).  Guard = FALSE enables the named deviation              *)
(* `BeginUnguarded` (the code before that commit: join without looking at the components); TLC refutes *)
(* `Contained` for it and establishes exactly which entries escape (EscapesUnguarded).                 *)
EXTENDS Integers, Sequences, FiniteSets, SequencesExt, TLC

CONSTANTS Guard,        \* BOOLEAN: TRUE = as coded (bad components refused); FALSE = deviation BeginUnguarded allowed
          Plat          \* "posix" | "windows"  (only posix is bound to the implementation)

\* ---------------------------------------------------------------------------------------------------
\* name grammar
\* ---------------------------------------------------------------------------------------------------
Kinds == {"P", "D", "E", "a", "C", "L", "U"}   \* ..  .  (empty)  plain  C:  long(255)  non-ASCII
\* look-alikes of `..` that are ordinary (Normal) components for Path and kernel alike, but that a textual "clean-up"
\* (remove "../", trim dots / spaces) can turn into a real `..`:  ...   ....   ".. " (dot dot space)
LookAlikes == {"T", "Q", "S"}
ExtKinds == Kinds \cup LookAlikes
Seps  == {"f", "b"}                            \* /  \
IsNormalTok(c) == c \notin {"P", "D", "E"}
CompSeqs(maxc) == UNION {[1..n -> Kinds] : n \in 1..maxc}
NamesOf(maxc) == UNION {{[c |-> cs, s |-> ss] : ss \in [1..(Len(cs) - 1) -> Seps]} : cs \in CompSeqs(maxc)}

\* mpq_path_to_system: on unix every `\` becomes `/`; on windows both are separators of `Path` anyway.
\* Either way the pieces between separators are the name's components: the separator kinds vanish.
SystemPath(n) == n.c

\* ---------------------------------------------------------------------------------------------------
\* the file-system neighbourhood
\* ---------------------------------------------------------------------------------------------------
Cwd    == <<"d1", "d2", "p1", "p2", "work">>      \* deep enough that 6 levels of `..` stay inside the sandbox
OutAbs == Cwd \o <<"out">>
StandInRoot == <<"r1", "r2", "r3", "r4", "r5", "root">>          \* existing directories the harness redirects leading-separator names to
Drive  == <<"C:drive">>                        \* where a windows Prefix path lands (another volume)
OutForms == {"rel", "abs", "dotrel", "trail"}
OutRaw(form) == CASE form = "rel"    -> <<"out">>
                  [] form = "abs"    -> <<"E">> \o OutAbs
                  [] form = "dotrel" -> <<"D", "out">>
                  [] form = "trail"  -> <<"out">>        \* Path::join does not double a trailing separator
PcIsPrefix(pre, p) == Len(pre) <= Len(p) /\ SubSeq(p, 1, Len(pre)) = pre
Below(dir, p) == PcIsPrefix(dir, p)            \* the directory itself counts: creating `out` is asked for
PcPrefixes(p) == {SubSeq(p, 1, i) : i \in 0..Len(p)}

\* ---------------------------------------------------------------------------------------------------
\* Rust's std::path view of a raw path
\* ---------------------------------------------------------------------------------------------------
HasPrefix(p) == Plat = "windows" /\ Len(p) >= 1 /\ p[1] = "C"
HasRoot(p)   == Len(p) >= 2 /\ p[1] = "E"      \* the string starts with a separator ("" alone is the empty path)
Anchored(p)  == HasPrefix(p) \/ HasRoot(p)
Body(p)      == IF Anchored(p) THEN Tail(p) ELSE p
\* components(): repeated separators and `.` vanish, except a leading `.` of an un-anchored path
RsComps(p) == LET b    == Body(p)
                  lead == ~Anchored(p) /\ Len(b) >= 1 /\ b[1] = "D"
                  rest == SelectSeq(IF lead THEN Tail(b) ELSE b, LAMBDA c : c \notin {"E", "D"})
              IN IF lead THEN <<"D">> \o rest ELSE rest
Anchor(p) == IF HasPrefix(p) THEN <<"C">> ELSE IF HasRoot(p) THEN <<"E">> ELSE <<>>
Render(anchor, comps) == IF anchor = <<"E">> /\ comps = <<>> THEN <<"E", "E">> ELSE anchor \o comps
\* file_name(): the last component if it is Normal
RsHasFileName(p) == LET c == RsComps(p) IN c # <<>> /\ IsNormalTok(c[Len(c)])
RsFileName(p)    == LET c == RsComps(p) IN <<c[Len(c)]>>
\* parent(): strips the last component; None for the empty path and for a bare root / prefix
RsHasParent(p) == RsComps(p) # <<>>
RsParent(p)    == LET c == RsComps(p) IN Render(Anchor(p), SubSeq(c, 1, Len(c) - 1))
\* join(): an anchored right operand replaces the left one
RsJoin(base, p) == IF Anchored(p) THEN p ELSE base \o p
\* Component kinds the intended guard rejects
HasParentDir(p) == \E i \in 1..Len(p) : p[i] = "P"
BadForGuard(p)  == HasParentDir(p) \/ HasRoot(p) \/ HasPrefix(p)

\* ---------------------------------------------------------------------------------------------------
\* target path of one entry
\* ---------------------------------------------------------------------------------------------------
\* `Path::new(&system_path).file_name().unwrap_or_default()`: no file name -> "" -> join gives "out/"
Relative(sys, preserve) == IF preserve THEN sys ELSE IF RsHasFileName(sys) THEN RsFileName(sys) ELSE <<"E">>
Target(sys, preserve, form) == RsJoin(OutRaw(form), Relative(sys, preserve))

\* ---------------------------------------------------------------------------------------------------
\* the kernel's view: resolution is a component stack
\* ---------------------------------------------------------------------------------------------------
StartOf(raw) == IF HasPrefix(raw) THEN Drive ELSE IF HasRoot(raw) THEN <<>> ELSE Cwd
FloorOf(raw) == IF HasPrefix(raw) THEN 1 ELSE 0
KStep(st, c, floor) == IF c \in {"E", "D"} THEN st
                       ELSE IF c = "P" THEN (IF Len(st) <= floor THEN st ELSE Front(st))
                       ELSE Append(st, c)

\* ---------------------------------------------------------------------------------------------------
\* state machine: one CLI run over a list of entries
\* ---------------------------------------------------------------------------------------------------
VARIABLES vall,      \* the entry names of the run (constant during a behaviour)
          vopt,      \* [preserve, explicit, chain, form, preout, skip, unread]; unread = positions of entries whose data cannot be read
                     \* (listed but absent from the archive, or corrupted)
          vpend,     \* names not yet processed
          vst,       \* "idle" | "mkdir" | "write" | "done" | "aborted"
          vtarget,   \* raw target path of the current entry
          vrest,     \* raw components of target.parent() still to be walked by create_dir_all
          vstack,    \* resolved directory reached so far
          vfloor,
          vdirs, vfiles,   \* resolved paths that exist
          vtouched,  \* resolved paths created or modified by the run
          verrs      \* entries counted as failed (guard)
vars == <<vall, vopt, vpend, vst, vtarget, vrest, vstack, vfloor, vdirs, vfiles, vtouched, verrs>>

InitFs(preout) == PcPrefixes(Cwd) \cup PcPrefixes(StandInRoot) \cup {Drive} \cup (IF preout THEN {OutAbs} ELSE {})

\* single archive without --skip-errors: extract_with_config reads every requested entry first and fails as a whole on the first
\* unreadable one -- nothing is written at all
EarlyAbortOf(names, opt) == ~opt.chain /\ ~opt.skip /\ \E i \in opt.unread : i <= Len(names) /\ ~(~opt.explicit /\ names[i] = <<"E">>)
InitWith(names, opt) ==
    /\ vall = names /\ vopt = opt /\ vpend = names /\ vst = IF EarlyAbortOf(names, opt) THEN "aborted" ELSE "idle"
    /\ vtarget = <<>> /\ vrest = <<>> /\ vstack = <<>> /\ vfloor = 0
    /\ vdirs = InitFs(opt.preout) /\ vfiles = {} /\ vtouched = {} /\ verrs = 0

\* whole-archive extraction takes its names from parse_listfile: an empty line is no entry
ListfileDrop ==
    /\ vst = "idle" /\ vpend # <<>> /\ ~vopt.explicit /\ Head(vpend) = <<"E">>
    /\ vpend' = Tail(vpend)
    /\ UNCHANGED <<vall, vopt, vst, vtarget, vrest, vstack, vfloor, vdirs, vfiles, vtouched, verrs>>

Dropped(n) == ~vopt.explicit /\ n = <<"E">>
Pos == Len(vall) - Len(vpend) + 1              \* position of the entry at the head of vpend
UnreadHead == Pos \in vopt.unread

\* the Err arm of both extraction loops: the entry's data could not be read (with --skip-errors, or from a patch chain):
\* it is counted as failed and NOTHING is done with its name
ReadFail ==
    /\ vst = "idle" /\ vpend # <<>> /\ ~Dropped(Head(vpend)) /\ UnreadHead
    /\ vpend' = Tail(vpend) /\ verrs' = verrs + 1
    /\ UNCHANGED <<vall, vopt, vst, vtarget, vrest, vstack, vfloor, vdirs, vfiles, vtouched>>

\* intended behaviour: the entry is refused before any path is built
SkipGuarded ==
    /\ vst = "idle" /\ vpend # <<>> /\ ~Dropped(Head(vpend)) /\ ~UnreadHead
    /\ Guard /\ BadForGuard(Head(vpend))
    /\ vpend' = Tail(vpend) /\ verrs' = verrs + 1
    /\ UNCHANGED <<vall, vopt, vst, vtarget, vrest, vstack, vfloor, vdirs, vfiles, vtouched>>

\* build the target; `if let Some(parent) = output_path.parent() { create_dir_all(parent) }`
BeginWith(n) ==
    /\ LET t == Target(n, vopt.preserve, vopt.form) IN
       /\ vtarget' = t
       /\ vrest' = IF RsHasParent(t) THEN Body(RsParent(t)) ELSE <<>>
       /\ vstack' = StartOf(t) /\ vfloor' = FloorOf(t)
    /\ vst' = "mkdir"
    /\ UNCHANGED <<vall, vopt, vpend, vdirs, vfiles, vtouched, verrs>>
\* as coded: only entries made of Normal / CurDir components get this far
Begin ==
    /\ vst = "idle" /\ vpend # <<>> /\ ~Dropped(Head(vpend)) /\ ~UnreadHead
    /\ ~BadForGuard(Head(vpend))
    /\ BeginWith(Head(vpend))
\* DEVIATION (the code before 97c8245): an entry with a bad component is joined like any other
BeginUnguarded ==
    /\ vst = "idle" /\ vpend # <<>> /\ ~Dropped(Head(vpend)) /\ ~UnreadHead
    /\ ~Guard /\ BadForGuard(Head(vpend))
    /\ BeginWith(Head(vpend))

\* create_dir_all walks the parent: every Normal component is entered, created when missing
MkdirStep ==
    /\ vst = "mkdir" /\ vrest # <<>>
    /\ LET c == Head(vrest) nxt == KStep(vstack, c, vfloor) IN
       /\ ~(IsNormalTok(c) /\ nxt \in vfiles)
       /\ vstack' = nxt
       /\ vrest' = Tail(vrest)
       /\ IF IsNormalTok(c) /\ nxt \notin vdirs
          THEN vdirs' = vdirs \cup {nxt} /\ vtouched' = vtouched \cup {nxt}
          ELSE UNCHANGED <<vdirs, vtouched>>
    /\ UNCHANGED <<vall, vopt, vpend, vst, vtarget, vfloor, vfiles, verrs>>

\* a component of the parent exists as a regular file: create_dir_all fails, `?` ends the run
MkdirFail ==
    /\ vst = "mkdir" /\ vrest # <<>>
    /\ IsNormalTok(Head(vrest)) /\ KStep(vstack, Head(vrest), vfloor) \in vfiles
    /\ vst' = "aborted"
    /\ UNCHANGED <<vall, vopt, vpend, vtarget, vrest, vstack, vfloor, vdirs, vfiles, vtouched, verrs>>

MkdirDone ==
    /\ vst = "mkdir" /\ vrest = <<>>
    /\ vst' = "write"
    /\ UNCHANGED <<vall, vopt, vpend, vtarget, vrest, vstack, vfloor, vdirs, vfiles, vtouched, verrs>>

\* open(target, O_CREAT|O_TRUNC): every component but the last must lead through existing directories
WalkIn(raw, dirs) ==
    LET b == Body(raw)
        step(acc, c) == IF ~acc.ok THEN acc
                        ELSE LET nxt == KStep(acc.st, c, FloorOf(raw)) IN
                             IF IsNormalTok(c) /\ nxt \notin dirs THEN [ok |-> FALSE, st |-> acc.st]
                             ELSE [ok |-> TRUE, st |-> nxt]
    IN FoldLeft(step, [ok |-> TRUE, st |-> StartOf(raw)], SubSeq(b, 1, Len(b) - 1))
WriteOkIn(raw, dirs) == LET b == Body(raw) w == WalkIn(raw, dirs) IN
                        /\ b # <<>> /\ w.ok /\ IsNormalTok(b[Len(b)])
                        /\ Append(w.st, b[Len(b)]) \notin dirs
WrittenPathIn(raw, dirs) == LET b == Body(raw) IN Append(WalkIn(raw, dirs).st, b[Len(b)])
WriteOk(raw) == WriteOkIn(raw, vdirs)
WrittenPath(raw) == WrittenPathIn(raw, vdirs)

WriteFile ==
    /\ vst = "write" /\ WriteOk(vtarget)
    /\ vfiles' = vfiles \cup {WrittenPath(vtarget)}
    /\ vtouched' = vtouched \cup {WrittenPath(vtarget)}
    /\ vpend' = Tail(vpend)
    /\ vst' = "idle"
    /\ UNCHANGED <<vall, vopt, vtarget, vrest, vstack, vfloor, vdirs, verrs>>

\* EISDIR / ENOENT / ENOTDIR: fs::write fails, `?` ends the run
WriteFail ==
    /\ vst = "write" /\ ~WriteOk(vtarget)
    /\ vst' = "aborted"
    /\ UNCHANGED <<vall, vopt, vpend, vtarget, vrest, vstack, vfloor, vdirs, vfiles, vtouched, verrs>>

Finish ==
    /\ vst = "idle" /\ vpend = <<>>
    /\ vst' = "done"
    /\ UNCHANGED <<vall, vopt, vpend, vtarget, vrest, vstack, vfloor, vdirs, vfiles, vtouched, verrs>>

Next == ListfileDrop \/ ReadFail \/ SkipGuarded \/ Begin \/ BeginUnguarded \/ MkdirStep \/ MkdirFail \/ MkdirDone \/ WriteFile \/ WriteFail \/ Finish

\* ---------------------------------------------------------------------------------------------------
\* the property, and what TLC establishes about the two variants
\* ---------------------------------------------------------------------------------------------------
Contained == \A p \in vtouched : Below(OutAbs, p)
Escaped   == ~Contained

\* Independent characterisation of the escaping entries of the unguarded deviation (no stack machine):
\* a Normal component that is materialised (as a directory: it is not the component parent() strips;
\* or as the file: it is the last raw component) while the walk is outside `out`.  The walk is
\* outside once the path is anchored, or once the running depth (#Normal - #`..`) went negative.
Depth(cs, j) == Cardinality({i \in 1..j : IsNormalTok(cs[i])}) - Cardinality({i \in 1..j : cs[i] = "P"})
OutsideBefore(cs, i) == Anchored(cs) \/ \E j \in 1..(i - 1) : Depth(cs, j) < 0
LastKept(cs) == LET keep == {i \in 1..Len(cs) : cs[i] \notin {"E", "D"} /\ ~(i = 1 /\ Anchored(cs))} IN
                IF keep = {} THEN 0 ELSE CHOOSE i \in keep : \A j \in keep : j <= i
Materialised(cs, i) == IsNormalTok(cs[i]) /\ ~(i = 1 /\ HasPrefix(cs)) /\ (i # LastKept(cs) \/ i = Len(cs))
EscapesUnguarded(cs, preserve, explicit) ==
    /\ preserve /\ (explicit \/ cs # <<"E">>)
    /\ \E i \in 1..Len(cs) : Materialised(cs, i) /\ OutsideBefore(cs, i)

\* The whole effect of one entry on a clean file system as a constant-level function (create_dir_all as
\* a fold).  Stage (A) checks that it equals what the step-by-step machine does; stage (D) uses it to
\* compare the model with the paths the real process touched (conformance diagnostic).
MkdirAll(rawparent, dirs) ==
    FoldLeft(LAMBDA acc, c : LET nxt == KStep(acc.st, c, FloorOf(rawparent)) IN
                 IF IsNormalTok(c) /\ nxt \notin acc.dirs
                 THEN [st |-> nxt, dirs |-> acc.dirs \cup {nxt}, new |-> acc.new \cup {nxt}]
                 ELSE [acc EXCEPT !.st = nxt],
             [st |-> StartOf(rawparent), dirs |-> dirs, new |-> {}], Body(rawparent))
PredictTouched(cs, opt, guard) ==
    IF ~opt.explicit /\ cs = <<"E">> THEN {}
    ELSE IF guard /\ BadForGuard(cs) THEN {}
    ELSE LET t == Target(cs, opt.preserve, opt.form)
             m == IF RsHasParent(t) THEN MkdirAll(RsParent(t), InitFs(opt.preout))
                  ELSE [st |-> <<>>, dirs |-> InitFs(opt.preout), new |-> {}]
         IN m.new \cup (IF WriteOkIn(t, m.dirs) THEN {WrittenPathIn(t, m.dirs)} ELSE {})
\* entries that stop the run when extracted alone (their own fs::write fails: last component not
\* Normal, or the written path is a directory the entry itself made, as in a\..\a)
AbortsAlone(cs, opt, guard) ==
    /\ ~(~opt.explicit /\ cs = <<"E">>) /\ ~(guard /\ BadForGuard(cs))
    /\ LET t == Target(cs, opt.preserve, opt.form)
           m == IF RsHasParent(t) THEN MkdirAll(RsParent(t), InitFs(opt.preout))
                ELSE [st |-> <<>>, dirs |-> InitFs(opt.preout), new |-> {}]
       IN ~WriteOkIn(t, m.dirs)

\* The harness's concretisation of an abstract name (i0 = position in the archive, 0-based) in the spelling used by the trace's
\* `touched` field and by the generator's decoy paths; a leading separator is redirected to the sandbox's stand-in root.
Conc(k, i0, last) == CASE k = "a" -> "a#" \o ToString(i0)
                       [] k = "U" -> "U#" \o ToString(i0)
                       [] k = "L" -> "L#" \o ToString(i0)
                       [] k = "C" -> IF last THEN "C:f#" \o ToString(i0) ELSE "C:"
                       [] k = "T" -> "..."
                       [] k = "Q" -> "...."
                       [] k = "S" -> ".. "
                       [] OTHER   -> k
ConcName(n, i0) == LET cs == [j \in 1..Len(n.c) |-> Conc(n.c[j], i0, j = Len(n.c))] IN
                   IF HasRoot(n.c) THEN <<"E">> \o StandInRoot \o Tail(cs) ELSE cs
\* where the unguarded deviation would write this entry's file (at most one path): the place to plant a decoy
DeviationTarget(cs, opt) ==
    IF ~opt.explicit /\ cs = <<"E">> THEN {}
    ELSE LET t == Target(cs, opt.preserve, opt.form)
             m == IF RsHasParent(t) THEN MkdirAll(RsParent(t), InitFs(opt.preout))
                  ELSE [st |-> <<>>, dirs |-> InitFs(opt.preout), new |-> {}]
         IN IF WriteOkIn(t, m.dirs) THEN {WrittenPathIn(t, m.dirs)} ELSE {}

\* ---------------------------------------------------------------------------------------------------
\* the TEXTUAL view of a name (components + the separator written between them), and why it must not matter
\* ---------------------------------------------------------------------------------------------------
\* The code as written decides per entry and on components (SystemPath drops the separator kinds).  Any shortcut that works on
\* the TEXT of a name sees something else: a splitter that knows ONE separator kind cuts the name only where that kind is written,
\* so a piece may still hold separators of the other kind -- and `..` components behind them.
CutsOf(n, kind) == {i \in 1..Len(n.s) : n.s[i] = kind}
LastCut(n, kind) == LET cu == CutsOf(n, kind) IN IF cu = {} THEN 0 ELSE CHOOSE i \in cu : \A j \in cu : j <= i
\* "directory" text (everything before the last separator of that kind; empty when there is none) and the remainder
DirKeyOf(n, kind) == LET q == LastCut(n, kind) IN [c |-> SubSeq(n.c, 1, q), s |-> SubSeq(n.s, 1, q - 1)]
RestOf(n, kind) == SubSeq(n.c, LastCut(n, kind) + 1, Len(n.c))
\* DEVIATION class "state carried from the previous entry, keyed by text": the directory resolved for the previously ACCEPTED entry is
\* reused when the next name has the same directory text, and the remainder is joined to it without passing the guard.  On a hit
\* directory components + remainder = the name's components, so the entry is written where the unguarded deviation writes it.
SepCacheHit(prev, cur, kind, opt) == opt.preserve /\ ~BadForGuard(prev.c) /\ DirKeyOf(prev, kind) = DirKeyOf(cur, kind)
SepCacheEscapes(prev, cur, kind, opt) == SepCacheHit(prev, cur, kind, opt) /\ EscapesUnguarded(cur.c, opt.preserve, opt.explicit)
\* separators written uniformly: the remainder is one component, the directory text is a prefix of an accepted name -- such a
\* pair can never make a text-keyed shortcut leave `out` (TLC evaluates this over the generator's pairs: the uniform pairs
\* are blind to the class, the mixed ones are not)
UniformSeps(n) == \A i, j \in 1..Len(n.s) : n.s[i] = n.s[j]

SingleEntry == Len(vall) = 1
Terminal == vst \in {"done", "aborted"}
\* deviation: an escape happens exactly for the characterised entries (single-entry runs from a clean fs)
Readable1 == 1 \notin vopt.unread
EscapeCharacterised ==
    SingleEntry => /\ Escaped => (Readable1 /\ EscapesUnguarded(vall[1], vopt.preserve, vopt.explicit))
                   /\ Terminal => (Escaped <=> (Readable1 /\ EscapesUnguarded(vall[1], vopt.preserve, vopt.explicit)))
\* deviation, multi-entry: whoever escapes is a characterised entry of the run
EscapeOnlyByCharacterised ==
    Escaped => \E i \in 1..Len(vall) : EscapesUnguarded(vall[i], vopt.preserve, vopt.explicit)
\* the guard is not only sufficient but rejects nothing harmless it need not: every escaping entry has a bad component
GuardCoversEscapes == \A i \in 1..Len(vall) :
    EscapesUnguarded(vall[i], vopt.preserve, vopt.explicit) => BadForGuard(vall[i])
\* without --preserve-paths even the deviation is contained
FlattenContained == ~vopt.preserve => Contained
\* the fold and the machine agree (single entry, terminal state)
PredictionMatchesMachine == (SingleEntry /\ Terminal) =>
                            vtouched = IF Readable1 THEN PredictTouched(vall[1], vopt, Guard) ELSE {}
\* an unreadable entry never touches anything, whatever its name (the Err arm does not build a path)
UnreadTouchesNothing == (SingleEntry /\ ~Readable1) => vtouched = {}
\* Extraction is HISTORY-FREE: what a completed run touched is the union of what each of its entries touches on its own --
\* no entry's target depends on which entries came before it or in which order (a "previous directory" shortcut breaks this)
OrderIndependent == (vst = "done") =>
    vtouched = UNION {IF i \in vopt.unread THEN {} ELSE PredictTouched(vall[i], vopt, Guard) : i \in 1..Len(vall)}
\* a single entry stops the run exactly when AbortsAlone says so (what the case generator relies on when
\* it packs the other names into groups)
AbortCharacterised == (SingleEntry /\ Terminal) =>
                      ((vst = "aborted") <=> (EarlyAbortOf(vall, vopt) \/ (Readable1 /\ AbortsAlone(vall[1], vopt, Guard))))
\* every failed / refused entry is accounted for, nothing is touched after an abort
TypeOK == /\ vst \in {"idle", "mkdir", "write", "done", "aborted"}
          /\ vtouched \subseteq (vdirs \cup vfiles)
          /\ vdirs \cap vfiles = {}
          /\ verrs \in 0..Len(vall)
=============================================================================
