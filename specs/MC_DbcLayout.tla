---------------------------- MODULE MC_DbcLayout ----------------------------
(* Stage (A) for C17: every schema of at most two fields over the nine field types and the array    *)
(* classes {scalar, 1, 3}, every legal key position, record lists of length 0..2 (+ one of 3) built  *)
(* from value patterns that produce duplicate / empty strings and duplicate keys.                   *)
EXTENDS DbcLayout

Arrs == {0, 1, 3}
Fields == {[ty |-> t, arr |-> a] : t \in Types, a \in Arrs}
Schemas == {<<f>> : f \in Fields} \cup {<<f, g>> : f \in Fields, g \in Fields}
KeyVals == <<5, 7, 5>>                        \* pattern 0 and 2 share a key
\* the record of pattern p under schema s / key field k
RecOf(s, k, p) == [i \in 1..Len(s) |-> [e \in 1..Elems(s[i]) |->
                     IF s[i].ty = "String" THEN (p + i + e) % 3
                     ELSE IF i = k THEN KeyVals[p + 1] ELSE p]]
PatternLists == {<<>>, <<0>>, <<1>>, <<0, 1>>, <<1, 0>>, <<0, 0>>, <<0, 2>>, <<2, 1, 0>>}
StrLen == [i \in 0..2 |-> IF i = 0 THEN 0 ELSE 3 * i + 1]

Init == \E s \in Schemas : \E k \in {kk \in 0..Len(s) : KeyOk(s, kk)} : \E pl \in PatternLists :
           DStart(s, k, [j \in 1..Len(pl) |-> RecOf(s, k, pl[j])], StrLen)
Next == DbcNext

\* the arithmetic definitions agree with each other
ASSUME OffsetsConsistent == \A s \in Schemas :
          /\ FieldOffset(s, Len(s)) + FieldBytes(s[Len(s)]) = RecordSize(s)
          /\ FieldOffset(s, 1) = 0
          /\ FieldCount(s) >= Len(s)
          /\ (FieldCount(s) = Len(s) <=> \A i \in 1..Len(s) : s[i].arr \in {0, 1})
\* routes: indices ascend, stay inside the table, and the simple routes are what their names say
ASSUME RouteLaw == \A n \in 0..7 : \A r \in RoutesFor(n) :
          LET ix == RouteIdx(r, n) IN
          /\ \A j \in 1..Len(ix) : ix[j] \in 0..(n - 1)
          /\ \A j \in 1..(Len(ix) - 1) : ix[j] < ix[j + 1]
          /\ (r.kind = "iter" => ix = [j \in 1..n |-> j - 1])
          /\ (r.kind = "step" /\ r.a = 1 => ix = RouteIdx(RouteRec("iter", 0, 0), n))
          /\ (r.kind = "skip" => ix = SubSeq(RouteIdx(RouteRec("iter", 0, 0), n), r.a + 1, n))
ASSUME RouteVectors == /\ RouteIdx(RouteRec("step", 3, 0), 7) = <<0, 3, 6>>
                       /\ RouteIdx(RouteRec("skipstep", 2, 3), 7) = <<2, 5>>
                       /\ RouteIdx(RouteRec("nthnth", 1, 1), 7) = <<1, 3>> /\ RouteIdx(RouteRec("nthnth", 0, 2), 3) = <<0>>
                       /\ RouteIdx(RouteRec("nth", 3, 0), 3) = <<>> /\ RouteIdx(RouteRec("last", 0, 0), 0) = <<>>
\* skipping by 4 * field_count lands on record boundaries exactly for all-32-bit layouts
ASSUME StrideLaw == \A s \in Schemas : (4 * FieldCount(s) = SkipStride(s)) <=> AllWide(s)
\* every byte of the block belongs to exactly one string (body or terminator), so every offset inside the
\* block is a legal reference and resolves to a unique suffix; the special kinds resolve to the empty string
ASSUME LocateLaw == \A blk \in {<<0, 2, 1>>, <<0, 1>>, <<0, 1, 1, 2>>} :
          /\ \A off \in 0..(BlockSize(blk, StrLen) - 1) :
                LET l == Locate(blk, StrLen, off) IN
                /\ BlockOffsets(blk, StrLen)[l[1]] + l[2] = off /\ l[2] \in 0..StrLen[blk[l[1]]]
                /\ Cardinality({k \in 1..Len(blk) : BlockOffsets(blk, StrLen)[k] <= off /\ off <= BlockOffsets(blk, StrLen)[k] + StrLen[blk[k]]}) = 1
          /\ \A k \in 1..Len(blk) :
                /\ RefTextLen(blk, StrLen, RefOffsetOfKind(blk, StrLen, k, "start", 0)) = StrLen[blk[k]]
                /\ RefTextLen(blk, StrLen, RefOffsetOfKind(blk, StrLen, k, "nul", 0)) = 0
                /\ RefTextLen(blk, StrLen, RefOffsetOfKind(blk, StrLen, k, "zero", 0)) = 0
                /\ RefTextLen(blk, StrLen, RefOffsetOfKind(blk, StrLen, k, "last", 0)) = 0
                /\ \A sk \in 0..StrLen[blk[k]] : RefTextLen(blk, StrLen, RefOffsetOfKind(blk, StrLen, k, "inside", sk)) = StrLen[blk[k]] - sk
\* names: a by-name pick is the identity exactly when the names are distinct
ASSUME NameLaw == \A nf \in 1..5 : \A cls \in NameClasses :
          LET nm == FieldNames(cls, nf) IN
          (\A i \in 1..nf : FirstOfName(nm, i) = i) <=> NamesDistinct(nm)
ASSUME NameVectors == /\ FieldNames("dupApart", 4) = <<"Unknown", "f2", "f3", "Unknown">>
                      /\ ~NamesDistinct(FieldNames("dupAdjacent", 3)) /\ NamesDistinct(FieldNames("dupAdjacent", 1))
                      /\ FirstOfName(FieldNames("allEqual", 3), 3) = 1
\* key order classes: both lookup structures are sound on every class, absent probes are absent, and the
\* first/last "looks dense" test licenses index arithmetic only for the genuinely dense class
ASSUME KeyOrderLaw == \A n \in 0..7 : \A cls \in KeyOrders :
          LET ks == KeyColumnOf(cls, n, 10) IN
          /\ \A k \in Range(ks) : LookupSound(ks, k, HashLookup(ks, k)) /\ \A r \in BinaryLookups(ks, k) : LookupSound(ks, k, r)
          /\ \A k \in AbsentProbes(ks, 10) : HashLookup(ks, k) = 0 /\ BinaryLookups(ks, k) = {}
          /\ (cls = "ascDense" => IndexShortcutSound(ks))
          /\ (n >= 4 /\ cls \in {"permSpan", "dupSpan"} => SpanLooksDense(ks) /\ ~IndexShortcutSound(ks))
ASSUME KeyVectors == /\ KeyColumnOf("permSpan", 4, 10) = <<10, 12, 11, 13>> /\ KeyColumnOf("dupSpan", 4, 5) = <<5, 6, 6, 8>>
                     /\ KeyColumnOf("desc", 3, 10) = <<12, 11, 10>> /\ 7 \in AbsentProbes(<<5, 6, 6, 8>>, 5)
ASSUME Vectors == /\ RecordSize(<<[ty |-> "UInt32", arr |-> 0], [ty |-> "Float32", arr |-> 3]>>) = 16
                  /\ FieldCount(<<[ty |-> "UInt32", arr |-> 0], [ty |-> "Float32", arr |-> 3]>>) = 4
                  /\ RecordSize(<<[ty |-> "UInt8", arr |-> 3], [ty |-> "Int16", arr |-> 0]>>) = 5
                  /\ Intern(<<2, 0, 1, 2, 1>>) = <<0, 2, 1>>
                  /\ BlockOffsets(<<0, 2, 1>>, StrLen) = <<0, 1, 9>>
                  /\ BlockSize(<<0, 2, 1>>, StrLen) = 14
                  /\ HashLookup(<<5, 7, 5>>, 5) = 3 /\ HashLookup(<<5, 7, 5>>, 9) = 0
=============================================================================
