CONSTANTS
  ListfileAttrSource = "crcs"
  MaxCalls = 2
INIT OInit
NEXT MCNext
INVARIANT MCListingExact
CHECK_DEADLOCK FALSE
