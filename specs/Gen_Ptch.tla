------------------------------- MODULE Gen_Ptch -------------------------------
(* Stage (B) for the patch applier of C08: TLC enumerates patch plans = shape x base-content class x *)
(* mutation.  Shapes: COPY; BSD0 forward-only, with backward seeks (also one that seeks exactly to   *)
(* offset 0, where the code's saturation happens to be right), with an add running past the end of   *)
(* the old file, extra-only, empty.  Mutations: none; every header word set to a boundary value or   *)
(* moved by +-1; single bit flips across the file; truncation at every block boundary; a control     *)
(* field / a 64-bit bsdiff header field replaced inside the packed image by 0, +-1, 2^31, 2^32-1,    *)
(* 2^64-1; a different base.  The driver concretises bytes from VERIF_SEED; Trace_Ptch re-evaluates   *)
(* every applied file with the reference semantics of Ptch.tla.                                       *)
(* Round 4 -- the RLE layer under BSD0 as a dimension: the control-byte space 0..255.  A "runs" plan    *)
(* describes one block of the bsdiff image (extra or data) as a sequence of runs <<kind, length>>, kind  *)
(* 1 = non-zero bytes, 0 = zero bytes.  One plan per control byte cb holds exactly one run of            *)
(* Ptch!RunLen(cb) bytes of cb's kind between delimiters of the other kind, plus runs longer than one     *)
(* control byte can express.  TLC certifies below (RunsCoverCtlSpace) that the canonical RLE encoding     *)
(* of the images of these plans uses every control byte 0x00..0xFF; Trace_Ptch binds the driver's encoder *)
(* to that canonical encoder (DRIFT encoder-not-canonical).                                               *)
EXTENDS Integers, Sequences, SequencesExt, FiniteSets, Json, IOUtils, TLC
P == INSTANCE Ptch WITH SeekMode <- "signed", pplan <- <<>>, pphase <- "", pacc <- <<>>, pci <- 0

Thorough == IOEnv.VERIF_TIER = "thorough"
T(a, m, s) == <<a, m, s>>
Shapes ==
  { [shape |-> "copy",  oldLen |-> 17, newLen |-> 33, ctrl |-> <<>>, neg |-> FALSE],
    [shape |-> "copy",  oldLen |-> 0,  newLen |-> 5,  ctrl |-> <<>>, neg |-> FALSE],
    [shape |-> "copy",  oldLen |-> 9,  newLen |-> 0,  ctrl |-> <<>>, neg |-> FALSE],
    [shape |-> "fwd",   oldLen |-> 24, newLen |-> 0,  ctrl |-> <<T(24, 0, 0)>>, neg |-> FALSE],
    [shape |-> "fwd",   oldLen |-> 30, newLen |-> 0,  ctrl |-> <<T(8, 4, 3), T(6, 0, 2), T(5, 1, 0)>>, neg |-> FALSE],
    [shape |-> "neg",   oldLen |-> 30, newLen |-> 0,  ctrl |-> <<T(12, 2, -7), T(9, 3, 0)>>, neg |-> TRUE],
    [shape |-> "neg",   oldLen |-> 40, newLen |-> 0,  ctrl |-> <<T(5, 1, -2), T(4, 0, -3), T(6, 2, 0)>>, neg |-> TRUE],
    [shape |-> "neg0",  oldLen |-> 20, newLen |-> 0,  ctrl |-> <<T(10, 0, -10), T(10, 0, 0)>>, neg |-> TRUE],
    [shape |-> "over",  oldLen |-> 10, newLen |-> 0,  ctrl |-> <<T(14, 0, 0)>>, neg |-> FALSE],
    [shape |-> "extra", oldLen |-> 6,  newLen |-> 0,  ctrl |-> <<T(0, 5, 0)>>, neg |-> FALSE],
    [shape |-> "empty", oldLen |-> 4,  newLen |-> 0,  ctrl |-> <<>>, neg |-> FALSE] }
  \cup (IF Thorough
        THEN { [shape |-> "fwd", oldLen |-> 300, newLen |-> 0, ctrl |-> <<T(140, 20, 10), T(130, 0, 0)>>, neg |-> FALSE],
               [shape |-> "neg", oldLen |-> 400, newLen |-> 0, ctrl |-> <<T(200, 5, -150), T(180, 1, -30), T(60, 0, 0)>>, neg |-> TRUE],
               [shape |-> "copy", oldLen |-> 200, newLen |-> 700, ctrl |-> <<>>, neg |-> FALSE] }
        ELSE {})
Mut(k, off, v) == [k |-> k, off |-> off, v |-> v]
\* v: -1 = 2^32-1, -2 = 2^31, -3 = 2^31-1, -4 = 2^64-1, -5 = 2^32; v <= -10 means "add v+20" (-21 -> -1, -19 -> +1)
HeaderOffs == {0, 4, 8, 12, 16, 20, 56, 60, 64}
Muts ==
  {Mut("none", 0, 0)}
  \cup {Mut("set32", o, v) : o \in HeaderOffs, v \in {0, -1, -2}}
  \cup {Mut("add32", o, v) : o \in {4, 8, 12, 60}, v \in {1, -1}}
  \cup {Mut("flip", pm, b) : pm \in {0, 150, 300, 450, 600, 750, 900, 1000}, b \in {0, 7}}
  \cup {Mut("trunc", n, 0) : n \in {0, 16, 56, 63, 64, 67, 68, 72}}
  \cup {Mut("truncTail", n, 0) : n \in {1, 4}}
  \cup {Mut("ctrl", f, v) : f \in 0..5, v \in {0, -21, -19, -2, -1}}
  \cup {Mut("img64", o, v) : o \in {8, 16, 24}, v \in {0, -21, -19, -2, -1, -4, -5}}
  \cup {Mut("img64", 0, 0)}
  \* a whole digest field replaced by a constant (all 0x00 / 0xFF / 0x20; off 24 = md5_before, 40 = md5_after),
  \* alone, with a damaged payload byte, and with a base that is not the one the patch was made for
  \cup {Mut(k, o, v) : k \in {"dig", "dig+payload", "dig+base"}, o \in {24, 40}, v \in {0, 255, 32}}
  \cup {Mut("payload", 0, 0)}
  \cup {Mut("base", pm, 0) : pm \in {0, 500, 1000}}
  \cup {Mut("baseLen", 0, v) : v \in {1, -1}}
Alphas == IF Thorough THEN {"random", "zeros", "sparse", "high"} ELSE {"random", "sparse"}
Dens   == IF Thorough THEN {0, 1, 4} ELSE {1}
\* ---- run plans (RLE control-byte space)
RunsFor(cb) == IF P!RunIsLit(cb) THEN <<<<0, 1>>, <<1, P!RunLen(cb)>>, <<0, 1>>>>
               ELSE <<<<1, 1>>, <<0, P!RunLen(cb)>>, <<1, 1>>>>
LongRuns    == {<<<<1 - k, 1>>, <<k, n>>, <<1 - k, 2>>>> : k \in {0, 1}, n \in {129, 255, 256, 257, 384}}
RunTotal(r) == FoldLeft(LAMBDA acc, x : acc + x[2], 0, r)
CtlBoundary == {0, 1, 126, 127, 128, 129, 254, 255}
RunShape(r, blk) ==
  [shape |-> "runs", oldLen |-> IF blk = "data" THEN RunTotal(r) ELSE 11, newLen |-> 0,
   ctrl |-> IF blk = "data" THEN <<T(RunTotal(r), 0, 0)>> ELSE <<T(0, RunTotal(r), 0)>>, neg |-> FALSE, runs |-> r, blk |-> blk]
RunShapes == {RunShape(RunsFor(cb), "extra") : cb \in 0..255}
             \cup {RunShape(RunsFor(cb), "data") : cb \in CtlBoundary}
             \cup {RunShape(r, b) : r \in LongRuns, b \in {"extra", "data"}}
RunMuts(r) == {Mut("none", 0, 0)}
              \cup (IF \E cb \in CtlBoundary : r = RunsFor(cb) THEN {Mut("payload", 0, 0), Mut("flip", 1000, 0), Mut("baseLen", 0, 1)} ELSE {})
RunCases == { [kind |-> "plan", shape |-> s.shape, oldLen |-> s.oldLen, newLen |-> s.newLen, ctrl |-> s.ctrl,
               neg |-> s.neg, alpha |-> "random", density |-> 1, mut |-> m, runs |-> s.runs, blk |-> s.blk]
              : s \in RunShapes, m \in UNION {RunMuts(x.runs) : x \in RunShapes} }
RunSel == {c \in RunCases : c.mut \in RunMuts(c.runs)}
\* the abstract image of a run plan (every non-zero byte drawn as 1) and the control bytes of its canonical encoding
RunBlock(r) == FoldLeft(LAMBDA acc, x : acc \o [j \in 1..x[2] |-> x[1]], <<>>, r)
RunImage(s) == LET t == [add |-> s.ctrl[1][1], mov |-> s.ctrl[1][2], seek |-> s.ctrl[1][3]]
               IN  P!ImageOf(<<t>>, IF s.blk = "data" THEN RunBlock(s.runs) ELSE <<>>,
                             IF s.blk = "data" THEN <<>> ELSE RunBlock(s.runs), t.add + t.mov)
ASSUME RunsCoverCtlSpace ==
  /\ \A cb \in 0..255 : cb \in P!CtlBytes(P!RleEncode(RunImage(RunShape(RunsFor(cb), "extra"))))
  /\ \A s \in RunShapes : P!RleDecode(P!RleEncode(RunImage(s)), Len(RunImage(s))).ok
Applicable(s, m) == (m.k \in {"ctrl", "img64"}) => (s.shape # "copy" /\ (m.k = "ctrl" => m.off < 3 * Len(s.ctrl)))
Cases == { [kind |-> "plan", shape |-> s.shape, oldLen |-> s.oldLen, newLen |-> s.newLen, ctrl |-> s.ctrl,
            neg |-> s.neg, alpha |-> a, density |-> d, mut |-> m, runs |-> <<>>, blk |-> ""]
           : s \in Shapes, a \in Alphas, d \in Dens, m \in {x \in Muts : TRUE} }
Sel == {c \in Cases : Applicable([shape |-> c.shape, ctrl |-> c.ctrl], c.mut)}
ASSUME ndJsonSerialize(IOEnv.CASES, SetToSeq(Sel) \o SetToSeq(RunSel))
ASSUME PrintT(<<"GENERATED", Cardinality(Sel) + Cardinality(RunSel)>>)
=============================================================================
