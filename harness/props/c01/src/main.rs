fn main() {}
