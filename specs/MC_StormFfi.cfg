CONSTANTS
  Threads = {t1, t2}
  ArchFiles = {"A", "B"}
  Names = {"f0", "f1"}
  Dev = {}
  Budget = 2
  CallFns = {"OpenArchive", "CloseArchive", "OpenFileEx", "ReadFile", "AddFile", "VerifyArchive", "FindFirst", "FindNext"}
  MaxOpen = 5
  HashCap = 2
  Rich = FALSE
  PreOpen = 2
CONSTANT NextId <- MCNextId
INIT MCInit
NEXT MCNext
SYMMETRY Symm
VIEW LockView
INVARIANTS TypeOK CloseInvalidatesOwn NoOrphans CursorInRange IdsUnique NoSelfDeadlock NoHang NoWaitCycle LockOrderInv LocksOwned
CHECK_DEADLOCK TRUE
