\* hypothetical deviation (seeded C06-s7): compact() keeps the old append cursor: TLC must exhibit a cursor inside the new, larger file
CONSTANTS
  H = 4
  UNames <- MCNames
  Home <- MCHome
  InitSeq <- MCInit
  InitTok <- MCInitTok
  InitRaw = {}
  SubOf <- MCSub
  HasLF0 = TRUE
  HasAT0 = FALSE
  Slack = 2
  FU = 2
  Ver = 1
  MaxCalls = 4
  MCToks = {"t1"}
SPECIFICATION StaleCursorSpec
INVARIANT CursorBehindImage
CHECK_DEADLOCK FALSE
