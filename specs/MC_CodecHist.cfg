INIT HInit
NEXT HNext
CONSTRAINT HBound
INVARIANT CallIndependent
INVARIANT HTypeOK
CHECK_DEADLOCK FALSE
