#!/usr/bin/env python3
"""Saturation of the C05 known-finding set (DESIGN 3.3 'closure under seeds').

  saturate.py <cases.ndjson> <tier> <seed_lo> <seed_hi> [arch-filter]   run the driver directly
      (no TLC stages) for every seed and print / accumulate the distinct (entry, outcome, key)
      classes of non-ok outcomes into /var/tmp/c05sat/classes.json
  saturate.py --emit   merge classes.json into known_findings.d/C05.json (existing entries keep
      their id / what / status; new classes get the next free id)

The quick plan is seed-independent; only the havoc items of thorough depend on VERIF_SEED, so the
seed sweep uses the arch filter `havoc`.
"""
import json, os, re, subprocess, sys

VERIF = os.path.dirname(os.path.dirname(os.path.dirname(os.path.abspath(__file__))))
OUT = "/var/tmp/c05sat"
BIN = os.path.join(VERIF, "harness/target/debug/c05")
KF = os.path.join(VERIF, "known_findings.d/C05.json")


def classes_of(summary):
    g = {}
    for x in summary["nonok"]:
        e, o, k, f = [s.strip() for s in x["sig"].split(" | ", 3)]
        c = g.setdefault((e, o, k), {"n": 0, "fields": set()})
        c["n"] += x["n"]
        c["fields"].add(f)
    return g


def load_acc():
    p = os.path.join(OUT, "classes.json")
    if os.path.exists(p):
        return {tuple(json.loads(k)): v for k, v in json.load(open(p)).items()}
    return {}


def save_acc(acc):
    os.makedirs(OUT, exist_ok=True)
    json.dump({json.dumps(list(k)): v for k, v in acc.items()}, open(os.path.join(OUT, "classes.json"), "w"), indent=1, sort_keys=True)


def sweep(cases, tier, lo, hi, arch):
    os.makedirs(OUT, exist_ok=True)
    acc = load_acc()
    for seed in range(lo, hi + 1):
        env = dict(os.environ, VERIF_TIER=tier, VERIF_SEED=str(seed), VERIF_SCRATCH=OUT)
        if arch:
            env["C05_ARCH"] = arch
        tr = os.path.join(OUT, f"sat-{tier}-{seed}.trace")
        p = subprocess.run([BIN, cases, tr], env=env, stdout=subprocess.PIPE, stderr=subprocess.STDOUT, text=True)
        if p.returncode != 0:
            print(f"seed {seed}: driver exit {p.returncode}\n{p.stdout[-2000:]}")
            sys.exit(2)
        g = classes_of(json.load(open(tr + ".summary.json")))
        new = [k for k in g if k not in acc]
        for k, v in g.items():
            a = acc.setdefault(k, {"n": 0, "fields": [], "first": f"{tier}:{seed}"})
            a["n"] += v["n"]
            a["fields"] = sorted(set(a["fields"]) | v["fields"])[:12]
        print(f"seed {seed}: {len(g)} classes, {len(new)} new {new}", flush=True)
        os.remove(tr)
        os.remove(tr + ".summary.json")
        save_acc(acc)


def slug(s):
    return re.sub(r"[^A-Za-z0-9]+", "-", s).strip("-")[:48]


def emit():
    acc = load_acc()
    old = json.load(open(KF))["findings"] if os.path.exists(KF) else []
    by = {(f["match"]["entry"], f["match"]["outcome"], f["match"]["key"]): f for f in old}
    nxt = 1 + max([int(f["id"].split("-")[1]) for f in old] or [0])
    out = list(old)
    for k in sorted(acc):
        if k in by:
            continue
        e, o, key = k
        what = (f"{e}: {o} " + ("at " if o == "panic" else "requested by ") + key +
                f" (fields: {', '.join(acc[k]['fields'][:4])})")
        out.append({"property": "C05", "id": f"C05-{nxt:03d}-{slug(e + '-' + o)}", "status": "known",
                    "match": {"entry": e, "outcome": o, "key": key}, "what": what})
        nxt += 1
    json.dump({"findings": out}, open(KF, "w"), indent=1)
    print(f"{KF}: {len(out)} findings ({len(out) - len(old)} new)")


if __name__ == "__main__":
    if sys.argv[1] == "--emit":
        emit()
    else:
        sweep(sys.argv[1], sys.argv[2], int(sys.argv[3]), int(sys.argv[4]), sys.argv[5] if len(sys.argv) > 5 else None)
