CONSTANT Threads = {t1, t2, t3}
CONSTANT CatCap <- MCCatCap
CONSTANT MaxHeld = 1
CONSTANT Dev = {}
CONSTANT Budget = 2
CONSTANT Sizes = {2}
CONSTANT MaxPers = {1}
CONSTANT StatsModes = {TRUE}
CONSTANT LocalOps = FALSE
SYMMETRY Sym
INIT Init
NEXT Next
INVARIANT PoolBounded
INVARIANT NoAlias
INVARIANT PooledEmpty
INVARIANT HandedOutEmpty
INVARIANT HandedOutCap
INVARIANT CategoryRight
INVARIANT OneLock
INVARIANT LockOwner
INVARIANT BufferFlow
INVARIANT CountersSane
INVARIANT Conservation
INVARIANT HitsExact
INVARIANT StatsOffZero
INVARIANT EndBalanced
PROPERTY MonotoneMC
CHECK_DEADLOCK TRUE
