--------------------------- MODULE Trace_WmoLayout ---------------------------
(* Stage (D) for C15: the events recorded while the real wow-wmo writer / parsers / converter ran  *)
(* on the TLC-generated shapes are replayed against WmoLayout.                                     *)
(*   P-conjuncts (reject = "BAD"):  Write accepted => both parsers accept the bytes; every section *)
(*     token after parse equals the token of the object written (Sec); the second write is         *)
(*     byte-identical, as a whole (Rewrite) and chunk by chunk (RwChunk); MOHD counts = list lengths = record counts of the chunks (Count); *)
(*     offsets stored in MOMT / MOGI resolve, in MOTX / MOGN, to the strings of the object          *)
(*     (StrRef); conversion keeps every section owed by ConvRootOwed / ConvGroupOwed (Sec/convert). *)
(*   D-conjuncts ("DRIFT", never a verdict): the chunk list read by the independent walker tiles    *)
(*     the file (frame machine of ChunkFraming), the tag order equals the emission plan, MODD name  *)
(*     offsets point at string starts, the converter updates the version field.                    *)
EXTENDS WmoLayout, Json, IOUtils, TLCExt

Rec == ndJsonDeserialize(IOEnv.TRACE)
VARIABLES tl, tst
tvars == <<tl, tst>>

Idle == [kind |-> "-", ver |-> 0, to |-> 0, ph |-> "idle", wlen |-> 0, wtok |-> "-", seen |-> {}, apiok |-> FALSE, seenapi |-> {}, shape |-> << >>]

\* ---- replay of the walker's chunk list through the frame machine (strict fold) ---------------
\* accumulator: [fs, bad] ; bad = index of the first chunk the frame machine cannot place (0 = none)
ReplayStep(acc, jc) ==
    IF acc.bad # 0 THEN acc
    ELSE LET c  == jc[2]
             f0 == acc.fs
             \* leave finished containers first
             f1 == IF CfDepth(f0) > 1 /\ c.depth < CfDepth(f0) /\ CfCanLeave(f0) THEN CfLeave(f0) ELSE f0
         IN  IF c.depth # CfDepth(f1) THEN [acc EXCEPT !.bad = jc[1]]
             ELSE IF IsContainer(c.tag)
                  THEN IF CfCanEnter(f1, c.off, c.size, MogpHdrSize)
                       THEN [acc EXCEPT !.fs = CfEnter(f1, c.tag, c.off, c.size, MogpHdrSize)]
                       ELSE [acc EXCEPT !.bad = jc[1]]
                  ELSE IF CfCanLeaf(f1, c.off, c.size)
                       THEN [acc EXCEPT !.fs = CfLeaf(f1, c.off, c.size)]
                       ELSE [acc EXCEPT !.bad = jc[1]]
Replay(cs, len) ==
    LET r  == FoldLeft(ReplayStep, [fs |-> CfInit(len), bad |-> 0], [j \in 1..Len(cs) |-> <<j, cs[j]>>])
        f2 == IF r.bad = 0 /\ CfDepth(r.fs) > 1 /\ CfCanLeave(r.fs) THEN CfLeave(r.fs) ELSE r.fs
    IN  [bad |-> r.bad, done |-> r.bad = 0 /\ CfDone(f2), fs |-> f2]

\* the shape of a case with dummy string lengths (only counts matter for the tag order)
Ones(n) == [j \in 1..n |-> 1]
BitSet(pat, j) == (pat \div (2 ^ (j - 1))) % 2 = 1
Inner(n, pat, len) == [j \in 1..n |-> IF BitSet(pat, j) THEN len ELSE 0]
ShapeOf(kind, sh) ==
    IF kind = "root"
    THEN [kind |-> "root", ver |-> sh.ver, ntex |-> sh.ntex, nmat |-> sh.nmat, ngrp |-> sh.ngrp, nport |-> sh.nport,
          pvlens |-> Inner(sh.nport, sh.pvpat, sh.npv), npref |-> sh.npref, nvbl |-> sh.nvbl,
          vbllens |-> Inner(sh.nvbl, sh.vblpat, sh.vbl), nlight |-> sh.nlight, ndd |-> sh.ndd,
          nds |-> sh.nds, sky |-> sh.sky, skylen |-> 1, texlens |-> Ones(sh.ntex), grplens |-> Ones(sh.ngrp),
          ddlens |-> Ones(sh.ndd)]
    ELSE [kind |-> "group", ver |-> sh.ver, nvert |-> sh.nvert, nidx |-> sh.nidx, nnorm |-> sh.nnorm, ntc |-> sh.ntc,
          ncol |-> sh.ncol, nbatch |-> sh.nbatch, nbsp |-> sh.nbsp, liq |-> sh.liq, lw |-> sh.lw, lh |-> sh.lh,
          ndref |-> sh.ndref]

IsOk(res)    == res = "ok"
IsErr(res)   == Len(res) >= 4 /\ SubSeq(res, 1, 4) = "err:"

\* ---- per-event judgement: "" = accepted, otherwise the name of the first failing P-conjunct ----
CountWhy(e) ==
    IF e.mohd # e.list THEN "mohd_ne_list"
    ELSE IF e.chunk = "MODN" THEN (IF e.nstr # e.list THEN "strings_ne_list" ELSE "")
    ELSE IF e.size # e.list * Elem[e.chunk] THEN "chunk_records_ne_list"
    ELSE ""
Resolves(strs, off, want) == \E q \in 1..Len(strs) : strs[q].off = off /\ strs[q].tok = want
StrRefWhy(e) ==
    IF e.table = "MODN" THEN ""
    ELSE IF Len(e.refs) # Len(e.want) THEN "ref_count"
    ELSE IF \E j \in 1..Len(e.want) : e.want[j] # "-" /\ ~Resolves(e.strs, e.refs[j], e.want[j]) THEN "offset_does_not_resolve"
    ELSE ""
StrRefDrift(e) == e.table = "MODN" /\ \E j \in 1..Len(e.refs) : ~(\E q \in 1..Len(e.strs) : e.strs[q].off = e.refs[j])

\* BSP structure: the MOBN records read out of the bytes (layout of the specification) are the tree that was
\* written, and form a well-formed BSP tree
BspNodeOf(row) == [axis |-> row[1] % 4, leaf |-> (row[1] \div 4) % 2 = 1, neg |-> row[2], pos |-> row[3], nfaces |-> row[4], fstart |-> row[5]]
BspWant(row)   == [axis |-> row[1], leaf |-> row[2] = 1, neg |-> row[3], pos |-> row[4], nfaces |-> row[5], fstart |-> row[6]]
BspWhy(e, st) ==
    LET got  == [j \in 1..Len(e.nodes) |-> BspNodeOf(e.nodes[j])]
        want == [j \in 1..Len(st.shape.bsp) |-> BspWant(st.shape.bsp[j])]
    IN  IF Len(st.shape.bsp) = 0 THEN ""
        ELSE IF got # want THEN "bsp_nodes_in_file_ne_tree_written"
        ELSE IF ~BspWellFormed(got) THEN "bsp_tree_malformed" ELSE ""
\* portal graph: the MOPR records read out of the bytes are the references written and form a valid graph
RefOf(row) == [portal |-> row[1], group |-> row[2], side |-> row[3]]
PortalWhy(e, st) ==
    LET got  == [j \in 1..Len(e.refs) |-> RefOf(e.refs[j])]
        want == [j \in 1..Len(st.shape.prefs) |-> RefOf(st.shape.prefs[j])]
    IN  IF Len(st.shape.prefs) = 0 THEN ""
        ELSE IF got # want THEN "portal_refs_in_file_ne_written"
        ELSE IF ~PortalGraphOk(got, st.shape.nport, st.shape.ngrp) THEN "portal_graph_malformed" ELSE ""
Owed(st) == IF st.kind = "rootconv" THEN ConvRootOwed(st.ver, st.to) ELSE ConvGroupOwed(st.ver, st.to)
SecWhy(e, st) ==
    IF e.phase \in {"convert", "convert_editor"} THEN (IF e.name \in Owed(st) /\ e.a # e.b THEN "representable_section_changed" ELSE "")
    \* the converted object written in the target version and parsed back: the ordinary round-trip
    \* obligation at version st.to
    ELSE IF e.phase = "convparse"
         THEN (IF e.name \in RootSections /\ ~(e.name = "skybox" /\ ~SupportsSkybox(st.to)) /\ e.a # e.b
               THEN "converted_section_lost_by_write_parse" ELSE "")
    \* a skybox reference is content only in versions that can carry one (WotLK+); written for
    \* Classic/TBC it is outside the format's domain (the writer drops it) -- no obligation
    ELSE IF e.name = "skybox" /\ ~SupportsSkybox(st.ver) THEN ""
    ELSE IF e.a # e.b THEN "section_differs" ELSE ""

Expected(st) == CASE st.kind = "root"  -> RootSections
                  [] st.kind = "group" -> GroupSections
                  [] OTHER -> Owed(st)
ExpectedApi(st) == IF st.kind = "root" THEN RootApiSections ELSE GroupApiSections
EndWhy(st) == IF st.ph \in {"parsed", "rewritten", "converted"} /\ ~(Expected(st) \subseteq st.seen) THEN "sections_missing"
              ELSE IF st.apiok /\ ~(ExpectedApi(st) \subseteq st.seenapi) THEN "api_sections_missing" ELSE ""

Why(e, st) ==
    CASE e.ev = "Reset"   -> ""
      [] e.ev = "Write"   -> IF IsOk(e.res) \/ IsErr(e.res) THEN "" ELSE "write_crashed"
      \* group files: the back-patched MOGP size must make the sub-chunks tile its payload behind the 68-byte
      \* header (the property's "group chunk size back-patching"), and every sub-chunk holds exactly the
      \* records of its list
      [] e.ev = "Chunks"  -> IF e.len # st.wlen THEN "walker_len"
                             ELSE IF st.kind = "group" /\ ~Replay(e.cs, e.len).done THEN "mogp_subchunks_do_not_tile"
                             ELSE IF st.kind = "group" /\ ~GroupSizesOf(e.cs, lsh) THEN "group_chunk_records_ne_list"
                             ELSE ""
      [] e.ev = "Count"   -> CountWhy(e)
      [] e.ev = "StrRef"  -> StrRefWhy(e)
      [] e.ev = "Parse"   -> IF IsOk(e.res) THEN "" ELSE "parse_rejects_writer_output"
      [] e.ev = "Sec"     -> SecWhy(e, st)
      [] e.ev = "Rewrite" -> IF ~IsOk(e.res) THEN "rewrite_failed"
                             ELSE IF e.len # st.wlen \/ e.tok # st.wtok THEN "second_write_differs" ELSE ""
      [] e.ev = "Bsp"     -> BspWhy(e, st)
      [] e.ev = "PortalRefs" -> PortalWhy(e, st)
      \* every public way of producing the bytes yields the bytes of write_root
      [] e.ev = "AltWrite" -> IF ~IsOk(e.res) THEN "alternative_writer_failed"
                              ELSE IF e.len # st.wlen \/ e.tok # st.wtok THEN "alternative_writer_bytes_differ" ELSE ""
      [] e.ev = "RwChunk" -> IF e.a # e.b THEN "chunk_differs_on_second_write" ELSE ""
      [] e.ev = "Convert" -> IF IsOk(e.res) THEN "" ELSE "convert_failed"
      [] e.ev = "End"     -> EndWhy(st)
      [] OTHER            -> Assert(FALSE, <<"unknown event", e>>)

Drift(e, st) ==
    CASE e.ev = "Chunks" ->
            LET r == Replay(e.cs, e.len) IN
            IF ~r.done THEN "not_tiled"
            ELSE IF Tags(e.cs) # TagsOfPlan(lplan) THEN "tag_order" ELSE ""
      [] e.ev = "StrRef"  -> IF StrRefDrift(e) THEN "modd_name_offset" ELSE ""
      [] e.ev = "Convert" -> IF e.version_field # "ok" THEN "version_field" ELSE ""
      [] OTHER -> ""

\* ---- the trace state machine: phases of one case -------------------------------------------
StepState(e, st) ==
    CASE e.ev = "Reset"   -> [Idle EXCEPT !.kind = e.kind, !.ver = e.ver, !.to = e.to, !.ph = "reset", !.shape = e.shape]
      [] e.ev = "Write"   -> [st EXCEPT !.ph = IF st.ph = "converted" THEN "converted" ELSE IF IsOk(e.res) THEN "written" ELSE "ended",
                                        !.wlen = e.len, !.wtok = e.tok]
      [] e.ev = "Parse"   -> [st EXCEPT !.ph = IF st.ph = "converted" THEN "converted" ELSE IF e.api = "legacy" /\ IsOk(e.res) THEN "parsed" ELSE st.ph,
                                        !.apiok = IF e.api = "binrw" THEN IsOk(e.res) ELSE st.apiok]
      [] e.ev = "Sec"     -> [st EXCEPT !.seen = IF e.phase \in {"api", "convparse"} THEN st.seen ELSE st.seen \cup {e.name},
                                        !.seenapi = IF e.phase = "api" THEN st.seenapi \cup {e.name} ELSE st.seenapi]
      [] e.ev = "Rewrite" -> [st EXCEPT !.ph = "rewritten"]
      [] e.ev = "Convert" -> [st EXCEPT !.ph = IF IsOk(e.res) THEN "converted" ELSE "ended"]
      [] e.ev = "End"     -> [st EXCEPT !.ph = "idle"]
      [] OTHER            -> st

\* order of events inside a case (guard style: a trace that violates it is a harness bug and stops)
PhaseOk(e, st) ==
    CASE e.ev = "Reset"   -> TRUE
      [] e.ev = "Write"   -> st.ph \in {"reset", "converted"}
      [] e.ev \in {"Chunks", "Count", "StrRef", "Bsp", "PortalRefs"} -> st.ph = "written"
      [] e.ev = "Parse"   -> st.ph \in {"written", "parsed", "rewritten", "converted"}
      [] e.ev = "Sec"     -> st.ph \in {"written", "parsed", "rewritten", "converted"}
      [] e.ev = "Rewrite" -> st.ph = "parsed"
      [] e.ev = "RwChunk" -> st.ph = "rewritten"
      [] e.ev = "AltWrite" -> st.ph \in {"written", "converted"}
      [] e.ev = "Convert" -> st.ph = "reset"
      [] e.ev = "End"     -> st.ph # "idle"
      [] OTHER            -> FALSE

\* ---- binding of the layout machine's variables (WmoLayout) to the observed run ----------------
\* Reset: the shape and its emission plan; Write: the file length is the writer's final cursor and
\* the walker starts; Chunks: the walker's log and its frame state after the replay; Count: the
\* MOHD values read from the bytes.
BaseKind(kd) == IF kd \in {"root", "rootconv"} THEN "root" ELSE "group"
LayoutStep(e) ==
    CASE e.ev = "Reset" ->
            /\ lsh' = ShapeOf(BaseKind(e.kind), e.shape) /\ lplan' = Plan(lsh') /\ lpc' = 1 /\ lcur' = 0
            /\ lhdrs' = << >> /\ lopen' = << >> /\ lmohd' = << >> /\ lphase' = "write"
            /\ lfs' = CfInit(0) /\ llog' = << >>
      [] e.ev = "Write" ->
            /\ lcur' = e.len /\ lpc' = Len(lplan) + 1 /\ lphase' = "walk" /\ lfs' = CfInit(e.len)
            /\ UNCHANGED <<lsh, lplan, lhdrs, lopen, lmohd, llog>>
      [] e.ev = "Chunks" ->
            LET r == Replay(e.cs, e.len) IN
            /\ llog' = e.cs /\ lfs' = r.fs /\ lphase' = IF r.done THEN "done" ELSE "walk"
            /\ lhdrs' = [c \in {e.cs[j].off : j \in 1..Len(e.cs)} |-> "hdr"]
            /\ UNCHANGED <<lsh, lplan, lpc, lcur, lopen, lmohd>>
      [] e.ev = "Count" ->
            /\ lmohd' = [f \in DOMAIN lmohd \cup {e.field} |-> IF f = e.field THEN e.mohd ELSE lmohd[f]]
            /\ UNCHANGED <<lsh, lplan, lpc, lcur, lhdrs, lopen, lphase, lfs, llog>>
      [] OTHER -> UNCHANGED lvars

Init == /\ tl = 1 /\ tst = Idle
        /\ lsh = << >> /\ lplan = << >> /\ lpc = 1 /\ lcur = 0 /\ lhdrs = << >> /\ lopen = << >> /\ lmohd = << >>
        /\ lphase = "write" /\ lfs = CfInit(0) /\ llog = << >>
Next == /\ tl <= Len(Rec)
        /\ PhaseOk(Rec[tl], tst)
        /\ tl' = tl + 1
        /\ tst' = StepState(Rec[tl], tst)
        /\ LayoutStep(Rec[tl])
        /\ LET w == Why(Rec[tl], tst) IN IF w = "" THEN TRUE ELSE PrintT(<<"BAD", tl, w>>)
        /\ LET d == Drift(Rec[tl], tst) IN IF d = "" THEN TRUE ELSE PrintT(<<"DRIFT", tl, d>>)

Accepted == LET d == TLCGet("stats").diameter IN
            IF d - 1 = Len(Rec) THEN PrintT(<<"CONSUMED", Len(Rec)>>) ELSE Print(<<"TRACE_STUCK_AT", d>>, FALSE)
=============================================================================
