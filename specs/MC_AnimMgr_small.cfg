CONSTANT Dev = {}
CONSTANT MaxCalls = 2
CONSTANT Dts = {0, 1, 3, 5, 13}
CONSTANT TabIds = {1, 2, 3, 4, 5, 6, 7, 8, 9}
INIT MCInit
NEXT MCNext
INVARIANT IndexValid
INVARIANT TimeBound
CHECK_DEADLOCK FALSE
