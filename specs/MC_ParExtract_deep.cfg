CONSTANT PresentAt <- MCPresentAt
CONSTANT StaleReuse = FALSE
CONSTANT SharedHandle = FALSE
CONSTANT MaxLen = 4
CONSTANT MaxT = 3
CONSTANT MaxB = 3
INIT Init
NEXT Next
INVARIANT ScheduleIndependent
INVARIANT SlotsRight
INVARIANT HandleFresh
INVARIANT Returns
CHECK_DEADLOCK FALSE
