--------------------------- MODULE Read_MpqFormat ---------------------------
(* Direction 1 of C02, reference side: TLC evaluates the reference reader (MpqFormat!RefReadFile)  *)
(* on the bytes of archives written by the library and emits, per archive, the decoded header and  *)
(* per name the decoded sector lists (method byte | raw, payload) under the standard format and --  *)
(* where named deviations of the library can apply -- under every combination of them.  Payloads    *)
(* with a method byte are inflated by Python's zlib/bz2; the comparison with what was put into the  *)
(* archive is decided by TLC in Trace_MpqFormat.  Files whose sectors are all stored raw are        *)
(* compared byte for byte right here (field `rawsame`).                                            *)
EXTENDS MpqFormat, Json, IOUtils, TLC

Rec == ndJsonDeserialize(IOEnv.ARCH)

NoHeaderNat == [hsize |-> -1, asize |-> -1, ver |-> -1, shift |-> -1, htpos |-> -1, btpos |-> -1,
                htcount |-> -1, btcount |-> -1, hibt |-> -1, hthi |-> -1, bthi |-> -1, asize64 |-> -1, nohetbet |-> FALSE]

FileOut(fi) == [res |-> fi.res, flags |-> Hex32(fi.flags), pos |-> fi.pos, csize |-> fi.csize, fsize |-> fi.fsize,
                blk |-> fi.blk, single |-> fi.single, cflag |-> fi.cflag, enc |-> fi.enc,
                sectors |-> fi.sectors, stored |-> fi.stored, locale |-> fi.locale, platform |-> fi.platform, crc |-> fi.crc]

AllRaw(fi) == \A si \in 1..Len(fi.sectors) : fi.sectors[si].m = -1
RawSame(fi, data) ==
  IF fi.res # "ok" \/ ~AllRaw(fi) THEN "n/a"
  ELSE IF ConcatAll([si \in 1..Len(fi.sectors) |-> fi.sectors[si].p]) = data THEN "same" ELSE "differs"

\* std = decoding under the standard format; devs = decodings under every combination of the named
\* deviations that can matter for this file (smallest combination first)
DecodeName(bs, ar, ht, bt, nb, data) ==
  LET std   == RefReadFile(bs, ar, ht, bt, nb, Std)
      cands == IF std.pos < 0 THEN {}
               ELSE CandLabels(nb, std.enc, std.single, std.cflag, Has(std.flags, F_SECTORCRC), std.fsize, std.csize,
                               CeilDiv(std.fsize, SectorSize(ar.hn.shift)), "w")
      subs  == SubsetSeqs(cands)
  IN  [ nb |-> nb, std |-> FileOut(std), rawsame |-> RawSame(std, data),
        devs |-> [di \in 1..Len(subs) |->
                    LET dv == RefReadFile(bs, ar, ht, bt, nb, DialectOf(subs[di]))
                    IN  [labels |-> LabelSeq(subs[di]), v |-> FileOut(dv), rawsame |-> RawSame(dv, data)]] ]

\* a file that was added under a non-neutral locale: looked up by (name, locale); standard format only
DecodeLoc(bs, ar, ht, bt, lf) ==
  LET std == RefReadFileL(bs, ar, ht, bt, lf.nb, lf.locale, Std)
  IN  [nb |-> lf.nb, locale |-> lf.locale, std |-> FileOut(std), rawsame |-> RawSame(std, lf.data)]

Listfile == <<40,108,105,115,116,102,105,108,101,41>>       \* "(listfile)"

Decode(r) ==
  IF r.res # "ok" THEN [case |-> r.case, open |-> "notbuilt", base |-> -1, alen |-> 0, hn |-> NoHeaderNat,
                        files |-> <<>>, locfiles |-> <<>>, absent |-> <<>>, listfile |-> <<>>]
  ELSE
  LET bs == r.bytes
      ar == OpenArchive(bs)
  IN  IF ar.res = "noheader"
      THEN [case |-> r.case, open |-> ar.res, base |-> -1, alen |-> 0, hn |-> NoHeaderNat,
            files |-> <<>>, locfiles |-> <<>>, absent |-> <<>>, listfile |-> <<>>]
      ELSE IF ar.res # "ok"
      THEN [case |-> r.case, open |-> ar.res, base |-> ar.base, alen |-> ar.alen, hn |-> ar.hn,
            files |-> <<>>, locfiles |-> <<>>, absent |-> <<>>, listfile |-> <<>>]
      ELSE LET ht == HashTableOf(bs, ar.base, ar.hn)
               bt == BlockTableOf(bs, ar.base, ar.hn)
           IN  [ case |-> r.case, open |-> "ok", base |-> ar.base, alen |-> ar.alen, hn |-> ar.hn,
                 files  |-> [fi \in 1..Len(r.files) |-> DecodeName(bs, ar, ht, bt, r.files[fi].nb, r.files[fi].data)],
                 locfiles |-> [li \in 1..Len(r.locfiles) |-> DecodeLoc(bs, ar, ht, bt, r.locfiles[li])],
                 absent |-> [ai \in 1..Len(r.absent) |-> RefReadFile(bs, ar, ht, bt, r.absent[ai].nb, Std).res],
                 listfile |-> << DecodeName(bs, ar, ht, bt, Listfile, <<>>) >> ]

Out == [ri \in 1..Len(Rec) |-> Decode(Rec[ri])]
ASSUME ndJsonSerialize(IOEnv.OUT, Out)
ASSUME PrintT(<<"DECODED", Len(Rec)>>)
=============================================================================
