--------------------------- MODULE MC_MpqBuildOpts ---------------------------
(* Stage (A) for the option part of C01: every sequence of up to MaxCalls setter calls, then build and list.     *)
EXTENDS MpqBuildOpts, TLC

CONSTANTS MaxCalls
Added == {"a", "Dir\\b"}

MCCallCrcs     == Len(ocalls) < MaxCalls /\ \E on \in BOOLEAN : CallCrcs(on)
MCCallAttrs    == Len(ocalls) < MaxCalls /\ \E a \in AttrOpts : CallAttrs(a)
MCCallListfile == Len(ocalls) < MaxCalls /\ \E g \in BOOLEAN : CallListfile(g)
MCBuild        == OBuild
MCList         == OList(Added)
MCNext == MCCallCrcs \/ MCCallAttrs \/ MCCallListfile \/ MCBuild \/ MCList

MCListingExact == ListingExact(Added)
MCListingCountsBlocks == ListingCountsBlocks(Added)

\* constant level: the (sector CRC, attributes) combinations of the property's quantifier are exactly the option states
\* that two setter calls reach -- and ONE fixed call order reaches only four of the six
CaCalls == {c \in OptCalls : c[1] \in {"crcs", "attrs"}}
Pair(o) == <<o.crc, o.attrs>>
UpTo2 == {<<>>} \cup {<<c>> : c \in CaCalls} \cup {<<c, d>> : c \in CaCalls, d \in CaCalls}
ASSUME {Pair(EffOpts(s)) : s \in UpTo2} = BOOLEAN \X AttrOpts
CrcsThenAttrs == {<<<<"crcs", x>>, <<"attrs", a>>>> : x \in {"on", "off"}, a \in AttrOpts}
AttrsThenCrcs == {<<<<"attrs", a>>, <<"crcs", x>>>> : x \in {"on", "off"}, a \in AttrOpts}
ASSUME {Pair(EffOpts(s)) : s \in CrcsThenAttrs} = {<<FALSE, "none">>, <<TRUE, "none">>, <<TRUE, "crc32">>, <<TRUE, "full">>}
ASSUME {Pair(EffOpts(s)) : s \in AttrsThenCrcs} = {<<FALSE, "none">>, <<TRUE, "crc32">>, <<TRUE, "full">>, <<FALSE, "crc32">>, <<FALSE, "full">>}
\* the two variants of the "(attributes)" line differ exactly on the states in which checksums and attributes disagree
ASSUME \A s \in UpTo2 : LET o == EffOpts(s) IN
          (o.crc = (o.attrs # "none")) => (Specials(o) \cap {ATTRIBUTES} = IF o.crc THEN {ATTRIBUTES} ELSE {})
=============================================================================
