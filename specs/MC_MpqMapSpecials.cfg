\* the design: every invariant of the special-file sub-machine holds
CONSTANTS
  Names = {"a", "b"}
  Toks = {"t1"}
  LfBig = TRUE
  QDevs = {}
  MaxBlocks = 4
  StartKinds <- KindsQuick
SPECIFICATION MCSpec
CONSTRAINT Bound
VIEW DesignView
INVARIANT CleanMeansEqual ListfileComplete ListfileNoStale ListfileNoDup AttrRowCount AttrRowsDescribe BlocksDistinct
PROPERTY AttrFlagsStable AttrUntouchedRowsKept
CHECK_DEADLOCK FALSE
