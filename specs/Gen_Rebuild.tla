----------------------------- MODULE Gen_Rebuild -----------------------------
(* Stage (B) for C07: TLC enumerates source-archive classes x rebuild options.                    *)
(*   source : format version 1..4 x (attributes) present x an empty file present x a weak          *)
(*            (signature) file (72 bytes, listed) present; every source                            *)
(*            carries a plain compressed file, a raw one, an encrypted one, an encrypted+fix-key  *)
(*            one, a file larger than a sector, and a generated (listfile)                        *)
(*   options: target version (0 = preserve) x compression override x sector-size override x      *)
(*            skip_encrypted x skip_signatures x verify x list_only                               *)
(* thorough: the full product; quick: every option set that differs from the defaults in at most  *)
(* one dimension, plus the pairs (target x compression), (target x verify), (skip_enc x verify), *)
(* (compression x sector size), (compression x verify).                                           *)
EXTENDS Integers, Sequences, SequencesExt, FiniteSets, Json, IOUtils, TLC

Thorough == IOEnv.VERIF_TIER = "thorough"
Sources == {[ver |-> v, at |-> a, empty |-> e, sig |-> g] : v \in 1..4, a \in BOOLEAN, e \in BOOLEAN, g \in BOOLEAN}
Opt(t, c, b, se, ss, vf, lo) == [target |-> t, comp |-> c, bs |-> b, skipEnc |-> se, skipSig |-> ss, verify |-> vf, listOnly |-> lo]
Targets == 0..4
Comps   == {"keep", "none", "zlib", "bzip2"}
Sizes   == {-1, 3, 5}
Default == Opt(0, "keep", -1, FALSE, TRUE, FALSE, FALSE)
AllOpts == {Opt(t, c, b, se, ss, vf, lo) : t \in Targets, c \in Comps, b \in Sizes, se \in BOOLEAN, ss \in BOOLEAN, vf \in BOOLEAN, lo \in BOOLEAN}
Dims == {"target", "comp", "bs", "skipEnc", "skipSig", "verify", "listOnly"}
Diff(o) == {d \in Dims : o[d] # Default[d]}
QuickOpts == {o \in AllOpts : \/ Cardinality(Diff(o)) <= 1
                              \/ Diff(o) \in {{"target", "comp"}, {"target", "verify"}, {"skipEnc", "verify"}, {"comp", "bs"}, {"comp", "verify"},
                                              {"skipSig", "verify"}, {"skipSig", "skipEnc"}, {"skipSig", "target"}}}
\* thorough drops only combinations that add nothing: list_only ignores every other option but the filters
ThoroughOpts == {o \in AllOpts : (o.listOnly => (o.target = 0 /\ o.comp = "keep" /\ o.bs = -1 /\ ~o.verify)) /\ (~o.skipSig => Cardinality(Diff(o)) <= 3)}
Opts == IF Thorough THEN ThoroughOpts ELSE QuickOpts
Cases == SetToSeq({[src |-> s, opts |-> o] : s \in Sources, o \in Opts})
ASSUME ndJsonSerialize(IOEnv.CASES, Cases)
ASSUME PrintT(<<"GENERATED", Len(Cases)>>)
VARIABLE gx
Init == gx = 0
Next == UNCHANGED gx
=============================================================================
